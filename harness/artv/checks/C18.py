"""C18 — data preparation invertible; validation atomic.

(a) tie: `utils.normalize / de_normalize / compliment_code / de_compliment_code`, the BaseART and
    FuzzyART prepare/restore pairs and the `validate_data` of BaseART / FuzzyART / ART1 / ART2A against
    the Lean model over Q (`prep …` lines), on random rational matrices;
(b) oracle: round trip, range, self-validation and bound re-use for EVERY public estimator's
    prepare_data / restore_data pair, on the implementation alone;
(c) oracle: every malformed kind, at random points of random training histories, fed to fit /
    partial_fit / predict of the clustering estimators: must raise, and the full snapshot of the
    estimator must be the same before and after.  The malformed kinds include multi-row batches whose
    per-row complement-coding errors cancel over the batch (complement half joined to the wrong rows,
    +delta / -delta in different rows): validation is row-wise.
(d) oracle: the same rejection-atomicity for entries that are out of range by LESS than the resolution of the matrix's
    dtype around the bounds (-5.5e-17 = 0.3 - (0.1 + 0.2), -5e-324, -2^-54, 1 + one ulp …) in float64 / float32 / float16
    matrices of C / Fortran / strided layout; sources that round onto the bound when stored (1 + 2^-53 -> 1.0,
    -5e-324 -> -0.0 in float32) are in range and are not demanded to be rejected.
(e) oracle: a TRAINED estimator whose width-bearing hyper-parameter (BayesianART cov_init, GaussianART sigma_init, ART2A
    alpha; elementary or as the base module of DualVigilanceART / TopoART / CVIART) is replaced between calls through
    set_params / attribute assignment / the host's `base_module__` route, then fit / partial_fit / predict on in-range
    data of the width the NEW value is sized for (wrong for the trained model: must raise, snapshot unchanged), of a
    width fitting neither (same), and of the trained width (may go through; if it ends in an error the snapshot must
    be unchanged).
"""
from __future__ import annotations

import math
import signal
from fractions import Fraction

import numpy as np

from .. import gen, specs
from ..common import q2s, mat_q, vec_q, run_driver, parse_kv
from ..impl import make, quiet, exc_enum, full_snapshot, eq_snap, ELEMENTARY

RULE = ("cases = (a) one `prep` protocol line compared with the implementation (op, matrix, bounds / class, "
        "remembered dim_); (b) (estimator tree, data set) for the round-trip oracle; (c) (estimator tree, "
        "training history, point of the history, entry point, malformed kind).  A case is non-trivial when the "
        "matrix has >= 2 rows with negative or non-unit-scale entries (a, b) or the estimator was trained before "
        "the malformed call (c); (d) (estimator tree, training history, entry point, dtype, layout, near-bound value "
        "as stored, matrix), non-trivial when trained; (e) (estimator tree, training history, re-configuration route, "
        "hyper-parameter and its new value, entry point, matrix), always trained; distinct by hash of the whole tuple")

# ------------------------------------------------------------------ data


EXACT_SCALE = [1.0, 2.0, 0.5, 3.0, 8.0, 0.125]
EXACT_OFF = [0.0, -5.0, 17.0, 0.25, -64.0, -0.5]
FLOAT_SCALE = [0.1, 1e3, 3.7, 1e-3, -2.3]
FLOAT_OFF = [0.3, -1e4, 2.5e2, 0.0, -7.7]


def raw_matrix(r, n=None, d=None, style=None, const_col=False):
    """values k/8, per-column scale/offset, negatives; every column non-constant unless asked"""
    n = n or r.randint(2, 12)
    d = d or r.randint(1, 5)
    style = style or r.choice(["exact", "exact", "float"])
    cols = []
    for j in range(d):
        while True:
            ks = [r.randint(-16, 24) for _ in range(n)]
            if len(set(ks)) > 1:
                break
        if style == "exact":
            s, o = r.choice(EXACT_SCALE), r.choice(EXACT_OFF)
        else:
            s, o = r.choice(FLOAT_SCALE), r.choice(FLOAT_OFF)
        cols.append([(k / 8.0) * s + o for k in ks])
    if const_col:
        j = r.randrange(d)
        cols[j] = [cols[j][0]] * n
    return np.array(cols, dtype=float).T.copy(), style


def unit_matrix(r, n, d, g=8):
    return np.array([[r.randint(0, g) / g for _ in range(d)] for _ in range(n)], dtype=float).reshape(n, d)


def two_valued(r, n, d):
    """each column takes exactly two values (min-max normalisation maps them to 0/1)"""
    cols = []
    for _ in range(d):
        a = r.randint(-20, 20) / 4.0
        b = a + r.randint(1, 12) / 4.0
        c = [r.choice([a, b]) for _ in range(n)]
        c[0], c[1] = a, b
        cols.append(c)
    return np.array(cols, dtype=float).T.copy()


def close(a: float, q: Fraction, exact: bool, scale: float = 1.0) -> bool:
    f = float(q)
    if a == f:
        return True
    if exact:
        return False
    return abs(a - f) <= 1e-12 * (abs(f) + scale)


def parse_optmat(s):
    if s in ("-", ""):
        return []
    return [[None if t == "nf" else Fraction(t) for t in row.split(",")] for row in s.split("|")]


def cmp_mat(A, Q, exact, scale=1.0):
    """implementation float matrix vs model rational matrix (None = non-finite)"""
    A = np.asarray(A, dtype=float)
    if A.ndim != 2 or len(Q) != A.shape[0]:
        return False
    for ra, rq in zip(A, Q):
        if len(ra) != len(rq):
            return False
        for a, q in zip(ra, rq):
            if q is None:
                if math.isfinite(a):
                    return False
            elif not math.isfinite(a) or not close(float(a), q, exact, scale):
                return False
    return True


def cmp_vec(a, qs):
    a = list(np.asarray(a, dtype=float).reshape(-1))
    return len(a) == len(qs) and all(Fraction(float(x)) == q for x, q in zip(a, qs))


# ------------------------------------------------------------------ (a) correspondence


def tie(ctx):
    from artlib.common import utils as U
    from artlib import FuzzyART, HypersphereART, ART1, ART2A
    cov = ctx.cov
    N = ctx.scale(400, 4000)
    lines, metas = [], []

    def add(line, meta):
        lines.append(line)
        metas.append(meta)

    for i in range(N):
        r = gen.rng_for(ctx.seed, "C18-tie", i)
        const = r.random() < 0.08
        X, style = raw_matrix(r, const_col=const)
        n, d = X.shape
        exact = style == "exact"
        scale = float(np.max(np.abs(X))) + 1.0
        rep = {"X": X, "style": style}
        with quiet(), np.errstate(all="ignore"):
            # --- normalize, first call, and BaseART.prepare_data on a fresh module
            Y, mx, mn = U.normalize(X.copy())
            m = HypersphereART(0.5, 0.1, 1.0, 1.0)
            Yb = m.prepare_data(X.copy())
            add("prep norm " + mat_q(X), ("norm", i, exact, dict(rep), (Y, mx, mn, Yb, m.d_max_, m.d_min_)))
            # --- second call re-uses the bounds
            kind2 = r.choice(["sub", "fresh", "outside"])
            if kind2 == "sub":
                X2 = X[sorted(r.sample(range(n), r.randint(1, n)))]
            elif kind2 == "fresh":
                X2 = X[[r.randrange(n) for _ in range(r.randint(1, 6))]] + 0.0
                X2 = X2[:, :] * 1.0
            else:
                X2 = X[: r.randint(1, n)] * 2.0 + 1.0
            before = (np.array(m.d_max_).copy(), np.array(m.d_min_).copy())
            Y2 = m.prepare_data(X2.copy())
            kept = bool(np.array_equal(before[0], m.d_max_) and np.array_equal(before[1], m.d_min_))
            add(f"prep norm2 {mat_q(X)} {mat_q(X2)}", ("norm2", i, exact and kind2 != "outside" or (exact and True),
                                                       dict(rep, X2=X2), (Y2, m.d_max_, m.d_min_, kept)))
            if not const:
                # --- de_normalize on grid data in [0,1]
                Yu = unit_matrix(r, r.randint(1, 6), d)
                Xd = U.de_normalize(Yu.copy(), mx, mn)
                add(f"prep denorm {mat_q(Yu)} {vec_q(mx)} {vec_q(mn)}", ("denorm", i, exact, dict(rep, Y=Yu), (Xd, scale)))
                # --- FuzzyART pair
                f = FuzzyART(0.5, 0.1, 1.0)
                Yf = f.prepare_data(X.copy())
                add("prep prepare fuzzy " + mat_q(X), ("prepare", i, exact, dict(rep), (Yf, f.d_max_, f.d_min_)))
                Rf = f.restore_data(Yf.copy())
                add(f"prep restore fuzzy {mat_q(Yf)} {vec_q(f.d_max_)} {vec_q(f.d_min_)}",
                    ("restore", i, False, dict(rep, Y=Yf), (Rf, scale)))
                Rb = m.restore_data(Yb.copy())
                add(f"prep restore base {mat_q(Yb)} {vec_q(mx)} {vec_q(mn)}", ("restore", i, False, dict(rep, Y=Yb), (Rb, scale)))
                add("prep roundtrip " + r.choice(["base", "fuzzy"]) + " " + mat_q(X), ("roundtrip", i, True, dict(rep), (X,)))
            # --- complement coding
            Xu = unit_matrix(r, r.randint(1, 6), d) if r.random() < 0.7 else X
            C = U.compliment_code(Xu.copy())
            add("prep cc " + mat_q(Xu), ("cc", i, exact or Xu is not X, dict(X=Xu), (C,)))
            Dm = unit_matrix(r, r.randint(1, 5), r.randint(1, 8))
            try:
                D = U.de_compliment_code(Dm.copy())
            except AssertionError:
                D = "assert"
            add("prep decc " + mat_q(Dm), ("decc", i, True, dict(Y=Dm), (D,)))
            add("prep decc " + mat_q(C), ("decc", i, True, dict(Y=C), (U.de_compliment_code(C.copy()),)))
        # --- validate_data
        for _ in range(3):
            cls = r.choice(["base", "fuzzy", "art1", "art2a"])
            dd = r.randint(1, 4)
            nn = r.randint(1, 5)
            alpha = r.choice([0.0, 0.25, 0.5, 0.75, 1.0])
            if cls == "fuzzy":
                V = gen.cc(unit_matrix(r, nn, dd, g=128))
            elif cls == "art1":
                V = gen.binary_rows(r, nn, dd, allow_zero=True)
            else:
                V = unit_matrix(r, nn, dd)
            kind = r.choice(["valid", "valid", "gt1", "lt0", "width", "nonbinary", "notcc", "oddwidth", "sum-inside",
                             "sum-outside", "rows-cancel"])
            V = V.copy()
            a, b = r.randrange(V.shape[0]), r.randrange(V.shape[1])
            if kind == "gt1":
                V[a, b] = r.choice([1.125, 2.0, 1.0 + 2.0 ** -20])
            elif kind == "lt0":
                V[a, b] = r.choice([-0.125, -1.0, -2.0 ** -20])
            elif kind == "nonbinary":
                V[a, b] = r.choice([0.5, 0.25, 2.0, -1.0])
            elif kind == "notcc" and cls == "fuzzy":
                V[a, b] = min(1.0, V[a, b] + 0.25) if V[a, b] <= 0.5 else V[a, b] - 0.25
            elif kind == "oddwidth":
                V = V[:, :-1] if V.shape[1] > 1 and r.random() < 0.5 else np.hstack([V, V[:, :1]])
            elif kind == "sum-inside" and cls == "fuzzy":
                V[a, b] = V[a, b] + 1 / 128 if V[a, b] < 1 else V[a, b] - 1 / 128
            elif kind == "sum-outside" and cls == "fuzzy":
                V[a, b] = V[a, b] + 1 / 64 if V[a, b] < 0.9 else V[a, b] - 1 / 64
            elif kind == "rows-cancel" and cls == "fuzzy" and nn >= 2:
                # complement half joined to the wrong rows: the row sums are off, the sum over the batch is not
                V[:, dd:] = V[::-1, dd:] if r.random() < 0.5 else np.roll(V[:, dd:], 1, axis=0)
                if float(np.max(np.abs(V.sum(axis=1) - dd))) > 0.01:
                    cov.hit("validate:fuzzy:rows-cancel:some-row-off-batch-sum-right")
            w = V.shape[1]
            dim = r.choice([None, None, w, w, w + 1, max(1, w - 1), 2 * w])
            if kind == "width" and dim is None:
                dim = w + r.choice([-1, 1, 2]) if w > 1 else w + 1
            if cls == "base":
                est = HypersphereART(0.5, 0.1, 1.0, 1.0)
            elif cls == "fuzzy":
                est = FuzzyART(0.5, 0.1, 1.0)
            elif cls == "art1":
                est = ART1(0.5, 2.0)
            else:
                est = ART2A(0.5, alpha, 0.5)
            if dim is not None:
                est.dim_ = int(dim)
            try:
                with quiet():
                    est.validate_data(V.copy())
                res = "ok"
            except AssertionError:
                res = "assert"
            after = est.__dict__.get("dim_")
            exp = f"{res} dim={'-' if after is None else int(after)}"
            add(f"prep validate {cls} {q2s(alpha) if cls == 'art2a' else '-'} {'-' if dim is None else dim} {mat_q(V)}",
                ("validate", i, True, {"cls": cls, "alpha": alpha, "dim": dim, "X": V, "kind": kind}, (exp,)))
            cov.hit(f"validate:{cls}:{res}")
    outs = run_driver(lines)
    for line, out, (op, i, exact, rep, exp) in zip(lines, outs, metas):
        rep = dict(rep, line=line, model=out)
        X = rep.get("X")
        nontriv = X is not None and np.asarray(X).shape[0] >= 2 and (np.min(X) < 0 or np.max(np.abs(X)) > 1)
        cov.case((op, line), bool(nontriv))
        cov.traces += 1
        if out == "bad-op":
            ctx.issue("diff", f"prep:{op}:bad-op", f"model could not parse its own op: {line[:120]}", rep)
            continue
        kv = parse_kv(out)
        ok = True
        why = ""
        if op in ("norm", "prepare"):
            if out == "nf":
                ok = False
                why = "model reports constant column on non-constant data"
            else:
                Yq, mxq, mnq = parse_optmat(kv["Y"]), [Fraction(t) for t in kv["dmax"].split(",")], [Fraction(t) for t in kv["dmin"].split(",")]
                if op == "norm":
                    Y, mx, mn, Yb, bmx, bmn = exp
                    ok = (cmp_mat(Y, Yq, exact) and cmp_mat(Yb, Yq, exact) and cmp_vec(mx, mxq) and cmp_vec(mn, mnq)
                          and cmp_vec(bmx, mxq) and cmp_vec(bmn, mnq))
                    if any(q is None for row in Yq for q in row):
                        cov.hit("norm:constant-column-nonfinite")
                else:
                    Yf, fmx, fmn = exp
                    dd = np.asarray(X).shape[1]
                    Yf = np.asarray(Yf)
                    # first half: one correctly rounded division; complement half: a second rounding in `1.0 - y`
                    ok = (Yf.shape[1] == 2 * dd and cmp_mat(Yf[:, :dd], [row[:dd] for row in Yq], exact)
                          and cmp_mat(Yf[:, dd:], [row[dd:] for row in Yq], False)
                          and cmp_vec(fmx, mxq) and cmp_vec(fmn, mnq))
            cov.hit(f"{op}:{'exact' if exact else 'tolerance'}")
        elif op == "norm2":
            Y2, mx2, mn2, kept = exp
            Yq = parse_optmat(kv["Y"])
            ok = (cmp_mat(Y2, Yq, False) and cmp_vec(mx2, [Fraction(t) for t in kv["dmax"].split(",")])
                  and cmp_vec(mn2, [Fraction(t) for t in kv["dmin"].split(",")]) and kv["kept"] == "1" and kept)
            cov.hit("norm2:bounds-kept" if kept else "norm2:bounds-changed")
        elif op in ("denorm", "restore"):
            R, scale = exp
            if out == "assert":
                ok = False
            else:
                ok = cmp_mat(R, parse_optmat(kv["X"]), exact, scale)
        elif op == "roundtrip":
            ok = out.startswith("X=") and parse_optmat(kv["X"]) == [[Fraction(float(v)) for v in row] for row in exp[0]]
            why = "model round trip is not the identity over Q"
        elif op == "cc":
            ok = cmp_mat(exp[0], parse_optmat(kv["Y"]), exact)
        elif op == "decc":
            if isinstance(exp[0], str):
                ok = out == "assert"
                cov.hit("decc:odd-width-assert")
            else:
                ok = out != "assert" and cmp_mat(exp[0], parse_optmat(kv["X"]), True)
        elif op == "validate":
            ok = out == exp[0]
            why = f"impl `{exp[0]}` model `{out}` ({rep['kind']})"
        if not ok:
            ctx.issue("diff", f"prep:{op}", f"case {i}: implementation and model differ on `{line[:100]}` -> `{out[:100]}` {why}", rep)
    ctx.cov.sample({"tie_lines": len(lines), "example": lines[0][:200], "model": outs[0][:200]})


# ------------------------------------------------------------------ estimator trees for (b) / (c)


def base_spec(r, cls, d):
    """spec of an elementary module for RAW dimension d (data width = specs.width(cls, d))"""
    return specs.elem_spec(r, cls, specs.width(cls, d) if cls != "FuzzyART" else d)


def wrap_spec(r, kind, cls, d):
    b = base_spec(r, cls, d)
    if kind == "elem":
        return b
    if kind == "TopoART":
        return {"cls": "TopoART", "base_module": b, "beta_lower": r.choice([b["beta"], b["beta"] / 2]),
                "tau": r.choice([2, 3, 50]), "phi": r.choice([1, 2])}
    if kind == "DualVigilanceART":
        if b["rho"] == 0.0:
            b["rho"] = 0.5
        return {"cls": kind, "base_module": b, "rho_lower_bound": r.choice([0.0, b["rho"] / 2])}
    if kind == "CVIART":
        return {"cls": kind, "base_module": b, "validity": r.choice([1, 2, 3])}
    raise KeyError(kind)


def fusion_spec(r, chans, ds):
    k = len(chans)
    sp = [base_spec(r, c, dd) for c, dd in zip(chans, ds)]
    gam = {1: [1.0], 2: r.choice([[0.5, 0.5], [0.25, 0.75]]), 3: r.choice([[0.5, 0.25, 0.25], [0.25, 0.25, 0.5]])}[k]
    dims = [specs.width(c, dd) for c, dd in zip(chans, ds)]
    return {"cls": "FusionART", "modules": sp, "gamma_values": gam, "channel_dims": dims}


# ------------------------------------------------------------------ (b) round-trip oracle


def approx(R, X):
    R, X = np.asarray(R, dtype=float), np.asarray(X, dtype=float)
    if R.shape != X.shape:
        return False
    s = max(1.0, float(np.max(np.abs(X)))) if X.size else 1.0
    return bool(np.allclose(R, X, rtol=1e-9, atol=1e-9 * s))


def in_unit(P):
    P = np.asarray(P, dtype=float)
    return bool(np.all(np.isfinite(P)) and np.all(P >= 0) and np.all(P <= 1))


def roundtrip(ctx):
    cov = ctx.cov
    N = ctx.scale(40, 300)
    kinds = (["elem:" + c for c in specs.ELEM] + ["ART1-two-valued", "SimpleARTMAP", "ARTMAP", "FusionART", "FusionART-skip",
             "DeepARTMAP", "SMART", "TopoART", "DualVigilanceART", "CVIART", "iCVIFuzzyART", "FALCON", "TD_FALCON"])
    for i in range(N):
        for kind in kinds:
            r = gen.rng_for(ctx.seed, "C18-rt-" + kind, i)
            try:
                _roundtrip_one(ctx, r, kind, i)
            except _Skip as e:
                cov.hit("roundtrip-skip:" + str(e))


class _Skip(BaseException):
    """abandon one generated case (not a verdict); BaseException so that no `except Exception` around an
    estimator call swallows it"""


class _Timeout(BaseException):
    pass


def _roundtrip_one(ctx, r, kind, i):
    cov = ctx.cov
    n = r.randint(2, 12)

    int_dt = r.choice([np.int64, np.int32, np.uint8, np.int16]) if r.random() < 0.25 else None

    def data(d, two=False):
        if two:
            return two_valued(r, n, d)
        A = raw_matrix(r, n, d)[0]
        if int_dt is not None:
            # integer-typed measurements (counts, pixel values, ticks): finite data with non-constant columns all the same
            span = float(np.max(np.abs(A))) or 1.0
            B = np.round((A - A.min()) / (2 * span) * r.choice([49, 100, 255])).astype(int_dt)
            if all(len(set(B[:, j].tolist())) >= 2 for j in range(B.shape[1])):
                cov.hit(f"integer-typed-data:{np.dtype(int_dt).name}")
                return B
        return A

    def fail(cond, what, rep):
        name = kind.split(":")[-1] if kind.startswith("elem:") else kind
        if kind == "elem:ART1" and cond == "rejected-by-own-validate":
            cond = "column-with-more-than-two-values:rejected-by-own-validate"
        ctx.issue("violation", f"{name}.prepare_data:{cond}", what, rep)

    rows = sorted(r.sample(range(n), r.randint(1, n)))
    sub = lambda A: np.asarray(A)[rows]
    # Each branch defines: est, args (tuple of raw inputs), prep(args)->P, mats(P)->list of matrices,
    # restore(P)->list of matrices comparable with raws(args), validate(P), subargs
    other = [c for c in specs.ELEM if c != "ART1"]
    with quiet(), np.errstate(all="ignore"):
        if kind.startswith("elem:") or kind == "ART1-two-valued":
            cls = "ART1" if kind == "ART1-two-valued" else kind[5:]
            d = r.randint(1, 5)
            est = make(base_spec(r, cls, d))
            args = (data(d, two=(kind == "ART1-two-valued")),)
            prep = lambda a: est.prepare_data(a[0].copy())
            mats = lambda P: [P]
            restore = lambda P: [est.restore_data(P)]
            validate = lambda P: est.validate_data(P)
            fuzzy = [cls == "FuzzyART"]
        elif kind in ("TopoART", "DualVigilanceART", "CVIART"):
            cls = r.choice(specs.HAS_BETA if kind == "TopoART" else other)
            d = r.randint(1, 4)
            est = make(wrap_spec(r, kind, cls, d))
            args = (data(d),)
            prep = lambda a: est.prepare_data(a[0].copy())
            mats = lambda P: [P]
            restore = lambda P: [est.restore_data(P)]

            def validate(P):
                est.validate_data(P)
                est.base_module.validate_data(P)
            fuzzy = [cls == "FuzzyART"]
        elif kind == "iCVIFuzzyART":
            d = r.randint(1, 4)
            est = make({"cls": "iCVIFuzzyART", **gen.fuzzy_params(r), "validity": 1, "offline": r.random() < 0.5})
            args = (data(d),)
            prep = lambda a: est.prepare_data(a[0].copy())
            mats = lambda P: [P]
            restore = lambda P: [est.restore_data(P)]
            validate = lambda P: est.validate_data(P)
            fuzzy = [True]
        elif kind == "SimpleARTMAP":
            cls = r.choice(other)
            d = r.randint(1, 4)
            est = make({"cls": "SimpleARTMAP", "module_a": base_spec(r, cls, d)})
            y = np.array([r.randrange(3) for _ in range(n)])
            args = (data(d),)
            prep = lambda a: est.prepare_data(a[0].copy())
            mats = lambda P: [P]
            restore = lambda P: [est.restore_data(P)]
            validate = lambda P: est.validate_data(P, y[: len(P)])
            fuzzy = [cls == "FuzzyART"]
        elif kind == "ARTMAP":
            ca, cb = r.choice(other), r.choice(other)
            da, db = r.randint(1, 4), r.randint(1, 3)
            est = make({"cls": "ARTMAP", "module_a": base_spec(r, ca, da), "module_b": base_spec(r, cb, db)})
            args = (data(da), data(db))
            prep = lambda a: est.prepare_data(a[0].copy(), a[1].copy())
            mats = lambda P: list(P)
            restore = lambda P: list(est.restore_data(P[0], P[1]))
            validate = lambda P: est.validate_data(P[0], P[1])
            fuzzy = [ca == "FuzzyART", cb == "FuzzyART"]
        elif kind in ("FusionART", "FusionART-skip"):
            k = r.randint(2, 3)
            chans = [r.choice(other) for _ in range(k)]
            ds = [r.randint(1, 3) for _ in range(k)]
            est = make(fusion_spec(r, chans, ds))
            skip = []
            if kind == "FusionART-skip":
                s0 = r.randrange(k)
                skip = [s0 - k] if r.random() < 0.3 else [s0]
            sk = [s % k for s in skip]
            args = tuple(data(dd) for dd in ds)
            prep = lambda a: est.prepare_data([t.copy() for t in a], skip_channels=list(skip))
            mats = lambda P: [P]
            restore = lambda P: list(est.restore_data(P, skip_channels=list(skip)))
            validate = lambda P: est.validate_data(P)
            fuzzy = None
            keep = [j for j in range(k) if j not in sk]
        elif kind == "DeepARTMAP":
            k = r.randint(2, 3)
            chans = [r.choice(other) for _ in range(k)]
            ds = [r.randint(1, 3) for _ in range(k)]
            est = make({"cls": "DeepARTMAP", "modules": [base_spec(r, c, dd) for c, dd in zip(chans, ds)]})
            args = tuple(data(dd) for dd in ds)
            prep = lambda a: est.prepare_data([t.copy() for t in a])
            mats = lambda P: list(P[0])
            restore = lambda P: list(est.restore_data(P[0])[0])

            def validate(P):
                est.validate_data(P[0])
                for mod, p in zip(est.modules, P[0]):
                    mod.validate_data(p)
            fuzzy = [c == "FuzzyART" for c in chans]
        elif kind == "SMART":
            cls = r.choice(["FuzzyART", "HypersphereART", "ART2A", "GaussianART", "BayesianART"])
            d = r.randint(1, 4)
            b = base_spec(r, cls, d)
            rhos = [0.5, 0.25, 0.0625] if cls == "BayesianART" else [0.25, 0.5, 0.75]
            bp = {k_: v for k_, v in b.items() if k_ not in ("cls", "rho")}
            if cls in ("GaussianART",):
                bp["sigma_init"] = np.array(bp["sigma_init"], dtype=float)
            if cls == "BayesianART":
                bp["cov_init"] = np.array(bp["cov_init"], dtype=float)
            est = make({"cls": "SMART", "base": cls, "rho_values": rhos, "base_params": bp})
            args = (data(d),)
            prep = lambda a: est.prepare_data(a[0].copy())
            mats = lambda P: [P]
            restore = lambda P: [est.restore_data(P)]

            def validate(P):
                est.validate_data([P] * est.n_modules)
                for mod in est.modules:
                    mod.validate_data(P)
            fuzzy = [cls == "FuzzyART"]
        elif kind in ("FALCON", "TD_FALCON"):
            chans = [r.choice(["FuzzyART", "FuzzyART", "HypersphereART"]) for _ in range(3)]
            ds = [r.randint(1, 3), r.randint(1, 2), 1]
            sp = [base_spec(r, c, dd) for c, dd in zip(chans, ds)]
            dims = [specs.width(c, dd) for c, dd in zip(chans, ds)]
            kw = {"cls": kind, "state_art": sp[0], "action_art": sp[1], "reward_art": sp[2],
                  "gamma_values": [0.25, 0.25, 0.5], "channel_dims": dims}
            est = make(kw)
            args = tuple(data(dd) for dd in ds)
            prep = lambda a: est.prepare_data(a[0].copy(), a[1].copy(), a[2].copy())
            mats = lambda P: list(P)
            restore = lambda P: list(est.restore_data(P[0], P[1], P[2]))
            validate = lambda P: est.fusion_art.validate_data(est.fusion_art.join_channel_data(list(P)))
            fuzzy = [c == "FuzzyART" for c in chans]
        else:
            raise KeyError(kind)
        rep = {"kind": kind, "spec": getattr(est, "params", None) and str(type(est).__name__), "args": [a for a in args], "rows": rows}
        key = (kind, [a.tolist() for a in args])
        cov.case(key, True)
        # 1. prepare
        try:
            P = prep(args)
        except Exception as e:
            fail("raised:" + exc_enum(e), f"prepare_data raised {e!r} on finite non-constant data", rep)
            return
        M = mats(P)
        # 2. range, width
        if not all(in_unit(t) for t in M):
            fail("out-of-unit", f"prepared values outside [0,1]: min {min(float(np.min(t)) for t in M)} max {max(float(np.max(t)) for t in M)}", rep)
            return
        if fuzzy is not None:
            for t, a, fz in zip(M, args, fuzzy):
                if np.asarray(t).shape[1] != (2 if fz else 1) * a.shape[1]:
                    fail("width", f"prepared width {np.asarray(t).shape[1]} for raw width {a.shape[1]} (fuzzy={fz})", rep)
        # 3. round trip
        try:
            R = restore(P)
        except Exception as e:
            if kind == "FusionART-skip" and sk[0] != k - 1:
                ctx.issue("violation", "FusionART.restore_data:skipped-channel-not-last:raised",
                          f"restore_data(prepare_data(X, skip_channels={skip}), skip_channels={skip}) raised {e!r} "
                          f"({k} channels)", rep)
                return
            fail("restore-raised:" + exc_enum(e), f"restore_data raised {e!r}", rep)
            return
        raws = list(args) if fuzzy is not None else [args[j] for j in keep]
        if len(R) != len(raws) or not all(approx(a, b) for a, b in zip(R, raws)):
            fail("roundtrip", "restore_data(prepare_data(X)) differs from X beyond 1e-9", dict(rep, restored=R))
        # 4. own validation accepts
        try:
            validate(P)
            cov.hit("self-validate-ok")
        except Exception as e:
            fail("rejected-by-own-validate", f"the estimator's own validate_data rejects its prepare_data output: {exc_enum(e)} {e!r}"[:300], rep)
        # 5. second call on a sub-range uses the same affine map
        try:
            P2 = prep(tuple(sub(a) for a in args))
        except Exception as e:
            fail("second-call-raised:" + exc_enum(e), f"second prepare_data raised {e!r}", rep)
            return
        M2 = mats(P2)
        if not all(np.array_equal(np.asarray(t)[rows], u) for t, u in zip(M, M2)):
            fail("bounds-not-reused", "second prepare_data call on a sub-range of the first data is not the same affine map", rep)
        else:
            cov.hit("bounds-reused")
        # 6. a later call on data partly OUTSIDE the first call's bounds: still the first call's affine map (values
        #    leave [0,1] and validation will reject them, but nothing is clipped) and restore_data still inverts it
        if fuzzy is not None or kind == "FusionART":
            outs = tuple(a + (a.max(axis=0) - a.min(axis=0)) * np.array([[(-1.0) ** (i_ + j_) * 0.5 * ((i_ + j_) % 3) for j_ in range(a.shape[1])]
                                                                         for i_ in range(a.shape[0])]) for a in args)
            if all(np.asarray(a).dtype.kind in "iu" for a in args):
                # a later batch of the SAME integer dtype as the first (unsigned pixel values below the first minimum …)
                outs = tuple(np.clip(np.round(o), np.iinfo(a.dtype).min, np.iinfo(a.dtype).max).astype(a.dtype) for o, a in zip(outs, args))
                cov.hit("later-call-outside-bounds:integer-typed")
            try:
                P3 = prep(outs)
                R3 = restore(P3)
            except Exception as e:
                cov.hit("later-call-outside-bounds:raised:" + exc_enum(e))
                cov.traces += 1
                return
            M3 = mats(P3)
            okmap = True
            for t, a, o3, fz in (zip(M3, args, outs, fuzzy) if fuzzy is not None else []):
                mn, mx = a.min(axis=0), a.max(axis=0)
                want = (np.asarray(o3, dtype=float) - mn) / (np.asarray(mx, dtype=float) - mn)
                got = np.asarray(t, dtype=float)[:, : a.shape[1]]
                if got.shape != want.shape or not np.allclose(got, want, rtol=1e-9, atol=1e-9):
                    okmap = False
            if not okmap:
                fail("later-call-outside-bounds:not-the-first-call's-map",
                     "a later prepare_data call on data outside the first call's column bounds is not (x - min1) / (max1 - min1)",
                     dict(rep, later=[o.tolist() for o in outs]))
            elif len(R3) != len(outs) or not all(approx(a, b) for a, b in zip(R3, outs)):
                fail("later-call-outside-bounds:roundtrip", "restore_data(prepare_data(X)) differs from X for a later batch outside "
                     "the first call's bounds", dict(rep, later=[o.tolist() for o in outs]))
            else:
                cov.hit("later-call-outside-bounds:ok")
        cov.traces += 1


# ------------------------------------------------------------------ (c) rejection atomicity

CLUSTERERS = specs.ELEM + ["FusionART", "DualVigilanceART", "TopoART", "CVIART", "iCVIFuzzyART"]
ENTRIES = ["fit", "partial_fit", "predict"]


def extra_snapshot(est, depth=0):
    """what `full_snapshot` does not name: which attributes exist, `data`, `dim_original`"""
    d = getattr(est, "__dict__", {})
    out = {"attrs": sorted(k for k in d.keys())}
    if "data" in d:
        out["data"] = None if d["data"] is None else np.array(d["data"], dtype=float).copy()
    if "dim_original" in d:
        out["dim_original"] = int(d["dim_original"])
    for name in ("base_module", "fusion_art"):
        if name in d and depth < 4:
            out[name] = extra_snapshot(d[name], depth + 1)
    if "modules" in d and depth < 4:
        out["modules"] = [extra_snapshot(m, depth + 1) for m in d["modules"]]
    return out


def snap(est):
    return {"full": full_snapshot(est), "extra": extra_snapshot(est)}


def diff_paths(a, b, path=""):
    """paths (list indices as *) where two snapshots differ"""
    if isinstance(a, dict) and isinstance(b, dict):
        out = set()
        for k in sorted(set(a) | set(b), key=str):
            if k not in a or k not in b:
                out.add(f"{path}.{k}".lstrip("."))
            else:
                out |= diff_paths(a[k], b[k], f"{path}.{k}".lstrip("."))
        return out
    if isinstance(a, (list, tuple)) and isinstance(b, (list, tuple)) and len(a) == len(b) and a and \
            isinstance(a[0], (dict, list)):
        out = set()
        for x, y in zip(a, b):
            out |= diff_paths(x, y, path + ".*")
        return out
    return set() if eq_snap(a, b) else {path}


def norm_paths(changed):
    """drop the redundant 'an attribute appeared' entries and the snapshot prefixes"""
    out = set()
    for p in changed:
        q = p.split(".", 1)[1] if p.split(".", 1)[0] in ("full", "extra") and "." in p else p
        out.add(q)
    real = {q for q in out if not (q == "attrs" or q.endswith(".attrs"))}
    return real or out


def classify(kind, entry, mk_sig, chan_tag, mcls, raised, changed):
    """stable signature: class + entry point + triggering condition + what went wrong.
    Failures with one root cause share one signature; anything else keeps the generic, fully specific form."""
    ch = norm_paths(changed)
    if kind == "CVIART":
        # regression guards (C18-d..g, fixed in /repo c39976e, 27829fb): CVIART.fit stored X before validating;
        # partial_fit / predict were BaseART's and validated the wrapper,
        # not the base module
        if entry == "fit" and raised == "assert" and ch == {"data"}:
            return "CVIART.fit:rejected:state-changed:data"
        if entry == "partial_fit" and raised == "notimpl" and ch:
            return "CVIART.partial_fit:notimpl-after-mutation:state-changed"
        if entry == "predict" and raised is None and mk_sig in ("notcc", "nonbinary", "width", "oddwidth"):
            return "CVIART.predict:invalid-for-base-module:accepted"
        if entry == "predict" and raised is not None and ch == {"dim_"} and mk_sig in ("notcc", "nonbinary", "width", "oddwidth"):
            return "CVIART.predict:invalid-for-base-module:state-changed:dim_"
    if kind == "FusionART" and chan_tag == "later-channel" and raised == "assert" and ch and \
            ch <= {"modules.*.dim_", "modules.*.dim_original"}:
        return f"FusionART.{entry}:invalid@later-channel:state-changed:modules.*.dim_"
    tag = f"{kind}.{entry}:{mk_sig}" + (f"@{chan_tag}" if chan_tag else "") + (
        f"[{mcls}]" if kind not in specs.ELEM and kind != "iCVIFuzzyART" else "")
    if raised is None:
        return f"{tag}:accepted"
    return f"{tag}:state-changed:{','.join(sorted(ch))}"


def valid_data(r, kind, cls, n, d, chans=None, ds=None):
    if kind == "FusionART":
        return np.hstack([specs.elem_data(r, c, n, dd) for c, dd in zip(chans, ds)])
    return specs.elem_data(r, cls, n, d)


def malform(r, Xv, mk, col_lo, col_hi, cls):
    """damage a valid matrix inside columns [col_lo, col_hi) (the part one module of class `cls` sees)"""
    X = Xv.copy()
    a = r.randrange(X.shape[0])
    b = r.randrange(col_lo, col_hi)
    if mk == "gt1":
        X[a, b] = r.choice([1.5, 2.0, 1.0 + 2.0 ** -10])
    elif mk == "lt0":
        X[a, b] = r.choice([-0.25, -1.0, -2.0 ** -10])
    elif mk == "nan":
        X[a, b] = float("nan")
    elif mk == "nonbinary":
        X[a, b] = r.choice([0.5, 0.25])
    elif mk == "notcc":
        X[a, b] = X[a, b] + 0.25 if X[a, b] <= 0.5 else X[a, b] - 0.25
    elif mk == "width+":
        X = np.hstack([X, X[:, col_lo:col_lo + 1]])
    elif mk == "width-":
        X = np.delete(X, b, axis=1)
    elif mk == "width+cc":
        # one more raw feature, still complement coded: isolates the width test
        w = col_hi - col_lo
        raw = X[:, col_lo:col_lo + w // 2]
        extra = X[:, col_lo:col_lo + 1]
        blk = np.hstack([raw, extra, 1 - raw, 1 - extra])
        X = np.hstack([X[:, :col_lo], blk, X[:, col_hi:]])
    elif mk == "ccrows":
        # the complement half joined to the wrong rows (reversed / rotated / shuffled row order): every entry in range,
        # width right, every COLUMN sum and the sum over the batch right, the rows not complement coded
        n, w2 = X.shape[0], (col_hi - col_lo) // 2
        how = r.choice(["reverse", "rotate", "shuffle"])
        if how == "reverse":
            perm = list(range(n))[::-1]
        elif how == "rotate":
            k = r.randint(1, n - 1)
            perm = [(t + k) % n for t in range(n)]
        else:
            perm = list(range(n))
            r.shuffle(perm)
        X[:, col_lo + w2:col_hi] = 1.0 - X[perm, col_lo:col_lo + w2]
    elif mk == "cccancel":
        # row-wise errors of opposite sign: +delta in one entry of some rows, -delta in one entry of as many other
        # rows (all entries stay in [0,1]); the sum over the batch is the one of a complement coded matrix
        n = X.shape[0]
        rows_ = list(range(n))
        r.shuffle(rows_)
        delta = r.choice([0.5, 0.25, 0.125, 0.0625])
        for t in range(r.randint(1, n // 2)):
            up, dn = rows_[2 * t], rows_[2 * t + 1]
            bu = r.choice([c for c in range(col_lo, col_hi) if X[up, c] + delta <= 1.0])
            bd = r.choice([c for c in range(col_lo, col_hi) if X[dn, c] - delta >= 0.0])
            X[up, bu] += delta
            X[dn, bd] -= delta
    return X


ROWWISE = ("ccrows", "cccancel")


def rowwise_cancelling(r, make_valid, lo, hi, mk, cls):
    """a matrix that is in range and of the right width, whose rows are NOT complement coded in columns [lo, hi)
    (some row sum is off by >= 1/16, far beyond the 0.01 the validation tolerates) although the deviations cancel
    over the batch; None when the generated valid rows are all alike"""
    for _ in range(12):
        Xv = make_valid(r.randint(2, 6))
        Xb = malform(r, Xv, mk, lo, hi, cls)
        blk = Xb[:, lo:hi]
        dev = blk.sum(axis=1) - (hi - lo) / 2.0
        if float(np.max(np.abs(dev))) >= 1 / 16 and abs(float(dev.sum())) <= 1e-9 and in_unit(Xb) and Xb.shape == Xv.shape:
            return Xb
    return None


def kinds_for(cls, trained):
    ks = ["gt1", "lt0", "nan"]
    if cls == "ART1":
        ks = ["gt1", "lt0", "nan", "nonbinary"]
    if cls == "FuzzyART":
        ks += ["notcc", "oddwidth+", "oddwidth-"]
    if trained:
        ks += ["width+", "width-"] if cls != "FuzzyART" else ["width+cc"]
    if cls == "FuzzyART":
        ks += list(ROWWISE)       # last: the random stream of the kinds above is the one it always was
    return ks


def rejection(ctx):
    cov = ctx.cov
    N = ctx.scale(30, 250)
    for i in range(N):
        for kind in CLUSTERERS:
            r = gen.rng_for(ctx.seed, "C18-rej-" + kind, i)
            try:
                _rejection_one(ctx, r, kind, i)
            except _Skip as e:
                cov.hit("rejection-skip:" + str(e))
    # fresh estimators whose hyper-parameters fix the width
    for i in range(ctx.scale(6, 40)):
        r = gen.rng_for(ctx.seed, "C18-rej-paramwidth", i)
        try:
            _param_width(ctx, r)
        except _Skip as e:
            cov.hit("rejection-skip:" + str(e))


def _build(r, kind):
    """returns (spec, cls of the damaged module, d, chans, ds)"""
    if kind in specs.ELEM:
        d = r.randint(1, 4)
        return base_spec(r, kind, d), kind, d, None, None
    if kind == "iCVIFuzzyART":
        d = r.randint(1, 3)
        return {"cls": kind, **gen.fuzzy_params(r), "validity": 1, "offline": True}, "FuzzyART", d, None, None
    if kind == "FusionART":
        k = r.randint(2, 3)
        chans = [r.choice(["FuzzyART", "FuzzyART", "ART2A", "HypersphereART", "ART1"]) for _ in range(k)]
        ds = [r.randint(1, 2) for _ in range(k)]
        return fusion_spec(r, chans, ds), None, None, chans, ds
    cls = r.choice(["FuzzyART", "FuzzyART", "HypersphereART", "ART2A"] if kind == "TopoART" else
                   ["FuzzyART", "FuzzyART", "HypersphereART", "ART1", "ART2A", "GaussianART"])
    d = r.randint(1, 3)
    return wrap_spec(r, kind, cls, d), cls, d, None, None


def _call(est, entry, X, limit=4.0):
    """one estimator call, with a watchdog: an endless search loop on some (valid) inputs is a defect of
    other properties (C04); here it only means the case is abandoned"""
    def on_alarm(signum, frame):
        raise _Timeout()
    old = signal.signal(signal.SIGALRM, on_alarm)
    signal.setitimer(signal.ITIMER_REAL, limit)
    try:
        with quiet(), np.errstate(all="ignore"):
            return getattr(est, entry)(X)
    except _Timeout:
        raise _Skip(f"timeout:{type(est).__name__}.{entry}")
    finally:
        signal.setitimer(signal.ITIMER_REAL, 0)
        signal.signal(signal.SIGALRM, old)


def _rejection_one(ctx, r, kind, i):
    cov = ctx.cov
    spec, cls, d, chans, ds = _build(r, kind)
    est = make(spec)
    # ---- a random valid history
    steps = r.randint(0, 3)
    hist = []
    trained = False
    for _ in range(steps):
        n = r.randint(1, 8)
        Xv = valid_data(r, kind, cls, n, d, chans, ds)
        ops = ["fit"] if kind in ("CVIART", "iCVIFuzzyART") else ["fit", "partial_fit", "partial_fit"]
        if trained:
            ops.append("predict")
        op = r.choice(ops)
        if kind in ("CVIART",) and n < 3:
            Xv = valid_data(r, kind, cls, 4, d, chans, ds)
        try:
            _call(est, op, Xv)
        except Exception as e:   # training trouble on valid data belongs to C04, not here
            raise _Skip(f"valid-{op}-raised:{kind}:{exc_enum(e)}")
        hist.append((op, Xv))
        trained = True
    # ---- every malformed kind x every entry point at this point of the history
    if kind == "FusionART":
        k = r.randrange(len(chans))
        mcls = chans[k]
        idx = est._channel_indices[k]
        lo, hi = int(idx[0]), int(idx[1])
        chan_tag = "first-channel" if k == 0 else "later-channel"
    else:
        mcls, lo, hi, chan_tag = cls, 0, specs.width(cls, d), None
    for mk in kinds_for(mcls, trained):
        n = r.randint(1, 5)
        Xv = valid_data(r, kind, cls, n, d, chans, ds)
        if mk in ROWWISE:
            Xb = rowwise_cancelling(r, lambda n_: valid_data(r, kind, cls, n_, d, chans, ds), lo, hi, mk, mcls)
            if Xb is None:
                cov.hit(f"rejection-skip:{mk}:all-rows-alike")
                continue
            cov.hit(f"malformed:{mk}:row-sums-off-batch-sum-right:{'trained' if trained else 'fresh'}")
        elif mk == "oddwidth+":
            Xb = malform(r, Xv, "width+", lo, hi, mcls)
        elif mk == "oddwidth-":
            Xb = malform(r, Xv, "width-", lo, hi, mcls)
        else:
            Xb = malform(r, Xv, mk, lo, hi, mcls)
        mk_sig = mk.rstrip("+-").replace("+cc", "")
        for entry in ENTRIES:
            before = snap(est)
            raised = None
            try:
                _call(est, entry, Xb.copy())
            except Exception as e:
                raised = exc_enum(e)
            after = snap(est)
            key = (kind, spec, [(o, x.tolist()) for o, x in hist], entry, mk, np.where(np.isnan(Xb), -99.0, Xb).tolist())
            cov.case(key, trained)
            cov.hit(f"reject:{mk_sig}:{entry}:{'trained' if trained else 'fresh'}")
            rep = {"estimator": kind, "spec": spec, "history": [(o, x) for o, x in hist], "entry": entry,
                   "malformed": mk, "module_class": mcls, "X": Xb, "raised": raised}
            changed = diff_paths(before, after)
            sig = classify(kind, entry, mk_sig, chan_tag, mcls, raised, changed)
            if raised is None:
                ctx.issue("violation", sig,
                          f"{kind}.{entry} accepted a matrix that is {mk} for its {mcls} module "
                          f"({'trained' if trained else 'fresh'} estimator); state paths changed: {sorted(changed)}", rep)
                # the call was let through: state is whatever the body made of it; restore a comparable estimator
                est = _rebuild(spec, hist)
                if est is None:
                    raise _Skip("rebuild-failed")
                continue
            if changed:
                ctx.issue("violation", sig,
                          f"{kind}.{entry} raised {raised} on a {mk} matrix but the estimator changed at {sorted(changed)} "
                          f"({'trained' if trained else 'fresh'} estimator)", rep)
                est = _rebuild(spec, hist)
                if est is None:
                    raise _Skip("rebuild-failed")
            else:
                cov.hit("rejected-atomically")
    # ---- later behaviour: the estimator that saw the rejected calls behaves like a pristine twin
    twin = _rebuild(spec, hist)
    if twin is None:
        raise _Skip("rebuild-failed")
    n = r.randint(3, 6)
    Xv = valid_data(r, kind, cls, n, d, chans, ds)
    res = []
    for e_ in (est, twin):
        try:
            _call(e_, "fit", Xv.copy())
            res.append(("ok", full_snapshot(e_)))
        except Exception as e:
            res.append((exc_enum(e), None))
    if res[0][0] != res[1][0] or (res[0][1] is not None and not eq_snap(res[0][1], res[1][1])):
        ctx.issue("violation", f"{kind}:after-rejections:behaviour-differs",
                  f"after rejected calls a later valid fit gives {res[0][0]} but {res[1][0]} on a twin that never saw them",
                  {"estimator": kind, "spec": spec, "history": hist, "X": Xv})
    cov.traces += 1


def _rebuild(spec, hist):
    est = make(spec)
    try:
        for op, Xv in hist:
            _call(est, op, Xv.copy())
    except Exception:
        return None
    return est


def _param_width(ctx, r):
    """fresh ART2A / BayesianART / FusionART: the hyper-parameters fix which widths are acceptable"""
    cov = ctx.cov
    for which in ("ART2A", "BayesianART", "FusionART"):
        _param_width_one(ctx, r, which)


def _param_width_one(ctx, r, which):
    cov = ctx.cov
    n = r.randint(2, 5)
    if which == "ART2A":
        alpha = r.choice([0.75, 0.625, 1.0])
        w = r.choice([3, 4, 5])             # alpha > 1/sqrt(w) for all of these
        spec = {"cls": "ART2A", "rho": 0.5, "alpha": alpha, "beta": 0.5}
        Xb = gen.grid_rows(r, n, w)
        Xgood = gen.grid_rows(r, n, 1)
    elif which == "BayesianART":
        d = r.randint(1, 3)
        spec = {"cls": "BayesianART", "rho": 0.0625, "cov_init": (np.eye(d) * 0.25).tolist()}
        Xb = gen.grid_rows(r, n, d + r.choice([1, 2]))
        Xgood = gen.grid_rows(r, n, d)
    else:
        spec = fusion_spec(r, ["FuzzyART", "HypersphereART"], [1, 2])
        Xb = gen.grid_rows(r, n, 5)
        Xgood = np.hstack([gen.cc(gen.grid_rows(r, n, 1)), gen.grid_rows(r, n, 2)])
    for entry in ("fit", "partial_fit"):
        est = make(spec)
        before = snap(est)
        raised = None
        try:
            _call(est, entry, Xb.copy())
        except Exception as e:
            raised = exc_enum(e)
        after = snap(est)
        changed = diff_paths(before, after)
        rep = {"estimator": which, "spec": spec, "entry": entry, "X": Xb, "raised": raised, "X_good": Xgood}
        cov.case((which, spec, entry, Xb.tolist()), False)
        cov.hit(f"reject:param-width:{entry}:fresh")
        if raised is None:
            ctx.issue("violation", f"{which}.{entry}:param-width:accepted",
                      f"fresh {which} accepted data of width {Xb.shape[1]} that its hyper-parameters exclude", rep)
            continue
        if changed:
            # does the left-over state change later behaviour?
            twin = make(spec)
            out = []
            for e_ in (est, twin):
                try:
                    _call(e_, entry, Xgood.copy())
                    out.append("ok")
                except Exception as e:
                    out.append(exc_enum(e))
            try:
                _call(est, entry, Xb.copy())
                again = "ok"
            except Exception as e:
                again = exc_enum(e)
            ctx.issue("violation", f"{which}.{entry}:param-width:state-changed:{','.join(sorted(norm_paths(changed)))}",
                      f"fresh {which}.{entry} raised {raised} on width {Xb.shape[1]} but kept {sorted(changed)}; afterwards "
                      f"acceptable data gives {out[0]} (pristine twin: {out[1]}), the rejected data again gives {again}", rep)
        else:
            cov.hit("rejected-atomically")


def extreme_scales(ctx):
    """columns whose magnitudes differ by many orders (a nanosecond timestamp next to a temperature): every column is
    still mapped to [0,1] by its OWN bounds, validation accepts the result, a later row uses the first call's bounds
    and the round trip holds to the relative precision of each column"""
    from artlib.common.utils import normalize, de_normalize
    cov = ctx.cov
    for i in range(ctx.scale(24, 300)):
        r = gen.rng_for(ctx.seed, "C18/scales", i)
        n = r.randint(3, 9)
        big = 10.0 ** r.choice([12, 15, 18])
        cols = [np.array([big + 1e6 * r.randint(0, 1000) * 1.0 for _ in range(n)]),
                np.array([15.0 + r.randint(0, 60) / 4 for _ in range(n)])]
        if r.random() < 0.5:
            cols.append(np.array([-1e-3 * r.randint(1, 999) for _ in range(n)]))
        for c_ in cols:          # make every column non-constant
            if c_.max() == c_.min():
                c_[0] += abs(c_[0]) * 1e-3 + 1.0
        order = list(range(len(cols)))
        r.shuffle(order)
        X = np.column_stack([cols[j] for j in order])
        rep = {"X": X.tolist()}
        mn, mx = X.min(axis=0), X.max(axis=0)
        want = (X - mn) / (mx - mn)
        tolc = 1e-9 * np.maximum(np.abs(mx), np.abs(mn))
        try:
            N, d_max, d_min = normalize(X.copy())
            back = de_normalize(N, d_max, d_min)
            if not np.allclose(N, want, rtol=1e-9, atol=1e-12):
                ctx.issue("violation", "utils.normalize:columns-of-different-magnitude", f"normalize(X) is not (x - min)/(max - min) per column: max {float(np.max(N))}", rep)
            elif not np.all(np.abs(back - X) <= tolc):
                ctx.issue("violation", "utils.de_normalize:columns-of-different-magnitude", "de_normalize(normalize(X)) != X beyond each column's relative precision", rep)
        except Exception as e:
            ctx.issue("violation", f"utils.normalize:columns-of-different-magnitude:{exc_enum(e)}", repr(e), rep)
        for cls in ("FuzzyART", "HypersphereART"):
            est = make(base_spec(r, cls, X.shape[1]))
            try:
                with quiet():
                    P = est.prepare_data(X.copy())
                    est.validate_data(P)
                    P1 = est.prepare_data(X[:1].copy())
                    R = est.restore_data(P)
                head = np.asarray(P, dtype=float)[:, : X.shape[1]]
                if not np.allclose(head, want, rtol=1e-9, atol=1e-12):
                    ctx.issue("violation", f"{cls}.prepare_data:columns-of-different-magnitude", "prepared values are not (x - min)/(max - min) per column", rep)
                elif not np.array_equal(np.asarray(P1, dtype=float), np.asarray(P, dtype=float)[:1]):
                    ctx.issue("violation", f"{cls}.prepare_data:columns-of-different-magnitude:later-row", "a later single row is not mapped with the first call's bounds", rep)
                elif not np.all(np.abs(np.asarray(R, dtype=float) - X) <= tolc):
                    ctx.issue("violation", f"{cls}.restore_data:columns-of-different-magnitude", "restore_data(prepare_data(X)) != X beyond each column's relative precision", rep)
                cov.hit("extreme-scales-ok")
            except Exception as e:
                ctx.issue("violation", f"{cls}.prepare_data:columns-of-different-magnitude:{exc_enum(e)}",
                          f"prepare / validate / restore raised {e!r}"[:300], rep)
        cov.case(("scales", rep["X"]), True)



# ------------------------------------------------------------------ (d) out of range by less than the resolution

NB_DTYPES = (np.float64, np.float32, np.float16)
NB_LAYOUTS = ("C", "C", "F", "strided")


def near_bound_sources(r, dt):
    """(label, float64 source value) around the two bounds for a matrix of dtype `dt`: first list = negative values of
    magnitude below the resolution of `dt` at 1/2 that `dt` represents (all out of range); second list = a mixed pool
    (rounding residues of double arithmetic, 1 + fractions of an ulp, in-range neighbours of the bounds).  What counts
    is the value STORED in the matrix: a source may round onto the bound itself when stored (1 + eps/2 -> 1.0, a
    negative double below the subnormal range of float16 / float32 -> -0.0) and is then IN range."""
    fi = np.finfo(dt)
    eps, sub, tiny = float(fi.eps), float(fi.smallest_subnormal), float(fi.tiny)
    kmin, kmax = int(round(-math.log2(eps))) + 2, int(round(-math.log2(sub)))
    neg = [("-smallest-subnormal", -sub), ("-smallest-normal", -tiny), ("-eps/4", -eps / 4), ("-eps/8", -eps / 8),
           ("-2^-k", -2.0 ** -r.randint(kmin, kmax)), ("-2^-k", -2.0 ** -r.randint(kmin, kmin + 12)),
           ("-u*eps/4", -(0.5 + r.random() / 2) * eps / 4)]
    mixed = neg + [("-eps/2", -eps / 2), ("-eps", -eps),
                   ("double-residue:0.3-(0.1+0.2)", 0.3 - (0.1 + 0.2)), ("double:-5e-324", -5e-324),
                   ("double:-2^-54", -2.0 ** -54), ("double:-2^-53", -2.0 ** -53), ("double:-1e-17", -1e-17),
                   ("1+eps", 1.0 + eps), ("1+eps/2", 1.0 + eps / 2), ("1+3eps/4", 1.0 + 0.75 * eps),
                   ("1+3eps/2", 1.0 + 1.5 * eps), ("double:1+2^-53", 1.0 + 2.0 ** -53), ("double:1+2^-52", 1.0 + 2.0 ** -52),
                   ("double-residue:(0.1+0.2)/0.3", (0.1 + 0.2) / 0.3),
                   ("-0.0", -0.0), ("+smallest-subnormal", sub), ("1-eps/2", 1.0 - eps / 2)]
    return neg, mixed


def nb_layout(X, how):
    """the same matrix (same dtype, same values) in another memory layout"""
    if how == "F":
        return np.asfortranarray(X)
    if how == "strided":
        Z = np.full((2 * X.shape[0] + 1, 2 * X.shape[1] + 1), 7.0, dtype=X.dtype)   # 7 = out of range, never looked at
        V = Z[1::2, 1::2]
        V[...] = X
        return V
    return np.ascontiguousarray(X)


def _valid_history(r, est, kind, cls, d, chans, ds, max_steps=2):
    hist = []
    for _ in range(r.randint(0, max_steps)):
        n = r.randint(1, 8)
        if kind == "CVIART" and n < 3:
            n = 4
        Xv = valid_data(r, kind, cls, n, d, chans, ds)
        ops = ["fit"] if kind in ("CVIART", "iCVIFuzzyART") else ["fit", "partial_fit", "partial_fit"]
        if hist:
            ops.append("predict")
        op = r.choice(ops)
        try:
            _call(est, op, Xv)
        except Exception as e:   # training trouble on valid data belongs to C04, not here
            raise _Skip(f"valid-{op}-raised:{kind}:{exc_enum(e)}")
        hist.append((op, Xv))
    return hist


def near_bounds(ctx):
    """entries out of range by less than the resolution of the matrix's dtype: -5.5e-17 = 0.3 - (0.1 + 0.2), -5e-324,
    -2^-54 …, 1 + one ulp, in float64 / float32 / float16 matrices (C / Fortran / strided), at random points of random
    training histories: fit / partial_fit / predict must raise and leave the estimator as it was.  A negative entry is
    out of range however small; whether an entry is out of range is decided on the value the matrix STORES."""
    cov = ctx.cov
    for i in range(ctx.scale(6, 60)):
        for kind in CLUSTERERS:
            r = gen.rng_for(ctx.seed, "C18-nearbound-" + kind, i)
            try:
                _near_bound_one(ctx, r, kind, i)
            except _Skip as e:
                cov.hit("near-bound-skip:" + str(e))


def _near_bound_one(ctx, r, kind, i):
    import copy
    cov = ctx.cov
    spec, cls, d, chans, ds = _build(r, kind)
    est = make(spec)
    hist = _valid_history(r, est, kind, cls, d, chans, ds)
    trained = bool(hist)
    if kind == "FusionART":
        k = r.randrange(len(chans))
        mcls = chans[k]
        idx = est._channel_indices[k]
        lo, hi = int(idx[0]), int(idx[1])
        chan_tag = "first-channel" if k == 0 else "later-channel"
    else:
        mcls, lo, hi, chan_tag = cls, 0, specs.width(cls, d), None
    for dt in NB_DTYPES:
        dname = np.dtype(dt).name
        neg, mixed = near_bound_sources(r, dt)
        for label, src in (r.choice(neg), r.choice(mixed)):
            n = r.randint(1, 5)
            Xv = valid_data(r, kind, cls, n, d, chans, ds)
            with np.errstate(all="ignore"):
                X = Xv.astype(dt)
                stored = np.array(src, dtype=np.float64).astype(dt)
            if not np.array_equal(X.astype(np.float64), Xv):
                raise _Skip(f"valid-data-not-exact-in:{dname}")
            v = float(stored)                      # widening: exact
            a, b = r.randrange(n), r.randrange(lo, hi)
            low_side = v <= 0.5
            X[a, b] = stored
            Xc = X.copy()
            Xc[a, b] = 0.0 if low_side else 1.0    # control: the bound itself where the near-bound value sits
            if mcls == "FuzzyART":
                # the complement partner takes 1 - bound: the row stays complement coded to within |v - bound|
                w2 = (hi - lo) // 2
                p = b + w2 if b < lo + w2 else b - w2
                X[a, p] = Xc[a, p] = 1.0 if low_side else 0.0
            how = r.choice(NB_LAYOUTS)
            out_of_range = v < 0.0 or v > 1.0      # -0.0 == 0 is in range
            side = "lt0" if low_side else "gt1"
            try:
                with quiet(), np.errstate(all="ignore"):
                    copy.deepcopy(est).validate_data(nb_layout(Xc, how))
                control = True
            except Exception:
                control = False
            if not out_of_range:
                # the source rounded onto the bound / is an in-range neighbour of it: NOT an invalid matrix
                if mcls != "ART1":
                    try:
                        with quiet(), np.errstate(all="ignore"):
                            copy.deepcopy(est).validate_data(nb_layout(X, how))
                        acc = "accepted"
                    except Exception:
                        acc = "rejected"
                    cov.hit(f"near-bound:in-range-when-stored:{dname}:{acc}-by-validate_data")
                    if label.startswith("double") or label in ("1+eps/2",):
                        cov.hit(f"near-bound:source-rounds-onto-the-bound:{dname}")
                continue
            cov.hit(f"near-bound:{side}:{dname}:{how}:{'trained' if trained else 'fresh'}")
            if control:
                cov.hit(f"near-bound:{side}:{dname}:the-entry-is-the-only-defect")
            mk_sig = f"{side}-by-less-than-resolution"
            for entry in ENTRIES:
                Xb = nb_layout(X, how)
                before = snap(est)
                raised = None
                try:
                    _call(est, entry, Xb)
                except Exception as e:
                    raised = exc_enum(e)
                after = snap(est)
                cov.case((kind, spec, [(o, x.tolist()) for o, x in hist], entry, "near-bound", dname, how, v.hex(),
                          X.astype(np.float64).tolist()), trained)
                cov.hit(f"reject:{mk_sig}:{entry}:{dname}")
                rep = {"estimator": kind, "spec": spec, "history": [(o, x) for o, x in hist], "entry": entry,
                       "malformed": mk_sig, "module_class": mcls, "dtype": dname, "layout": how, "row": a, "col": b,
                       "source": label, "stored_value": v, "stored_value_hex": v.hex(),
                       "X": X.astype(np.float64), "raised": raised, "control_accepted": control}
                changed = diff_paths(before, after)
                sig = classify(kind, entry, mk_sig, chan_tag, mcls, raised, changed)
                where = f"X[{a},{b}] = {v!r} ({label}) in a {dname} matrix ({how} layout)"
                if raised is None:
                    ctx.issue("violation", sig,
                              f"{kind}.{entry} accepted a matrix with the out-of-range entry {where} for its {mcls} module "
                              f"({'trained' if trained else 'fresh'} estimator); state paths changed: {sorted(changed)}", rep)
                elif changed:
                    ctx.issue("violation", sig,
                              f"{kind}.{entry} raised {raised} on {where} but the estimator changed at {sorted(changed)} "
                              f"({'trained' if trained else 'fresh'} estimator)", rep)
                else:
                    cov.hit("rejected-atomically")
                    cov.hit(f"near-bound:{side}:{dname}:rejected-atomically")
                    continue
                est = _rebuild(spec, hist)
                if est is None:
                    raise _Skip("rebuild-failed")
    cov.traces += 1


# ------------------------------------------------------------------ (e) shape-bearing hyper-parameters re-configured

# Hyper-parameters that fix which data widths an estimator can take: BayesianART cov_init (d x d), GaussianART sigma_init
# (length d), ART2A alpha (alpha <= 1/sqrt(d)).  They can be replaced at any time through set_params / attribute
# assignment, on the estimator itself or on the base module of a host (through the host: `base_module__name`, or behind
# the host's back).  Once an estimator is TRAINED the width of its model (dim_, the length of its weights) is what a
# matrix has to agree with: a matrix of another width is "of the wrong width" whatever the hyper-parameter now says.
RECONF_CLASSES = ("BayesianART", "BayesianART", "GaussianART", "GaussianART", "ART2A")
RECONF_HOSTS = {"BayesianART": (None, None, None, "DualVigilanceART", "CVIART"),
                "GaussianART": (None, None, None, "DualVigilanceART", "CVIART"),
                "ART2A": (None, None, "DualVigilanceART", "TopoART", "CVIART")}


def shape_param(r, cls, d_old, d_new):
    """(name, value) of the hyper-parameter of `cls` sized for width d_new (and excluding width d_old)"""
    if cls == "BayesianART":
        return "cov_init", np.eye(d_new) * r.choice([0.0625, 0.25, 1.0])
    if cls == "GaussianART":
        return "sigma_init", np.full(d_new, r.choice([0.25, 0.5, 1.0]))
    if cls == "ART2A":
        # admits d_new, excludes d_old: 1/sqrt(d_old) < alpha <= 1/sqrt(d_new)
        lo_, hi_ = 1 / math.sqrt(d_old), 1 / math.sqrt(d_new)
        cands = [a for a in (1.0, 0.9375, 0.75, 0.625, 0.53125) if lo_ < a <= hi_]
        if not cands:
            raise _Skip("reconf:no-alpha-between")
        return "alpha", r.choice(cands)
    raise KeyError(cls)


RECONF_HOW = ("set_params", "attribute", "params-item")
RECONF_HOW_HOST = ("host.set_params(base_module__)", "base_module.set_params", "base_module.attribute",
                   "base_module.params-item")


def reconfigure(est, hosted, how, name, value):
    """replace one hyper-parameter the way a user can; returns the module that owns it"""
    value = value.copy() if isinstance(value, np.ndarray) else value
    with quiet():
        if not hosted:
            if how == "set_params":
                est.set_params(**{name: value})
            elif how == "attribute":
                setattr(est, name, value)
            else:
                est.params[name] = value
            return est
        if how == "host.set_params(base_module__)":
            est.set_params(**{"base_module__" + name: value})
        elif how == "base_module.set_params":
            est.base_module.set_params(**{name: value})
        elif how == "base_module.attribute":
            setattr(est.base_module, name, value)     # behind the host's back
        else:
            est.base_module.params[name] = value
        return est.base_module


def reconfigured(ctx):
    """a TRAINED estimator whose width-bearing hyper-parameter is replaced between calls, then fit / partial_fit /
    predict with in-range data of (i) the width the NEW hyper-parameter is sized for, (ii) a width that fits neither,
    (iii) the width of the trained model.  (i), (ii): the matrix is of the wrong width for the model: the call must
    raise and leave the estimator as it was.  (iii) is not a wrong-width matrix for the model, the call may go through;
    but when it does END IN AN ERROR the estimator must be as it was (no half-executed call)."""
    cov = ctx.cov
    for i in range(ctx.scale(30, 250)):
        r = gen.rng_for(ctx.seed, "C18-reconf", i)
        try:
            _reconfigured_one(ctx, r, i)
        except _Skip as e:
            cov.hit("reconf-skip:" + str(e))


def _reconfigured_one(ctx, r, i):
    cov = ctx.cov
    cls = RECONF_CLASSES[i % len(RECONF_CLASSES)]
    host = r.choice(RECONF_HOSTS[cls])
    if cls == "ART2A":
        d0, d1 = r.choice([(2, 1), (3, 1), (4, 1), (3, 2), (4, 2), (4, 3)])
    else:
        d0 = r.randint(1, 4)
        d1 = r.choice([t for t in (1, 2, 3, 4, 5) if t != d0])
    kind = host or cls
    try:
        spec = wrap_spec(r, host, cls, d0) if host else base_spec(r, cls, d0)
        est = make(spec)
    except _Skip:
        raise
    except Exception as e:
        raise _Skip(f"reconf:construct-raised:{kind}[{cls}]:{exc_enum(e)}")
    # ---- a training history on width-d0 data (at least one training call)
    hist = []
    for s in range(r.randint(1, 3)):
        n = r.randint(4, 8) if host == "CVIART" else r.randint(1, 8)
        Xv = specs.elem_data(r, cls, n, d0)
        ops = ["fit"] if host == "CVIART" else ["fit", "partial_fit", "partial_fit"]
        if hist:
            ops.append("predict")
        op = r.choice(ops)
        try:
            _call(est, op, Xv)
        except Exception as e:   # training trouble on valid data belongs to C04, not here
            raise _Skip(f"reconf:valid-{op}-raised:{kind}[{cls}]:{exc_enum(e)}")
        hist.append((op, Xv))
    owner = est.base_module if host else est
    if int(getattr(owner, "dim_", -1)) != d0 or not len(getattr(owner, "W", [])):
        raise _Skip("reconf:not-trained")
    # ---- the re-configuration
    name, value = shape_param(r, cls, d0, d1)
    how = r.choice(RECONF_HOW_HOST if host else RECONF_HOW)
    old_value = owner.params[name]
    old_value = old_value.copy() if isinstance(old_value, np.ndarray) else old_value

    def reconf(e_, val):
        try:
            own = reconfigure(e_, bool(host), how, name, val)
        except Exception as e:      # the library may refuse the new value: nothing to test then
            raise _Skip(f"reconf:refused:{kind}[{cls}].{name}:{exc_enum(e)}")
        got = own.params[name]
        if not np.array_equal(np.asarray(got, dtype=float), np.asarray(val, dtype=float)):
            raise _Skip(f"reconf:value-not-taken:{kind}[{cls}].{name}")

    def rebuilt():
        e_ = _rebuild(spec, hist)
        if e_ is None:
            raise _Skip("rebuild-failed")
        reconf(e_, value)
        return e_

    before_reconf = snap(est)
    reconf(est, value)
    # the re-configuration itself touches the hyper-parameter and nothing else
    ch = {p for p in norm_paths(diff_paths(before_reconf, snap(est))) if "params" not in p}
    if ch:
        cov.hit("reconf:re-configuration-touched-more-than-params")
    cov.hit(f"reconf:{cls}.{name}:{d0}->{d1}")
    cov.hit(f"reconf:how:{how}")
    cov.hit(f"reconf:host:{host or 'none'}")
    d2 = r.choice([t for t in (1, 2, 3, 4, 5, 6) if t not in (d0, d1)])
    tagw = f"{kind}[{cls}]" if host else cls
    for wk, w in (("width-of-new-" + name, d1), ("width-fitting-neither", d2), ("width-of-trained-model", d0)):
        for entry in ENTRIES:
            n = r.randint(1, 6)
            Xb = gen.grid_rows(r, n, w)
            before = snap(est)
            raised = None
            try:
                _call(est, entry, Xb.copy())
            except Exception as e:
                raised = exc_enum(e)
            after = snap(est)
            changed = diff_paths(before, after)
            paths = ",".join(sorted(norm_paths(changed)))
            cov.case(("reconf", kind, spec, [(o, x.tolist()) for o, x in hist], how, name, np.asarray(value).tolist(),
                      entry, Xb.tolist()), True)
            cov.hit(f"reconf:{wk.replace(name, 'hyper-parameter')}:{entry}")
            rep = {"estimator": kind, "module_class": cls, "spec": spec, "history": [(o, x) for o, x in hist],
                   "reconfigure": {"how": how, "param": name, "old": old_value, "new": value},
                   "dim_of_trained_model": d0, "entry": entry, "X": Xb, "width": w, "width_kind": wk, "raised": raised,
                   "state_paths_changed": sorted(changed)}
            told = (f"{kind} trained on width {d0}, then {name} replaced ({how}) by one sized for width {d1}; "
                    f"{entry} on in-range data of width {w} ({wk})")
            if w != d0:
                if raised is None:
                    ctx.issue("violation", f"{tagw}.{entry}:reconfigured-{name}:{wk}:accepted",
                              f"{told} was ACCEPTED although the model holds width-{d0} categories; state paths changed: "
                              f"{sorted(changed)}", rep)
                elif changed:
                    ctx.issue("violation", f"{tagw}.{entry}:reconfigured-{name}:{wk}:state-changed:{paths}",
                              f"{told} raised {raised} but the estimator changed at {sorted(changed)}", rep)
                else:
                    cov.hit("rejected-atomically")
                    cov.hit(f"reconf:{wk.replace(name, 'hyper-parameter')}:rejected-atomically")
                    continue
                est = rebuilt()
                continue
            # the width the model was trained with: NOT a wrong-width matrix, so the rejection clause of C18 does not speak
            # about it.  The unchanged library lets BayesianART / GaussianART fail inside step_fit here (new_weight reads
            # the live cov_init / sigma_init while everything else uses dim_) after fit has emptied the model: an exception
            # on data the validation accepts is C04's subject (and hyper-parameters sized for another width than the
            # data are outside C04's "valid" configurations), so it is counted, not reported (DESIGN 12.5, batch 13).
            if raised is None:
                cov.hit(f"reconf:width-of-trained-model:{entry}:went-through")
                if changed:
                    est = rebuilt()
            elif changed:
                cov.hit(f"reconf:width-of-trained-model:{entry}:error-after-state-change({cls}; not a wrong-width matrix: outside C18)")
                est = rebuilt()
            else:
                cov.hit(f"reconf:width-of-trained-model:{entry}:rejected-atomically")
    # ---- later behaviour: with the old hyper-parameter back, the estimator behaves like a twin never re-configured
    reconf(est, old_value)
    twin = _rebuild(spec, hist)
    if twin is None:
        raise _Skip("rebuild-failed")
    Xv = specs.elem_data(r, cls, r.randint(4, 6), d0)
    res = []
    for e_ in (est, twin):
        try:
            _call(e_, "fit", Xv.copy())
            res.append(("ok", full_snapshot(e_)))
        except Exception as e:
            res.append((exc_enum(e), None))
    if res[0][0] != res[1][0] or (res[0][1] is not None and not eq_snap(res[0][1], res[1][1])):
        ctx.issue("violation", f"{tagw}:reconfigured-{name}:after-rejections:behaviour-differs",
                  f"{kind}: after rejected calls and with the old {name} back a valid fit gives {res[0][0]} but "
                  f"{res[1][0]} on a twin that was never re-configured",
                  {"estimator": kind, "spec": spec, "history": hist, "X": Xv,
                   "reconfigure": {"how": how, "param": name, "old": old_value, "new": value}})
    else:
        cov.hit("reconf:later-behaviour-like-twin")
    cov.traces += 1


def prepare(ctx):
    """Translator tie (see gen_tie.py): the source of this slice is re-translated to Lean on every run
    (harness/artv/ptrans.py) and proved equal to the model the property theorems are about"""
    from .gen_tie import gen_prepare, extra_theorems
    from .. import ptrans, xtrans, p2trans
    gen_prepare(ctx, extra_theorems("ptrans") + extra_theorems("xtrans") + extra_theorems("p2trans"),
                ptrans.COVERS + "; " + xtrans.COVERS + "; " + p2trans.COVERS)

def run(ctx):
    ctx.trusted += ["numpy/IEEE division by zero is modelled by `normWithChk` (non-finite = `nf`), not by the field division",
                    "float rounding of (x-min)/(max-min) is outside the theorems: compared exactly on dyadic data "
                    "(single correctly rounded division), to 1e-12 relative otherwise; round trip to 1e-9"]
    ctx.assumptions += ["matrices are rectangular with >= 1 row; every column non-constant (NonConst) for all theorems that divide",
                        "reject_is_noop is about the entry-point shape validate-then-body; that the real entry points have this "
                        "shape is what oracle (c) checks on the implementation"]
    tie(ctx)
    roundtrip(ctx)
    extreme_scales(ctx)
    rejection(ctx)
    near_bounds(ctx)
    reconfigured(ctx)
