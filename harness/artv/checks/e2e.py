"""End-to-end histories: the Lean model computes activations, match values,
the search and the bookkeeping itself (over Q, exact on grid data) and must
reproduce the implementation's labels, weights and counters."""
from __future__ import annotations

from fractions import Fraction

import numpy as np

from .. import gen, specs
from ..common import q2s, mat_q, nats, run_driver, parse_kv, parse_nats, parse_mat_q, parse_optnats
from ..impl import make, quiet, exc_enum, MODES, Recorder


def kernel_hdr(cls: str, spec: dict, d: int) -> str:
    if cls == "FuzzyART":
        return f"{q2s(spec['rho'])} {q2s(spec['alpha'])} {q2s(spec['beta'])} {d}"
    if cls == "ART1":
        return f"{q2s(spec['rho'])} {q2s(spec['L'])} {d}"
    if cls == "ART2A":
        return f"{q2s(spec['rho'])} {q2s(spec['alpha'])} {q2s(spec['beta'])}"
    raise KeyError(cls)


KNAME = {"FuzzyART": "fuzzy", "ART1": "art1", "ART2A": "art2a"}


def vt_str(vt, n):
    if vt is None:
        return "-"
    return "|".join("".join("1" if b else "0" for b in row) for row in vt[:n]) or "-"


def close(a: float, q: Fraction) -> bool:
    f = float(q)
    return a == f or abs(a - f) <= 1e-12 * (1 + abs(f))


def cmp_W(Wi, Wm) -> bool:
    if len(Wi) != len(Wm):
        return False
    for wi, wm in zip(Wi, Wm):
        if len(wi) != len(wm) or not all(close(float(a), b) for a, b in zip(wi, wm)):
            return False
    return True


def safe_n(cls, beta, n):
    """beta < 1 makes denominators grow; keep histories short enough for exact float sums"""
    return n if beta == 1.0 else min(n, 10)


def gen_case(r, cls, nmax):
    d = r.randint(1, 4)
    spec = specs.elem_spec(r, cls, d)
    n = safe_n(cls, spec.get("beta", 1.0), r.randint(1, nmax))
    X = specs.elem_data(r, cls, n, d)
    return d, spec, n, X


def base_histories(ctx, tag: str, N: int, nmax: int, with_pred: bool = True, fields=("labels", "W", "cnt")):
    """fit / partial_fit / predict histories on bare exact modules"""
    cov = ctx.cov
    lines, metas = [], []
    for i in range(N):
        r = gen.rng_for(ctx.seed, tag + "-e2e", i)
        cls = specs.EXACT[i % 3]
        d, spec, n, X = gen_case(r, cls, nmax)
        mode = r.choice(MODES)
        eps = r.choice([0.0, 2.0 ** -20, 2.0 ** -10, 0.125])
        has_reset = r.random() < 0.5
        vt = gen.veto_table(r, 3 * n + 4, 3 * n + 5) if has_reset else None
        try:
            m = make(spec)
        except Exception as e:
            ctx.issue("violation", f"{cls}.__init__:{exc_enum(e)}", repr(e), {"spec": spec})
            continue
        counter = {"i": 0}

        def reset(i_, w_, c_, params, cache, _vt=vt, _c=counter):
            return not _vt[_c["i"]][c_]
        # count presented samples by wrapping step_fit
        o_step = m.step_fit

        def step(x, *a, _o=o_step, _c=counter, **kw):
            try:
                return _o(x, *a, **kw)
            finally:
                _c["i"] += 1
        object.__setattr__(m, "step_fit", step)
        # history: [fit|pfit...] with optional pred and refit
        calls = []
        parts = gen.compositions(r, n)
        style = r.choice(["fit", "pfit", "fit+pfit", "pfit+fit", "refit"])
        Xs = gen.split(X, parts)
        if style == "fit":
            calls = [("fit", X)]
        elif style == "pfit":
            calls = [("pfit", B) for B in Xs]
        elif style == "fit+pfit":
            calls = [("fit", Xs[0])] + [("pfit", B) for B in Xs[1:]]
        elif style == "pfit+fit":
            calls = [("pfit", B) for B in Xs] + [("fit", X)]
        else:
            calls = [("fit", X), ("fit", X[::-1].copy())]
        if with_pred and r.random() < 0.5:
            k = r.randint(0, len(calls))
            calls.insert(k, ("pred", X[: max(1, n // 2)]))
        if calls[0][0] == "pred":
            calls = calls[1:] + calls[:1]
        kw = dict(match_reset_func=reset if has_reset else None, match_tracking=mode, epsilon=eps)
        snaps, failed = [], None
        for op, B in calls:
            try:
                with quiet():
                    if op == "fit":
                        m.fit(B, **kw)
                    elif op == "pfit":
                        m.partial_fit(B, **kw)
                    else:
                        snaps.append(("pred", [int(t) for t in m.predict(B)]))
                        continue
                snaps.append(("st", [np.array(w, dtype=float) for w in m.W], [int(t) for t in m.labels_],
                              [int(t) for t in m.weight_sample_counter_], int(m.sample_counter_)))
            except Exception as e:
                failed = (op, e)
                break
        rep = {"class": cls, "spec": spec, "mode": mode, "eps": eps, "veto": vt, "calls": [(o, b) for o, b in calls]}
        if failed:
            ctx.issue("violation", f"{cls}.{failed[0]}:{exc_enum(failed[1])}",
                      f"{failed[0]} raised {failed[1]!r} on validated data", rep)
            continue
        total = sum(len(B) for o, B in calls if o != "pred")
        hdr = f"hist base {KNAME[cls]} {mode} {q2s(eps)} {vt_str(vt, total)} {kernel_hdr(cls, spec, d)}"
        cs = " # ".join(f"{op} {mat_q(B)}" for op, B in calls)
        lines.append(hdr + " # " + cs)
        metas.append((i, snaps, rep))
        cov.case((cls, spec, X.tolist(), mode, eps, style, parts, vt), nontrivial=len(snaps) > 0 and n > 1)
        if i < 2:
            cov.sample({"e2e": cls, "spec": spec, "mode": mode, "calls": [o for o, _ in calls], "n": n})
    outs = run_driver(lines)
    for line, out, (i, snaps, rep) in zip(lines, outs, metas):
        rep = dict(rep, line=line, model=out)
        cls = rep["class"]
        got = out.split(" # ")
        if out == "bad-op" or len(got) != len(snaps):
            ctx.issue("diff", f"e2e:{cls}:protocol", f"case {i}: model output {out[:80]}", rep)
            continue
        for k, (g, s) in enumerate(zip(got, snaps)):
            if s[0] == "pred":
                mp = parse_optnats(g[len("pred="):])
                if mp != s[1]:
                    ctx.issue("diff", f"e2e:{cls}:predict", f"case {i} call {k}: impl {s[1]} model {mp}", rep)
                    break
                cov.hit("e2e-pred")
                continue
            kv = parse_kv(g)
            if "labels" in fields and parse_nats(kv["labels"]) != s[2]:
                ctx.issue("diff", f"e2e:{cls}:labels", f"case {i} call {k}: impl labels {s[2]} model {kv['labels']}", rep)
                break
            if "W" in fields and not cmp_W(s[1], parse_mat_q(kv["W"])):
                ctx.issue("diff", f"e2e:{cls}:W", f"case {i} call {k}: weights differ; model {kv['W'][:200]}", rep)
                break
            if "cnt" in fields and (parse_nats(kv["cnt"]) != s[3] or int(kv["n"]) != s[4]):
                ctx.issue("diff", f"e2e:{cls}:counters", f"case {i} call {k}: impl cnt {s[3]} n {s[4]}; "
                          f"model cnt {kv['cnt']} n {kv['n']}", rep)
                break
            cov.hit("e2e-call-ok")
        cov.traces += 1


def smap_histories(ctx, tag: str, N: int, nmax: int):
    """SimpleARTMAP histories (fit / partial_fit / predict_ab) on exact A-side kernels"""
    from ..impl import SimpleARTMAP
    cov = ctx.cov
    lines, metas = [], []
    for i in range(N):
        r = gen.rng_for(ctx.seed, tag + "-smap", i)
        cls = specs.EXACT[i % 3]
        d, spec, n, X = gen_case(r, cls, nmax)
        mode = r.choice(MODES)
        eps = r.choice([0.0, 2.0 ** -20, 2.0 ** -10, 0.125])
        y = gen.labels(r, n, r.randint(1, 4))
        try:
            m = SimpleARTMAP(make(spec))
        except Exception as e:
            ctx.issue("violation", f"SimpleARTMAP.__init__:{exc_enum(e)}", repr(e), {"spec": spec})
            continue
        parts = gen.compositions(r, n)
        Xs, ys = gen.split(X, parts), gen.split(y, parts)
        style = r.choice(["fit", "pfit", "fit+pfit", "refit"])
        if style == "fit":
            calls = [("fit", X, y)]
        elif style == "pfit":
            calls = [("pfit", a, b) for a, b in zip(Xs, ys)]
        elif style == "fit+pfit":
            calls = [("fit", Xs[0], ys[0])] + [("pfit", a, b) for a, b in zip(Xs[1:], ys[1:])]
        else:
            y2 = gen.labels(r, n, 3)
            calls = [("fit", X, y2), ("fit", X, y)]
        if r.random() < 0.6:
            calls.append(("pred", X[: max(1, n // 2)], None))
        kw = dict(match_tracking=mode, epsilon=eps)
        snaps, failed = [], None
        for op, B, yy in calls:
            try:
                with quiet():
                    if op == "fit":
                        m.fit(B, yy, **kw)
                    elif op == "pfit":
                        m.partial_fit(B, yy, **kw)
                    else:
                        a, b = m.predict_ab(B)
                        snaps.append(("pred", [f"{int(p)}:{int(q)}" for p, q in zip(a, b)]))
                        continue
                snaps.append(("st", [np.array(w, dtype=float) for w in m.module_a.W],
                              [int(t) for t in m.module_a.labels_], dict((int(k), int(v)) for k, v in m.map.items()),
                              [int(t) for t in m.labels_]))
            except Exception as e:
                failed = (op, e)
                break
        rep = {"class": cls, "spec": spec, "mode": mode, "eps": eps,
               "calls": [(o, b, None if yy is None else yy.tolist()) for o, b, yy in calls]}
        if failed:
            ctx.issue("violation", f"SimpleARTMAP({cls}).{failed[0]}:{exc_enum(failed[1])}",
                      f"{failed[0]} raised {failed[1]!r} on validated data", rep)
            continue
        hdr = f"hist smap {KNAME[cls]} {mode} {q2s(eps)} - {kernel_hdr(cls, spec, d)}"
        cs = " # ".join(f"{op} {mat_q(B)}" + ("" if yy is None else " " + nats(yy)) for op, B, yy in calls)
        lines.append(hdr + " # " + cs)
        metas.append((i, snaps, rep))
        cov.case(("smap", cls, spec, X.tolist(), y.tolist(), mode, eps, style, parts), nontrivial=n > 1)
    outs = run_driver(lines)
    for line, out, (i, snaps, rep) in zip(lines, outs, metas):
        rep = dict(rep, line=line, model=out)
        cls = rep["class"]
        got = out.split(" # ")
        if out == "bad-op" or len(got) != len(snaps):
            ctx.issue("diff", f"e2e-smap:{cls}:protocol", f"case {i}: model output {out[:80]}", rep)
            continue
        for k, (g, s) in enumerate(zip(got, snaps)):
            if s[0] == "pred":
                mp = [] if g[5:] in ("-", "") else g[5:].split(",")
                if mp != s[1]:
                    ctx.issue("diff", f"e2e-smap:{cls}:predict_ab", f"case {i} call {k}: impl {s[1]} model {mp}", rep)
                    break
                cov.hit("e2e-smap-pred")
                continue
            kv = parse_kv(g)
            mm = parse_optnats(kv["map"])
            model_map = {j: v for j, v in enumerate(mm) if v is not None}
            if parse_nats(kv["labels"]) != s[2]:
                ctx.issue("diff", f"e2e-smap:{cls}:labels_a", f"case {i} call {k}: impl {s[2]} model {kv['labels']}", rep)
                break
            if model_map != s[3]:
                ctx.issue("diff", f"e2e-smap:{cls}:map", f"case {i} call {k}: impl {s[3]} model {model_map}", rep)
                break
            if parse_nats(kv["lb"]) != s[4]:
                ctx.issue("diff", f"e2e-smap:{cls}:labels_b", f"case {i} call {k}: impl {s[4]} model {kv['lb']}", rep)
                break
            if not cmp_W(s[1], parse_mat_q(kv["W"])):
                ctx.issue("diff", f"e2e-smap:{cls}:W", f"case {i} call {k}: weights differ", rep)
                break
            cov.hit("e2e-smap-call-ok")
        cov.traces += 1


def sphere_histories(ctx, tag: str, N: int, nmax: int):
    """HypersphereART fit / partial_fit / predict histories replayed by the Lean model on IEEE doubles:
    the same generic definitions at `Float` (+, -, *, /, sqrt are bit-identical to numpy's).  Labels must
    agree exactly and weights to 1e-12; a history is skipped (counted) when two activations or a match
    value and its threshold are closer than 1e-12 (float-ambiguous decision)."""
    from ..common import f2hex, mat_f, parse_mat_f
    cov = ctx.cov
    lines, metas = [], []
    for i in range(N):
        r = gen.rng_for(ctx.seed, tag + "-sph", i)
        d = r.randint(1, 3)
        spec = specs.elem_spec(r, "HypersphereART", d)
        n = r.randint(1, nmax)
        X = specs.elem_data(r, "HypersphereART", n, d, floats=r.random() < 0.3)
        mode = r.choice(MODES)
        eps = r.choice([0.0, 2.0 ** -20, 2.0 ** -10, 0.125])
        has_reset = r.random() < 0.4
        vt = gen.veto_table(r, 2 * n + 4, 2 * n + 5) if has_reset else None
        m = make(spec)
        rec = Recorder(m)
        counter = {"i": 0}

        def reset(i_, w_, c_, params, cache, _vt=vt, _c=counter):
            return not _vt[len(rec.steps) - 1][c_]
        parts = gen.compositions(r, n)
        calls = [("fit", X)] if r.random() < 0.4 else [("pfit", B) for B in gen.split(X, parts)]
        if r.random() < 0.5:
            calls.append(("pred", X[: max(1, n // 2)]))
        kw = dict(match_reset_func=reset if has_reset else None, match_tracking=mode, epsilon=eps)
        snaps, failed = [], None
        for op, B in calls:
            try:
                with quiet():
                    if op == "fit":
                        m.fit(B, **kw)
                    elif op == "pfit":
                        m.partial_fit(B, **kw)
                    else:
                        snaps.append(("pred", [int(t) for t in m.predict(B)]))
                        continue
                snaps.append(("st", [np.array(w, dtype=float) for w in m.W], [int(t) for t in m.labels_]))
            except Exception as e:
                failed = (op, e)
                break
        rep = {"class": "HypersphereART", "spec": spec, "mode": mode, "eps": eps, "veto": vt, "calls": [(o, b) for o, b in calls]}
        if failed:
            ctx.issue("violation", f"HypersphereART.{failed[0]}:{exc_enum(failed[1])}", f"{failed[0]} raised {failed[1]!r}", rep)
            continue
        # float-ambiguous decisions: skip the comparison for this history
        amb = False
        for st in rec.steps:
            T = sorted(t for t in st.Tcalls if t == t)
            if any(abs(a - b) <= 1e-12 * (1 + abs(a)) and a != b for a, b in zip(T, T[1:])):
                amb = True
            for mv, mb, rho_ in st.Mseq:
                if rho_ is not None and mv[0] != rho_ and abs(mv[0] - rho_) <= 1e-12:
                    amb = True
        if amb:
            cov.hit("sphere-e2e:float-ambiguous-skipped")
            continue
        total = sum(len(B) for o, B in calls if o != "pred")
        hdr = (f"hist base sph {mode} {f2hex(eps)} {vt_str(vt, total)} {f2hex(spec['rho'])} {f2hex(spec['alpha'])} "
               f"{f2hex(spec['beta'])} {f2hex(spec['r_hat'])}")
        lines.append(hdr + " # " + " # ".join(f"{op} {mat_f(B)}" for op, B in calls))
        metas.append((i, snaps, rep))
        cov.case(("sph", spec, X.tolist(), mode, eps, parts, vt), n > 1)
    outs = run_driver(lines)
    for line, out, (i, snaps, rep) in zip(lines, outs, metas):
        rep = dict(rep, line=line, model=out)
        got = out.split(" # ")
        if out == "bad-op" or len(got) != len(snaps):
            ctx.issue("diff", "e2e:HypersphereART:protocol", f"case {i}: model output {out[:80]}", rep)
            continue
        for k, (g, s) in enumerate(zip(got, snaps)):
            if s[0] == "pred":
                if parse_optnats(g[len("pred="):]) != s[1]:
                    ctx.issue("diff", "e2e:HypersphereART:predict", f"case {i} call {k}: impl {s[1]} model {g}", rep)
                    break
                continue
            kv = parse_kv(g)
            if parse_nats(kv["labels"]) != s[2]:
                ctx.issue("diff", "e2e:HypersphereART:labels", f"case {i} call {k}: impl labels {s[2]} model {kv['labels']}", rep)
                break
            Wm = parse_mat_f(kv["W"])
            ok = len(Wm) == len(s[1]) and all(len(a) == len(b) and all(x == y or abs(x - y) <= 1e-12 * (1 + abs(y)) for x, y in zip(a, b))
                                              for a, b in zip(s[1], Wm))
            if not ok:
                ctx.issue("diff", "e2e:HypersphereART:W", f"case {i} call {k}: weights differ", rep)
                break
            if all(len(a) == len(b) and all(x == y for x, y in zip(a, b)) for a, b in zip(s[1], Wm)):
                cov.hit("sphere-e2e:bit-identical")
            cov.hit("sphere-e2e:call-ok")
        cov.traces += 1


def smap_epoch_histories(ctx, tag: str, N: int, nmax: int):
    """SimpleARTMAP(FuzzyART).fit with max_iter = 2..4 against the Lean `smapFitEpochs`: labels_a of the last
    epoch, weights, map, counters (which keep counting across epochs)"""
    from ..impl import SimpleARTMAP
    cov = ctx.cov
    lines, metas = [], []
    for i in range(N):
        r = gen.rng_for(ctx.seed, tag + "-smapk", i)
        d, spec, n, X = gen_case(r, "FuzzyART", nmax)
        if spec["beta"] != 1.0:
            n = min(n, 4)
            X = X[:n]
        mode = r.choice(MODES)
        eps = r.choice([0.0, 2.0 ** -20, 2.0 ** -10, 0.125])
        k = r.choice([2, 3, 4])
        y = gen.labels(r, n, r.randint(1, 4))
        m = SimpleARTMAP(make(spec))
        rep = {"spec": spec, "mode": mode, "eps": eps, "epochs": k, "X": X.tolist(), "y": y.tolist()}
        try:
            with quiet():
                m.fit(X, y, max_iter=k, match_tracking=mode, epsilon=eps)
        except Exception as e:
            ctx.issue("violation", f"SimpleARTMAP(FuzzyART).fit:multi-epoch:{exc_enum(e)}", f"fit(max_iter={k}) raised {e!r}", rep)
            continue
        lines.append(f"hist smapk fuzzy {mode} {q2s(eps)} - {kernel_hdr('FuzzyART', spec, d)} # {k} {mat_q(X)} {nats(y)}")
        metas.append((i, m, rep))
        cov.case(("smapk", spec, rep["X"], rep["y"], mode, eps, k), n > 1)
    outs = run_driver(lines)
    for line, out, (i, m, rep) in zip(lines, outs, metas):
        rep = dict(rep, line=line, model=out)
        if not out.startswith("W="):
            ctx.issue("diff", "e2e-smapk:protocol", f"case {i}: model output {out[:80]}", rep)
            continue
        kv = parse_kv(out)
        mm = {j: v for j, v in enumerate(parse_optnats(kv["map"])) if v is not None}
        ok = (parse_nats(kv["labels"]) == [int(t) for t in m.module_a.labels_]
              and mm == {int(a): int(b) for a, b in m.map.items()}
              and cmp_W([np.array(w, dtype=float) for w in m.module_a.W], parse_mat_q(kv["W"]))
              and parse_nats(kv["cnt"]) == [int(t) for t in m.module_a.weight_sample_counter_]
              and int(kv["n"]) == int(m.module_a.sample_counter_))
        if not ok:
            ctx.issue("diff", "e2e-smapk:state", f"case {i}: after fit(max_iter={rep['epochs']}) impl labels_a "
                      f"{[int(t) for t in m.module_a.labels_]} map {dict(m.map)} cnt {list(m.module_a.weight_sample_counter_)}; model {out[:200]}", rep)
        else:
            cov.hit("e2e-smapk-ok")
        cov.traces += 1
