"""C14 — TopoART: two winners, edge counts, pruning schedule and re-indexing.

Tie: every history (fit / partial_fit / predict calls on one TopoART instance) is
replayed through the Lean model (`topo …` line, see lean/ArtModel/Ops/Topo.lean).
The kernel of the model is a finite *table* of the base module's kernel
functions, recorded at the call boundary of `base_module.category_choice /
match_criterion_bin / update / new_weight`, with sample and weight values
interned by their bytes — so the whole control flow (visiting order, thresholds
in force, which two categories learn at which rate, adjacency cell, pruning
schedule, surviving set, re-indexing, label rewrite incl. re-prediction) runs in
the model for arbitrary floats and is compared *exactly* and *after every sample*
(labels, counters, adjacency, mask, weights by value, creation identity).

Oracle: the property statement executed on the implementation alone, from
before/after snapshots taken by wrapping `step_fit` / `prune` on the instance and
from un-instrumented (class-level) kernel calls.
"""
from __future__ import annotations

import operator

import numpy as np

from .. import gen, specs
from ..common import f2hex, run_driver, parse_kv, parse_nats
from ..impl import make, quiet, exc_enum, MODES, sorted_live

RULE = ("cases = (base class, base hyper-parameters, beta_lower, tau, phi, data set, call history over "
        "{fit, partial_fit, predict}, match-tracking mode, epsilon, veto table); non-trivial when the history "
        "contains a second winner or a pruning round; distinct by hash of all of these.  Plus histories in which "
        "beta_lower / tau / phi are re-assigned by attribute assignment between training calls (oracle alone): "
        "non-trivial when a second winner learns after a re-assignment.  Plus long streams of one repeated midpoint "
        "sample between two categories (oracle alone; up to 2**16+8 co-activations of one ordered pair in the quick "
        "tier, >= 70000 rows in the thorough tier): non-trivial when one edge count reaches the stream length.  Plus "
        "histories whose training call is `fit_gif` (BaseART's loop with a frame per sample; 6-14 rows of 2 features, "
        "tau in 2..4, on a new estimator / after a fit / followed by partial_fit; model + oracle): non-trivial when a "
        "pruning round inside the fit_gif call removes a category.  Plus histories with plotting calls (model + oracle): "
        "`fit_gif` with a palette (n_cluster_estimate 1..2) smaller than the number of categories alive at a frame, "
        "`visualize` (the estimator's own labels_ / a copy; 1-2 colours, the default palette, a long one) and "
        "`plot_cluster_bounds` between training calls: non-trivial when a presented sample carries a label >= the "
        "number of colours at the plotting call (fit_gif: and a pruning round follows)")

UNREC = 1000000


# ------------------------------------------------------------------ recording


class Interner:
    def __init__(self):
        self.ids: dict[bytes, int] = {}

    def __call__(self, a) -> int:
        b = np.ascontiguousarray(np.asarray(a, dtype=float)).tobytes()
        k = self.ids.get(b)
        if k is None:
            k = len(self.ids)
            self.ids[b] = k
        return k


def same_float(a: float, b: float) -> bool:
    return f2hex(a) == f2hex(b) or (a == b)


class Rec:
    """Instrumentation of one TopoART instance (all from outside, on the instance)."""

    def __init__(self, m, vt):
        self.m = m
        self.base = m.base_module
        self.vt = vt                          # veto table by global step, or None
        self.xi, self.wi = Interner(), Interner()
        self.tab: dict[int, dict] = {}        # xid -> {"new": wid|None, "e": {wid: [T, M, U, L]}}
        self.conflicts: list[str] = []
        self.g = 0                            # global step counter (next step)
        self.cur = None                       # record of the running step
        self.steps: list[dict] = []           # records of the running call
        self.ids: list = []                   # creation step of each category, parallel to W
        self.lowered = False                  # a category learned below the configured vigilance
        self.core_raised = False              # an exception left step_fit / prune (and not the caller's own glue)
        self._install()

    # -- tables
    def _entry(self, x, w):
        xid, wid = self.xi(x), self.wi(w)
        blk = self.tab.setdefault(xid, {"new": None, "e": {}})
        return blk["e"].setdefault(wid, [None, None, None, None]), xid, wid

    def _put(self, e, k, v, what):
        if e[k] is None:
            e[k] = v
        elif k < 2:
            if not same_float(e[k], v) and not (e[k] != e[k] and v != v):
                self.conflicts.append(f"{what}: {e[k]!r} vs {v!r}")
        elif e[k] != v:
            self.conflicts.append(f"{what}: wid {e[k]} vs {v}")

    def _install(self):
        m, base, rec = self.m, self.base, self
        o_choice, o_mbin = base.category_choice, base.match_criterion_bin
        o_update, o_new = base.update, base.new_weight
        o_step, o_prune = m.step_fit, m.prune

        def category_choice(i, w, params, **kw):
            T, cache = o_choice(i, w, params, **kw)
            e, _, _ = rec._entry(i, w)
            rec._put(e, 0, float(T), "category_choice not a function of (x, w)")
            return T, cache

        def match_criterion_bin(i, w, params, cache=None, op=operator.ge, **kw):
            mb, c = o_mbin(i, w, params, cache, op, **kw)
            e, _, _ = rec._entry(i, w)
            rec._put(e, 1, float(c["match_criterion"]), "match_criterion not a function of (x, w)")
            if rec.cur is not None:
                pos = next((k for k, ww in enumerate(base.W) if ww is w), None)
                rec.cur["visits"].append((pos, bool(mb), float(params["rho"])))
            return mb, c

        def update(i, w, params, cache=None, **kw):
            e, _, _ = rec._entry(i, w)
            nw = o_update(i, w, params, cache, **kw)
            lower = bool(cache is not None and cache.get("resonant_c", -1) >= 0)
            rec._put(e, 3 if lower else 2, rec.wi(nw), "update not a function of (x, w, beta)")
            if rec.cur is not None:
                rec.cur["updates"].append((int(cache.get("current_c", -1)), int(cache.get("resonant_c", -1)),
                                           float(params["beta"])))
            return nw

        def new_weight(i, params, **kw):
            nw = o_new(i, params, **kw)
            xid = rec.xi(i)
            blk = rec.tab.setdefault(xid, {"new": None, "e": {}})
            wid = rec.wi(nw)
            if blk["new"] is None:
                blk["new"] = wid
            elif blk["new"] != wid:
                rec.conflicts.append("new_weight not a function of x")
            return nw

        def step_fit(x, *a, **kw):
            st = {"g": rec.g, "x": np.array(x, dtype=float).copy(), "xid": rec.xi(x), "pre": rec.snap(),
                  "visits": [], "resets": [], "updates": [], "ret": None, "prune": None}
            rec.cur = st
            rec.steps.append(st)
            nb = len(base.W)
            try:
                c = o_step(x, *a, **kw)
            except BaseException:
                rec.core_raised = True
                raise
            finally:
                rec.cur = None
                rec.g += 1
            st["ret"] = int(c)
            if len(base.W) == nb + 1:
                rec.ids = (rec.ids if nb else []) + [st["g"]]
            st["mid"] = rec.snap()        # after step_fit, before the label write and the hook
            return c

        def prune(X):
            before_objs = list(base.W)
            pre = rec.snap()
            try:
                o_prune(X)
            except BaseException:
                rec.core_raised = True
                raise
            new_ids = []
            for w in base.W:
                k = next((k for k, ww in enumerate(before_objs) if ww is w), None)
                new_ids.append(None if k is None or k >= len(rec.ids) else rec.ids[k])
            kept_pos = [next((k for k, ww in enumerate(before_objs) if ww is w), None) for w in base.W]
            rec.ids = new_ids
            post = rec.snap()
            if rec.steps:
                rec.steps[-1]["prune"] = (pre, post, kept_pos, len(X))

        for obj, name, fn in ((base, "category_choice", category_choice), (base, "match_criterion_bin", match_criterion_bin),
                              (base, "update", update), (base, "new_weight", new_weight),
                              (m, "step_fit", step_fit), (m, "prune", prune)):
            object.__setattr__(obj, name, fn)

    def reset_func(self):
        rec = self

        def fn(i, w, c_, params=None, cache=None, **kw):
            ans = not rec.vt[rec.g][c_]
            if rec.cur is not None:
                rec.cur["resets"].append((int(c_), bool(ans)))
            return ans
        return fn

    # -- snapshots
    def snap(self) -> dict:
        m = self.m
        W = [np.array(w, dtype=float).copy() for w in m.W] if hasattr(self.base, "W") else []
        adj = np.array(m.adjacency)
        mask = np.array(m._permanent_mask)
        return {
            "Wv": W, "W": [self.wi(w) for w in W], "ids": list(self.ids),
            "cnt": [int(t) for t in m.weight_sample_counter_], "n": int(m.sample_counter_),
            "adj_shape": tuple(adj.shape),
            "adj": [[int(v) for v in row] for row in adj] if adj.ndim == 2 else [],
            "perm": [bool(v) for v in mask] if mask.ndim == 1 else [],
            "perm_shape": tuple(mask.shape),
            "labels": [int(t) for t in m.labels_] if "labels_" in m.__dict__ else [],
        }


def state_of_kv(kv: dict) -> dict:
    adj = [] if kv["adj"] == "-" else [parse_nats(r) for r in kv["adj"].split("|")]
    return {"W": parse_nats(kv["W"]), "ids": parse_nats(kv["ids"]), "cnt": parse_nats(kv["cnt"]), "n": int(kv["n"]),
            "adj": adj, "perm": [] if kv["perm"] == "-" else [c == "1" for c in kv["perm"]],
            "labels": [] if kv["labels"] == "-" else [int(t) for t in kv["labels"].split(",")]}


STATE_FIELDS = ("W", "ids", "cnt", "n", "adj", "perm", "labels")


def state_diff(model: dict, impl: dict):
    for k in STATE_FIELDS:
        if model[k] != impl[k]:
            return f"{k}: impl {impl[k]} model {model[k]}"
    return None


# ------------------------------------------------------------------ protocol line


def ktab_str(rec: Rec) -> str:
    nx = len(rec.xi.ids)
    blocks = []
    for xid in range(nx):
        blk = rec.tab.get(xid, {"new": None, "e": {}})
        ents = []
        for wid in sorted(blk["e"]):
            T, M, U, L = blk["e"][wid]
            ents.append("%d:%s:%s:%s:%s" % (wid, "?" if T is None else f2hex(T), "?" if M is None else f2hex(M),
                                            "?" if U is None else U, "?" if L is None else L))
        blocks.append(("?" if blk["new"] is None else str(blk["new"])) + "/" + (",".join(ents) if ents else "-"))
    return ";".join(blocks) if blocks else "-"


def vt_str(vt, nsteps: int, width: int) -> str:
    if vt is None:
        return "-"
    rows = ["".join("1" if vt[g][c] else "0" for c in range(width)) for g in range(nsteps)]
    return "|".join(rows) if rows else "0"


# ------------------------------------------------------------------ oracle (implementation alone)


def cls_call(base, name, *a):
    """un-instrumented kernel call (class function, bypasses the instance wrappers)"""
    return getattr(type(base), name)(base, *a)


def oracle_step(ctx, rec: Rec, st: dict, post: dict, mode: str, has_reset: bool, entry: str, cls: str, rep: dict,
                presented: int, wiped: bool):
    """two-winner rule + shapes + label range for one sample, from snapshots"""
    cov = ctx.cov
    m, base = rec.m, rec.base
    tag = f"TopoART[{cls}].{entry}"
    pre, mid = st["pre"], st["mid"]
    nb, na = len(pre["Wv"]), len(mid["Wv"])
    c, x = st["ret"], st["x"]
    repl = dict(rep, step=st["g"])
    # ---- shapes / diagonal after the sample (after the pruning round, if any)
    for nm, s in (("after-step", mid), ("after-sample", post)):
        nW = len(s["Wv"])
        ok = (s["adj_shape"] == (nW, nW) and len(s["cnt"]) == nW and s["perm_shape"] == (nW,)
              and all(s["adj"][k][k] == 0 for k in range(nW)))
        if not ok:
            ctx.issue("violation", f"{tag}:shape", f"{nm} step {st['g']}: |W|={nW} adjacency {s['adj_shape']} "
                      f"mask {s['perm_shape']} |cnt|={len(s['cnt'])} diag={[s['adj'][k][k] for k in range(min(nW, len(s['adj'])))]}", repl)
            return
    nW = len(post["Wv"])
    lab = post["labels"][:presented]
    bad = [t for t in lab if not (t == -1 or 0 <= t < nW)]
    if bad:
        ctx.issue("violation", f"{tag}:label-range", f"step {st['g']}: labels {lab} with |W|={nW}", repl)
    if (-1 in lab) and not wiped:
        ctx.issue("violation", f"{tag}:minus-one-without-wipe-out", f"step {st['g']}: labels {lab}", repl)
    # ---- "all sample labels are re-indexed consistently", end to end for the sample just presented: once its cycle
    # (two-winner step, label write, pruning round if one is due) is over, its label is the category the step returned
    # carried through that round's re-indexing (re-predicted when that category was removed, -1 when nothing is left);
    # the labels of the samples presented before it are those the round left (or unchanged, without a round)
    row = presented - 1
    if 0 <= row < len(post["labels"]) and st["prune"] is not None and None not in st["prune"][2]:
        _, post_p, kept_pos, _ = st["prune"]
        if c in kept_pos:
            exp, how = kept_pos.index(c), f"survivor {c} of {kept_pos} re-indexed"
        elif kept_pos:
            with quiet():
                T = [float(cls_call(base, "category_choice", x, w, m.params)[0]) for w in post_p["Wv"]]
            exp, how = int(np.argmax(T)), f"category {c} removed (survivors {kept_pos}): re-predicted"
            cov.hit("closing-sample-orphaned-and-re-predicted")
        else:
            exp, how = -1, "nothing survived"
        before = post_p["labels"][:row]
        if c in kept_pos and kept_pos.index(c) != c:
            cov.hit(f"closing-sample's-category-changes-index:{entry}")
    elif 0 <= row < len(post["labels"]) and st["prune"] is None:
        exp, how, before = c, "no pruning round", pre["labels"][:row]
    else:
        exp = None
    if exp is not None:
        if post["labels"][row] != exp:
            ctx.issue("violation", f"{tag}:label-of-sample-not-reindexed" if st["prune"] is not None else f"{tag}:label-of-sample",
                      f"step {st['g']} (row {row}): the step returned category {c}, {how}, so the sample's label is {exp}; "
                      f"labels_[{row}]={post['labels'][row]} after the sample's cycle (|W|={nW}, labels {lab})", repl)
        elif post["labels"][:row] != before:
            ctx.issue("violation", f"{tag}:earlier-labels-changed-outside-pruning", f"step {st['g']}: labels of rows "
                      f"0..{row - 1} {before} -> {post['labels'][:row]}", repl)
        else:
            cov.hit("label-of-sample=step-result-through-re-indexing")
    # ---- frame of the step
    if mid["n"] != pre["n"] + 1:
        ctx.issue("violation", f"{tag}:sample-counter", f"step {st['g']}: n {pre['n']} -> {mid['n']}", repl)
    if nb == 0:
        if not (c == 0 and na == 1 and mid["cnt"] == [1] and mid["adj"] == [[0]] and mid["perm"] == [False]):
            ctx.issue("violation", f"{tag}:first-sample", f"step {st['g']}: label {c}, |W|={na}, cnt {mid['cnt']}", repl)
        return
    params = base.params
    lower = dict(params, beta=m.params["beta_lower"])
    changed = [k for k in range(min(nb, na)) if not np.array_equal(pre["Wv"][k], mid["Wv"][k], equal_nan=True)]
    cntd = [mid["cnt"][k] - pre["cnt"][k] for k in range(min(nb, na))]
    adjd = [(i, j, mid["adj"][i][j] - pre["adj"][i][j]) for i in range(nb) for j in range(nb)
            if mid["adj"][i][j] != pre["adj"][i][j]] if na >= nb else None
    if c == nb:
        cov.hit("new-category")
        ok = (na == nb + 1 and not changed and not any(cntd) and mid["cnt"][-1] == 1 and adjd == []
              and all(v == 0 for v in mid["adj"][-1]) and all(row[-1] == 0 for row in mid["adj"])
              and mid["perm"] == pre["perm"] + [False])
        if ok:
            with quiet():
                wn = np.array(cls_call(base, "new_weight", x, params), dtype=float)
            ok = np.array_equal(wn, mid["Wv"][-1], equal_nan=True)
        if not ok:
            ctx.issue("violation", f"{tag}:new-category-frame", f"step {st['g']}: label {c}=|W|, |W| {nb}->{na}, "
                      f"changed {changed}, cnt diff {cntd}, adj diff {adjd}", repl)
        second = None
    else:
        if not (0 <= c < nb and na == nb and mid["perm"] == pre["perm"]):
            ctx.issue("violation", f"{tag}:frame", f"step {st['g']}: label {c}, |W| {nb}->{na}", repl)
            return
        others = [k for k in range(nb) if k != c and cntd[k] != 0]
        if cntd[c] != 1 or len(others) > 1 or any(cntd[k] != 1 for k in others) or any(k != c and k not in others for k in changed):
            ctx.issue("violation", f"{tag}:two-winner-frame", f"step {st['g']}: best {c}, counter diff {cntd}, "
                      f"weights changed {changed}", repl)
            return
        second = others[0] if others else None
        exp_adj = [] if second is None else [(c, second, 1)]
        if adjd != exp_adj:
            ctx.issue("violation", f"{tag}:edge", f"step {st['g']}: best {c} second {second}, adjacency diff {adjd}", repl)
        cov.hit("second-winner-found" if second is not None else "no-second-winner")
        # the rates: best at beta, second at beta_lower (class-level kernel calls on the weights before the step)
        op = m._match_tracking_operator(mode)
        with quiet():
            for k, prm, what in ((c, params, "best@beta"), (second, lower, "second@beta_lower")):
                if k is None:
                    continue
                w0 = pre["Wv"][k]
                _, cache = cls_call(base, "category_choice", x, w0, params)
                _, cache = cls_call(base, "match_criterion_bin", x, w0, params, cache, op)
                w1 = np.array(cls_call(base, "update", x, w0, prm, cache), dtype=float)
                if not np.array_equal(w1, mid["Wv"][k], equal_nan=True):
                    ctx.issue("violation", f"{tag}:rate:{what}", f"step {st['g']}: category {k} is not update(x, w, "
                              f"beta={prm['beta']})", repl)
                else:
                    # and an independent evaluation of the published update rule at that rate
                    try:
                        from .C03 import reference
                        cls_name = type(base).__name__
                        dd = len(x) // 2 if cls_name == "FuzzyART" else len(x)
                        with np.errstate(all="ignore"):
                            wr = reference(cls_name, prm, dd, np.asarray(x, dtype=float), np.asarray(w0, dtype=float), [1])[2]
                        if wr.shape != w1.shape or not np.allclose(wr, mid["Wv"][k], rtol=1e-9, atol=1e-9, equal_nan=True):
                            ctx.issue("violation", f"{tag}:rate:{what}:published-rule",
                                      f"step {st['g']}: category {k} became {np.asarray(mid['Wv'][k]).tolist()}, the update rule at "
                                      f"beta={prm['beta']} gives {wr.tolist()}", repl)
                        cov.hit("rate-vs-published-rule")
                    except (KeyError, ZeroDivisionError):
                        pass
    # ---- which categories: the statement, without a reset function
    if not has_reset:
        op = m._match_tracking_operator(mode)
        with quiet():
            T, passing = [], []
            for k, w0 in enumerate(pre["Wv"]):
                t, cache = cls_call(base, "category_choice", x, w0, params)
                mb, _ = cls_call(base, "match_criterion_bin", x, w0, params, cache, op)
                T.append(float(t))
                passing.append(bool(mb))
        order = [k for k in sorted_live(T) if passing[k]]
        exp_best = order[0] if order else nb
        exp_second = order[1] if len(order) > 1 else None
        if (c, second) != (exp_best, exp_second if c != nb else None):
            ctx.issue("violation", f"{tag}:winners", f"step {st['g']}: best/second {c}/{second}, statement gives "
                      f"{exp_best}/{exp_second} (T={T}, passing={passing})", repl)
    else:
        ans = dict(st["resets"])
        op = m._match_tracking_operator(mode)
        rho0 = float(params["rho"])
        nveto = sum(1 for (_, a) in st["resets"] if not a)
        for k in (c if c != nb else None, second):
            if k is None:
                continue
            if ans.get(k) is False:
                ctx.issue("violation", f"{tag}:vetoed-winner", f"step {st['g']}: category {k} learned although vetoed", repl)
            # "vigilance-passing": against the configured vigilance; MT- may lower it by eps per vetoed match
            with quiet():
                w0 = pre["Wv"][k]
                _, cache = cls_call(base, "category_choice", x, w0, params)
                _, cache = cls_call(base, "match_criterion_bin", x, w0, params, cache, op)
            Mk = float(cache["match_criterion"])
            okv = (Mk >= rho0 - nveto * rep["eps"] - 1e-12) if mode == "MT-" else bool(op(Mk, rho0))
            if not okv:
                rec.lowered = True
                ctx.issue("violation", "TopoART.step_fit:learned-below-configured-vigilance",
                          f"step {st['g']} ({cls}, {mode}, eps={rep['eps']}): category {k} learned with match value {Mk} "
                          f"against configured rho={rho0}; thresholds in force {[r_ for (_, _, r_) in st['visits']]}, "
                          f"reset answers {st['resets']}, match bits {[(c_, b_) for (c_, b_, _) in st['visits']]}", repl)


def oracle_prune(ctx, rec: Rec, st: dict, cls: str, rep: dict, phi: int):
    cov = ctx.cov
    m, base = rec.m, rec.base
    tag = f"TopoART[{cls}].prune"
    pre, post, kept_pos, nrows = st["prune"]
    repl = dict(rep, step=st["g"])
    nb = len(pre["Wv"])
    if not (len(pre["cnt"]) == nb and len(pre["perm"]) == nb):
        return
    keep = [k for k in range(nb) if pre["perm"][k] or pre["cnt"][k] >= phi]
    if kept_pos != keep:
        ctx.issue("violation", f"{tag}:kept-set", f"step {st['g']}: kept {kept_pos}, statement gives {keep} "
                  f"(perm {pre['perm']}, cnt {pre['cnt']}, phi {phi})", repl)
        return
    cov.hit("prune-removes-all" if not keep else ("prune-removes-some" if len(keep) < nb else "prune-removes-none"))
    ok = (post["cnt"] == [pre["cnt"][k] for k in keep] and post["perm"] == [True] * len(keep)
          and post["adj"] == [[pre["adj"][i][j] for j in keep] for i in keep]
          and all(np.array_equal(post["Wv"][j], pre["Wv"][k], equal_nan=True) for j, k in enumerate(keep)))
    if not ok:
        ctx.issue("violation", f"{tag}:reindex", f"step {st['g']}: survivors {keep}: cnt {pre['cnt']}->{post['cnt']}, "
                  f"perm ->{post['perm']}, adjacency {pre['adj']}->{post['adj']}", repl)
    # labels of all rows of X
    X = rep["_Xfit"]
    for i in range(min(nrows, len(pre["labels"]))):
        l0, l1 = pre["labels"][i], post["labels"][i]
        if l0 in keep:
            exp = keep.index(l0)
        elif keep:
            with quiet():
                T = [float(cls_call(base, "category_choice", X[i], w, m.params)[0]) for w in post["Wv"]]
            exp = int(np.argmax(T))
            cov.hit("relabel-by-prediction")
        else:
            exp = -1
        if l1 != exp:
            ctx.issue("violation", f"{tag}:labels", f"step {st['g']}: row {i} label {l0} -> {l1}, statement gives {exp} "
                      f"(survivors {keep})", repl)
            break
    if post["labels"][nrows:] != pre["labels"][nrows:]:
        ctx.issue("violation", f"{tag}:labels-beyond-X", f"step {st['g']}", repl)


def track_labels(ctx, rec: Rec, track: list, st: dict, post: dict, entry: str, cls: str, rep: dict):
    """"all sample labels are re-indexed consistently", end to end over the whole history: the label of EVERY sample
    presented so far is the category its own step returned, carried through every pruning round since (its index among
    the survivors; re-predicted when the category was removed; -1 when nothing survived) — whatever else was called in
    between (frames of fit_gif, visualize, predict).  `track` holds those expected labels; the survivors of a round are
    read off the identity of the weight objects (not off labels_).  Returns the new track (None: tracking stops)."""
    m, base = rec.m, rec.base
    track = track + [st["ret"]]
    if st["prune"] is not None:
        _, post_p, kept_pos, nrows = st["prune"]
        if None in kept_pos or entry == "partial_fit":
            return None
        X = rep["_Xfit"]
        new = []
        for i, l in enumerate(track):
            if i >= nrows:
                new.append(l)
            elif l in kept_pos:
                new.append(kept_pos.index(l))
            elif kept_pos:
                with quiet():
                    T = [float(cls_call(base, "category_choice", X[i], w, m.params)[0]) for w in post_p["Wv"]]
                new.append(int(np.argmax(T)))
            else:
                new.append(-1)
        track = new
    got = post["labels"][:len(track)]
    if len(got) != len(track):
        return None
    if got != track:
        rows = [i for i in range(len(track)) if got[i] != track[i]]
        ctx.issue("violation", f"TopoART[{cls}].{entry}:labels-are-not-the-step-results-carried-through-the-rounds",
                  f"after the cycle of step {st['g']} (|W|={len(post['Wv'])}): rows {rows[:8]} carry labels "
                  f"{[got[i] for i in rows[:8]]}; the categories their steps returned, re-indexed by every pruning round "
                  f"since, are {[track[i] for i in rows[:8]]} (labels_ {got}, expected {track})",
                  {k: v for k, v in dict(rep, step=st["g"]).items() if k != "_Xfit"})
        return list(got)            # report each departure once
    ctx.cov.hit("labels=step-results-carried-through-all-rounds")
    return track


def oracle_quiescent(ctx, rec: Rec, last, track, now: dict, cls: str, what: str, rep: dict) -> bool:
    """The statement names the only events that change the five parallel structures: a sample's cycle (two-winner
    step, label write, pruning round).  Hence between two cycles — across predict, visualize, plot_cluster_bounds, and
    from the end of one training call to the first sample of a continuing partial_fit — weights, counters, permanence
    flags, adjacency and the labels of the samples presented so far are what the last cycle left."""
    if last is None:
        return True
    bad = [k for k in ("W", "cnt", "n", "adj", "perm") if now[k] != last[k]]
    nl = len(last["labels"])
    if now["labels"][:nl] != last["labels"]:
        bad.append("labels")
    elif track is not None and now["labels"][:len(track)] != track:
        bad.append("labels")
    if bad:
        rows = [i for i in range(min(nl, len(now["labels"]))) if now["labels"][i] != last["labels"][i]]
        ctx.issue("violation", f"TopoART[{cls}].{what}:state-changed-outside-a-sample's-cycle",
                  f"{what} (no sample presented) changed {bad}: " +
                  (f"labels_ of rows {rows[:8]} {[last['labels'][i] for i in rows[:8]]} -> {[now['labels'][i] for i in rows[:8]]} "
                   f"(|W|={len(now['Wv'])}); " if "labels" in bad else "") +
                  "; ".join(f"{k} {last[k]} -> {now[k]}" for k in bad if k != "labels")[:400], rep)
        return False
    ctx.cov.hit(f"state-unchanged-outside-training:{what}")
    return True


# ------------------------------------------------------------------ cases


def make_case(ctx, i: int):
    r = gen.rng_for(ctx.seed, "C14", i)
    cls = specs.HAS_BETA[i % 4]
    mode = MODES[(i // 4) % 5]
    tau = 2 + (i // 20) % 7                      # 2..8
    phi = r.randint(1, tau)
    if r.random() < 0.25:
        phi = tau if r.random() < 0.5 else 1
    d = r.randint(1, 3)
    floats = r.random() < 0.3
    has_reset = r.random() < 0.5
    eps = r.choice([0.0, 2.0 ** -20, 2.0 ** -10, 1e-10, 0.125])
    bspec = specs.elem_spec(r, cls, specs.width(cls, d) if cls != "FuzzyART" else d)
    # vigilance spread: low rho gives second winners, high rho gives wipe-outs
    t = r.random()
    if t < 0.3:
        bspec["rho"] = r.choice([0.0, 0.25]) if not (cls == "FuzzyART" and bspec.get("alpha") == 0.0) else 0.25
        if cls in ("HypersphereART", "EllipsoidART") and bspec["rho"] == 0.0 and bspec.get("alpha") == 0.0:
            bspec["alpha"] = 2.0 ** -10
    elif t < 0.5:
        bspec["rho"] = r.choice([0.875, 1.0])
    beta = bspec["beta"]
    beta_lower = r.choice([beta, beta / 2, beta / 4, 0.0])
    total = r.randint(tau, 6 * tau)
    style = r.choice(["fit", "fit", "fit", "fit-pred-fit", "fit-pfit", "pfit", "pfit-fit", "fit-empty"])
    X = specs.elem_data(r, cls, total, d, floats=floats)
    calls = []           # (kind, lo, hi)
    if style == "fit":
        calls = [("fit", 0, total), ("pred", 0, min(total, 5))]
    elif style == "fit-pred-fit":
        k = r.randint(1, total)
        calls = [("fit", 0, k), ("pred", 0, k), ("fit", 0, total), ("pred", 0, min(total, 4))]
    elif style == "fit-pfit":
        k = r.randint(1, total)
        calls = [("fit", 0, k)]
        lo = k
        for p in gen.compositions(r, total - k):
            calls.append(("pfit", lo, lo + p))
            lo += p
        calls.append(("pred", 0, min(total, 4)))
    elif style == "pfit":
        lo = 0
        for p in gen.compositions(r, total):
            calls.append(("pfit", lo, lo + p))
            lo += p
        calls.append(("pred", 0, min(total, 4)))
    elif style == "pfit-fit":
        k = r.randint(1, total)
        calls = [("pfit", 0, k), ("fit", 0, total)]
    else:
        k = r.randint(1, total - 1)
        calls = [("fit", 0, k), ("fit", 0, 0), ("pred", 0, min(k, 3)), ("pfit", k, total)]
    nsteps = sum(hi - lo for kd, lo, hi in calls if kd != "pred")
    vt = gen.veto_table(r, nsteps, nsteps + 1) if has_reset else None
    spec = {"cls": "TopoART", "base_module": bspec, "beta_lower": float(beta_lower), "tau": tau, "phi": phi}
    return dict(i=i, cls=cls, mode=mode, eps=eps, spec=spec, X=X, calls=calls, vt=vt, tau=tau, phi=phi, style=style)


def make_reconf_case(ctx, i: int, seed=None):
    """Histories in which TopoART's own hyper-parameters (beta_lower, tau, phi) are re-assigned by plain attribute
    assignment (`est.beta_lower = v`, routed into `est.params` by BaseART.__setattr__) on an estimator that has already
    trained, followed by more training (fit: restarts; partial_fit: continues).  Calls ("set", name, value) sit between
    the training calls; every configuration along the history is valid (beta >= beta_lower, tau >= phi >= 1).  The
    Lean line carries one (tau, phi) per history, so these cases are judged by the oracle alone."""
    seed = ctx.seed if seed is None else seed
    r = gen.rng_for(seed, "C14-reconf", i)
    cls = specs.HAS_BETA[i % 4]
    mode = MODES[(i // 4) % 5]
    tau = r.randint(2, 8)
    phi = r.randint(1, tau)
    d = r.randint(1, 3)
    floats = r.random() < 0.4
    has_reset = r.random() < 0.3
    eps = r.choice([0.0, 2.0 ** -20, 2.0 ** -10, 1e-10, 0.125])
    bspec = specs.elem_spec(r, cls, specs.width(cls, d) if cls != "FuzzyART" else d)
    if r.random() < 0.75:                       # low vigilance: second winners before and after the re-assignment
        bspec["rho"] = r.choice([0.0, 0.25]) if not (cls == "FuzzyART" and bspec.get("alpha") == 0.0) else 0.25
        if cls in ("HypersphereART", "EllipsoidART") and bspec["rho"] == 0.0 and bspec.get("alpha") == 0.0:
            bspec["alpha"] = 2.0 ** -10
    beta = bspec["beta"]
    rates = [beta, beta / 2, beta / 4, beta / 8, 0.0]
    beta_lower = r.choice(rates)
    nseg = r.randint(2, 3)
    seg = [r.randint(max(2, tau), 3 * tau) for _ in range(nseg)]
    total = sum(seg)
    X = specs.elem_data(r, cls, total, d, floats=floats)
    calls, lo = [], 0
    cur = {"beta_lower": float(beta_lower), "tau": tau, "phi": phi}
    for s_, n in enumerate(seg):
        if s_ > 0:
            names = ["beta_lower"] if r.random() < 0.6 else r.sample(["beta_lower", "tau", "phi"], r.randint(1, 3))
            for nm in names:
                if nm == "beta_lower":
                    v = float(r.choice([t for t in rates if t != cur[nm]] or rates))
                elif nm == "tau":                       # each single assignment leaves a valid configuration
                    v = r.randint(max(2, cur["phi"]), 9)
                else:
                    v = r.randint(1, cur["tau"])
                cur[nm] = v
                calls.append(("set", nm, v))
        kind = "fit" if (s_ == 0 and r.random() < 0.7) or (s_ > 0 and r.random() < 0.5) else "pfit"
        if kind == "fit":
            calls.append(("fit", 0, lo + n) if r.random() < 0.5 else ("fit", lo, lo + n))
        else:
            q = lo
            for p in gen.compositions(r, n):
                calls.append(("pfit", q, q + p))
                q += p
        lo += n
    calls.append(("pred", 0, min(total, 4)))
    nsteps = sum(hi - lo_ for kd, lo_, hi in calls if kd in ("fit", "pfit"))
    vt = gen.veto_table(r, nsteps, nsteps + 1) if has_reset else None
    spec = {"cls": "TopoART", "base_module": bspec, "beta_lower": float(beta_lower), "tau": tau, "phi": phi}
    return dict(i=i, cls=cls, mode=mode, eps=eps, spec=spec, X=X, calls=calls, vt=vt, tau=tau, phi=phi,
                style="reconf", reconf=True, seed=seed)


# ------------------------------------------------------------------ fit_gif: the third training entry point
#
# `fit_gif` is BaseART's training loop with one animation frame per sample (pre_step_fit, step_fit, label write,
# post_step_fit = TopoART's pruning schedule, frame), inherited by TopoART: a history whose training call is `fit_gif`
# is a history of the property like one through `fit` — two winners per sample, a pruning round every tau samples
# DURING the call, everything re-indexed together.  Frames cost ~50 ms each, so the data sets are small (6..14 rows of
# 2 features), tau is 2..4 so that several rounds fall inside the call, and every case is picked by a cheap pilot
# (`fit` on the same rows, no frames) among a dozen candidates: one in which a round removes a category, preferably
# such that the sample that closes the round sits in a category whose index changes in that round (or that is removed).


def _matplotlib():
    try:
        import matplotlib
        matplotlib.use("Agg")
        import matplotlib.pyplot as plt
        return matplotlib, plt
    except Exception:
        return None


def fit_gif_call(m, B, palette=None, **kw):
    """est.fit_gif through the public API: Agg backend, small figure, the gif in a temporary directory; `palette` =
    n_cluster_estimate (default: more colours than rows)"""
    import tempfile
    matplotlib, plt = _matplotlib()
    with tempfile.TemporaryDirectory(prefix="artv-c14-gif-") as tmp, matplotlib.rc_context({"figure.figsize": (1.0, 1.0)}):
        try:
            m.fit_gif(B, filename=f"{tmp}/topo.gif", n_cluster_estimate=len(B) + 1 if palette is None else palette,
                      fps=50, **kw)
        finally:
            plt.close("all")


def _gif_candidate(r, cls: str, i: int):
    mode = r.choice(MODES)
    tau = r.randint(2, 4)
    phi = r.randint(2, tau) if r.random() < 0.8 else 1
    has_reset = r.random() < 0.25
    eps = r.choice([0.0, 2.0 ** -20, 2.0 ** -10, 0.125])
    bspec = specs.elem_spec(r, cls, 2)
    if r.random() < 0.7:                         # high vigilance: many categories, the isolated ones get removed
        bspec["rho"] = r.choice([0.625, 0.75, 0.875, 1.0])
    beta = bspec["beta"]
    beta_lower = r.choice([beta, beta / 2, beta / 4, 0.0])
    n = r.randint(6, 14)                         # rows of the fit_gif call
    extra = r.randint(2, 6)                      # rows for the calls before / after it
    # dense spots (presented several times) and isolated points (once), in a random order
    pool = specs.elem_data(r, cls, r.randint(3, 7), 2, floats=r.random() < 0.3)
    if cls == "ART2A":
        pool = pool[np.any(pool != 0, axis=1)] if np.any(pool != 0) else pool
    ndense = r.randint(1, max(1, len(pool) // 2))
    idx = [r.randrange(ndense) if r.random() < 0.65 else r.randrange(len(pool)) for _ in range(n + extra)]
    X = np.array(pool[idx], dtype=float)
    style = r.choice(["gif", "gif", "fit-gif", "pfit-gif", "gif-pfit", "gif-pred-pfit"])
    total = n + extra
    if style == "gif":
        calls = [("gif", 0, n), ("pred", 0, min(n, 4))]
    elif style == "fit-gif":                     # a trained estimator: fit_gif starts again like fit
        calls = [("fit", r.choice([0, n]), total), ("gif", 0, n), ("pred", 0, min(n, 4))]
    elif style == "pfit-gif":
        calls = [("pfit", n, total), ("gif", 0, n)]
    elif style == "gif-pfit":                    # partial_fit continues the model fit_gif left
        calls = [("gif", 0, n), ("pfit", n, total), ("pred", 0, min(total, 4))]
    else:
        calls = [("gif", 0, n), ("pred", 0, min(n, 3)), ("pfit", n, total)]
    nsteps = sum(hi - lo for kd, lo, hi in calls if kd != "pred")
    vt = gen.veto_table(r, nsteps, nsteps + 1) if has_reset else None
    spec = {"cls": "TopoART", "base_module": bspec, "beta_lower": float(beta_lower), "tau": tau, "phi": phi}
    return dict(i=i, cls=cls, mode=mode, eps=eps, spec=spec, X=X, calls=calls, vt=vt, tau=tau, phi=phi,
                style=style, gif=True)


def _gif_pilot(case: dict):
    """(rounds in which the closing sample's category survives with another index, rounds with survivors in which it is
    removed, rounds in which it moves or is removed at all, rounds that remove a category) of a plain `fit` on the rows
    of the fit_gif call, with the same veto rows; zeros when the pilot raises"""
    calls = case["calls"]
    k = next(j for j, cl in enumerate(calls) if cl[0] == "gif")
    g0 = sum(hi - lo for kd, lo, hi in calls[:k] if kd != "pred")
    _, lo, hi = calls[k]
    try:
        with quiet():
            m = make(case["spec"])
            rec = Rec(m, case["vt"])
            rec.g = g0
            m.fit(case["X"][lo:hi], match_reset_func=rec.reset_func() if case["vt"] is not None else None,
                  match_tracking=case["mode"], epsilon=case["eps"])
    except Exception:
        return 0, 0, 0, 0
    shifted = orphaned = moved = removing = 0
    for st in rec.steps:
        if st["prune"] is None or st["ret"] is None:
            continue
        pre_p, post_p, kept_pos, _ = st["prune"]
        if len(post_p["Wv"]) < len(pre_p["Wv"]):
            removing += 1
            c = st["ret"]
            if c not in kept_pos or kept_pos.index(c) != c:
                moved += 1
                shifted += 1 if c in kept_pos else 0
                orphaned += 1 if (kept_pos and c not in kept_pos) else 0
    return shifted, orphaned, moved, removing


def make_gif_case(ctx, i: int, seed=None):
    seed = ctx.seed if seed is None else seed
    r = gen.rng_for(seed, "C14-gif", i)
    cls = specs.HAS_BETA[(i + seed) % 4]
    best, best_key, want = None, None, (i // 4) % 2       # alternately: survives with another index / is removed
    for _ in range(12):
        cand = _gif_candidate(r, cls, i)
        score = _gif_pilot(cand)
        key = (score[want], score[1 - want]) + score[2:]
        if best_key is None or key > best_key:
            best, best_key, best_score = cand, key, score
        if key[0] >= 1:
            break
    best["seed"], best["pilot"] = seed, best_score
    return best


# ------------------------------------------------------------------ plotting calls inside a history
#
# A history of the property may contain calls that present no sample: `predict`, and the plotting routines
# (`visualize`, `plot_cluster_bounds`, the frame `fit_gif` draws after every sample with the estimator's OWN `labels_`
# array).  The cases above draw every fit_gif frame with more colours than rows; here the palette is SMALLER than the
# number of categories alive at a frame (`n_cluster_estimate` 1..2, i.e. 2..3 colours) and a pruning round follows, or
# `visualize` / `plot_cluster_bounds` is called between two training calls with the estimator's own labels_ (or a
# copy) and a colour list of 1..2 entries / the default palette / a long one.  Oracle: the same per-sample clauses,
# plus the end-to-end label clause (`track_labels`) and `oracle_quiescent` across every call that presents no sample.
# Each case is picked by a pilot without drawing (fit instead of fit_gif) among a few candidates: one in which a
# presented sample carries a label >= the number of colours at the plotting call.

VIZ_HOWS = ["visualize:own-labels:short-colors", "visualize:own-labels:default-colors", "visualize:own-labels:short-colors",
            "plot_cluster_bounds::short-colors", "visualize:copied-labels:short-colors", "visualize:own-labels:long-colors",
            "visualize:own-labels:short-colors"]
VIZ_PALETTE = ["r", "g", "b", "c", "m", "y", "k"]


def viz_call(m, rows, how: str, ncol: int):
    """one plotting call through the public API (Agg backend, small figure)"""
    matplotlib, plt = _matplotlib()
    what, whose, pal = how.split(":")
    with matplotlib.rc_context({"figure.figsize": (1.0, 1.0)}):
        try:
            _, ax = plt.subplots()
            n = ncol if pal == "short-colors" else len(m.W) + 3
            colors = None if pal == "default-colors" else [VIZ_PALETTE[k % len(VIZ_PALETTE)] for k in range(n)]
            if what == "plot_cluster_bounds":
                m.plot_cluster_bounds(ax, colors)
            else:
                y = m.labels_ if whose == "own-labels" else np.array(m.labels_)
                m.visualize(rows, y, ax=ax, colors=colors)
        finally:
            plt.close("all")


def _plot_candidate(r, cls: str, i: int, flow: str):
    mode = r.choice(MODES)
    tau = r.randint(3, 6)
    phi = r.randint(2, min(tau, 3)) if r.random() < 0.8 else 1
    has_reset = r.random() < 0.2
    eps = r.choice([0.0, 2.0 ** -20, 2.0 ** -10, 0.125])
    bspec = specs.elem_spec(r, cls, 2)
    if r.random() < 0.8:                         # high vigilance: more categories than colours
        bspec["rho"] = r.choice([0.75, 0.875, 0.9375, 1.0])
    beta = bspec["beta"]
    beta_lower = r.choice([beta, beta / 2, beta / 4, 0.0])
    n = r.randint(8, 14)
    extra = r.randint(2, 6)
    pool = specs.elem_data(r, cls, r.randint(5, 9), 2, floats=r.random() < 0.3)
    if cls == "ART2A":
        pool = pool[np.any(pool != 0, axis=1)] if np.any(pool != 0) else pool
    ndense = r.randint(min(3, len(pool)), max(min(3, len(pool)), (2 * len(pool)) // 3))
    idx = [r.randrange(ndense) if r.random() < 0.7 else r.randrange(len(pool)) for _ in range(n + extra)]
    X = np.array(pool[idx], dtype=float)
    total = n + extra
    palette = None
    ncol = r.choice([1, 2, 2])
    how = VIZ_HOWS[(i // 2) % len(VIZ_HOWS)]
    viz = ("viz", how, ncol)
    if flow == "gif":
        palette = r.choice([1, 1, 2])            # n_cluster_estimate: palette + 1 colours
        ncol = palette + 1
        style = r.choice(["gif", "gif", "gif-pfit", "fit-gif"])
        calls = {"gif": [("gif", 0, n), ("pred", 0, min(n, 3))],
                 "gif-pfit": [("gif", 0, n), ("pfit", n, total), ("pred", 0, min(total, 3))],
                 "fit-gif": [("fit", n, total), ("gif", 0, n)]}[style]
    else:
        k = r.randint(2, n - 1)
        style = r.choice(["fit-viz-pfit", "fit-viz-pfit", "pfit-viz-pfit", "fit-pfit-viz-pfit", "fit-viz-pred-viz-pfit"])
        calls = {"fit-viz-pfit": [("fit", 0, n), viz, ("pfit", n, total), ("pred", 0, min(total, 3))],
                 "pfit-viz-pfit": [("pfit", 0, k), viz, ("pfit", k, n), ("pred", 0, min(n, 3))],
                 "fit-pfit-viz-pfit": [("fit", 0, k), ("pfit", k, n), viz, ("pfit", n, total)],
                 "fit-viz-pred-viz-pfit": [("fit", 0, n), viz, ("pred", 0, min(n, 3)), viz, ("pfit", n, total)]}[style]
    nsteps = sum(hi - lo for kd, lo, hi in calls if kd in ("fit", "pfit", "gif"))
    vt = gen.veto_table(r, nsteps, nsteps + 1) if has_reset else None
    spec = {"cls": "TopoART", "base_module": bspec, "beta_lower": float(beta_lower), "tau": tau, "phi": phi}
    return dict(i=i, cls=cls, mode=mode, eps=eps, spec=spec, X=X, calls=calls, vt=vt, tau=tau, phi=phi,
                style=style, plot=True, flow=flow, palette=palette, ncol=ncol)


def _plot_pilot(case: dict):
    """the history without drawing (fit for fit_gif, plotting calls skipped) -> (plotting calls / frames at which a
    presented sample carries a label >= the number of colours, pruning rounds after the first such frame, of which
    remove a category); zeros when the pilot raises"""
    ncol = case["ncol"]
    over = rounds = removing = 0
    try:
        with quiet():
            m = make(case["spec"])
            rec = Rec(m, case["vt"])
            reset = rec.reset_func() if case["vt"] is not None else None
            kw = dict(match_reset_func=reset, match_tracking=case["mode"], epsilon=case["eps"])
            for kd, lo, hi in case["calls"]:
                if kd == "viz":
                    short = lo.endswith("short-colors") and lo.startswith("visualize")
                    over += 1 if any(t >= (ncol if short else 1) for t in m.labels_) else 0
                elif kd in ("fit", "gif"):
                    rec.steps = []
                    m.fit(case["X"][lo:hi], **kw)
                    if kd == "gif":
                        steps = rec.steps
                        posts = [s["pre"] for s in steps[1:]] + [rec.snap()]
                        for k, (st, post) in enumerate(zip(steps, posts)):
                            if over and st["prune"] is not None:
                                rounds += 1
                                removing += 1 if len(st["prune"][1]["Wv"]) < len(st["prune"][0]["Wv"]) else 0
                            over += 1 if any(t >= ncol for t in post["labels"][:k + 1]) else 0
                elif kd == "pfit":
                    m.partial_fit(case["X"][lo:hi], **kw)
    except Exception:
        return 0, 0, 0
    return over, rounds, removing


def make_plot_case(ctx, i: int, seed=None):
    seed = ctx.seed if seed is None else seed
    r = gen.rng_for(seed, "C14-plot", i)
    cls = specs.HAS_BETA[(i + seed) % 4]
    flow = "gif" if i % 7 in (0, 3) else "viz"
    best, best_key = None, None
    for _ in range(10):
        cand = _plot_candidate(r, cls, i, flow)
        score = _plot_pilot(cand)
        key = (min(score[0], 1), min(score[1], 1), score[2], score[0]) if flow == "gif" else (score[0],)
        if best_key is None or key > best_key:
            best, best_key, best_score = cand, key, score
        if key[0] >= 1 and (flow == "viz" or key[1] >= 1):
            break
    best["seed"], best["pilot"] = seed, best_score
    return best


def run_case(ctx, case: dict):
    """drive the implementation; returns (protocol line, per-call expectations) or None"""
    cov = ctx.cov
    cls, mode, eps, spec, X, calls, vt = (case[k] for k in ("cls", "mode", "eps", "spec", "X", "calls", "vt"))
    tau, phi = case["tau"], case["phi"]
    has_reset = vt is not None
    reconf = bool(case.get("reconf"))
    rep = {"case": case["i"], "spec": spec, "X": X, "calls": calls, "mode": mode, "eps": eps, "veto": vt}
    if reconf:
        rep["reconf"], rep["seed"] = True, case["seed"]
    if case.get("gif"):
        rep["gif"], rep["seed"] = True, case["seed"]
    if case.get("plot"):
        rep["plot"], rep["seed"], rep["n_cluster_estimate"] = True, case["seed"], case["palette"]
    track = None                   # expected labels of the rows presented so far (track_labels)
    last = None                    # the state the last call left (oracle_quiescent)
    shown: list = []               # (lo, hi) ranges of X behind labels_
    overflowed = False             # a fit_gif frame was drawn with fewer colours than a presented sample's label
    reassigned: list = []          # hyper-parameters re-assigned so far (by attribute assignment)
    seconds_before = 0             # second-winner updates before the first re-assignment
    try:
        m = make(spec)
    except Exception as e:
        ctx.issue("violation", f"TopoART[{cls}].__init__:{exc_enum(e)}", f"constructor raised {e!r}", rep)
        return None
    rec = Rec(m, vt)
    reset = rec.reset_func() if has_reset else None
    expect = []          # per call: ("train", entry, steps, final snapshot) | ("pred", labels|exc)
    parts = []
    nontrivial = False
    for kd, lo, hi in calls:
        B = X[lo:hi] if kd not in ("set", "viz") else None
        if kd == "viz":
            # a plotting call between two training calls: presents no sample
            how, ncol = lo, hi
            rows = np.concatenate([X[a:b] for a, b in shown]) if shown else X[:0]
            if last is None or "labels_" not in m.__dict__ or len(rows) != len(m.labels_):
                cov.hit("plot:skipped(no-trained-state)")
                continue
            over = bool(len(m.labels_)) and int(np.max(m.labels_)) >= (ncol if how.endswith("short-colors") else len(m.W) + 3)
            try:
                with quiet():
                    viz_call(m, rows, how, ncol)
                cov.hit(f"plot:{how}:drawn" + (":a-label>=number-of-colours" if over else ""))
            except Exception as e:
                cov.hit(f"plot:{how}:raised:{exc_enum(e)}")          # tolerated: the property does not speak about drawing
            now = rec.snap()
            if not oracle_quiescent(ctx, rec, last, track, now, cls, how.split(":")[0], dict(rep, after_call=[kd, lo, hi])):
                track = now["labels"][:len(track)] if track is not None else None
            last = now
            continue
        if kd == "pred":
            xids = [rec.xi(x) for x in B]
            try:
                with quiet():
                    y = [int(t) for t in m.predict(B)]
                expect.append(("pred", y, None))
            except Exception as e:
                expect.append(("pred", None, exc_enum(e)))
                if len(m.W) == 0:
                    cov.hit("predict-on-emptied-model-raises(F14,C08)")
            if last is not None:
                now = rec.snap()
                if not oracle_quiescent(ctx, rec, last, track, now, cls, "predict", dict(rep, after_call=[kd, lo, hi])):
                    track = now["labels"][:len(track)] if track is not None else None
                last = now
            parts.append("pred " + (",".join(map(str, xids)) if xids else "-"))
            continue
        if kd == "set":
            # plain attribute assignment of one of TopoART's own hyper-parameters; from here on the statement is read
            # with the configuration the estimator REPORTS (get_params), which the generator keeps valid
            name, value = lo, hi
            trained = rec.g > 0
            try:
                with quiet():
                    setattr(m, name, value)
                    reported = dict(m.get_params())
                    type(m).validate_params(reported)
            except Exception as e:
                ctx.issue("violation", f"TopoART[{cls}].setattr({name}):{exc_enum(e)}",
                          f"assigning {name}={value!r} (a valid configuration) raised {e!r}", rep)
                return None
            tau, phi = reported["tau"], reported["phi"]
            if reported.get(name) == value:
                reassigned.append(name)
                cov.hit(f"reassign:{name}" + (":after-training" if trained else ":before-training"))
            # a second winner may now legitimately learn a different weight from the same (x, w)
            for blk in rec.tab.values():
                for e in blk["e"].values():
                    e[3] = None
            continue
        entry = {"fit": "fit", "gif": "fit_gif"}.get(kd, "partial_fit")
        fitlike = kd in ("fit", "gif")           # restarts the model, runs the pruning hook after every sample
        rec.steps = []
        raised = None
        rec.core_raised = False
        if fitlike:
            rec.ids = []
        try:
            with quiet():
                if kd == "fit":
                    m.fit(B, match_reset_func=reset, match_tracking=mode, epsilon=eps)
                elif kd == "gif":
                    fit_gif_call(m, B, palette=case.get("palette"), match_reset_func=reset, match_tracking=mode, epsilon=eps)
                else:
                    m.partial_fit(B, match_reset_func=reset, match_tracking=mode, epsilon=eps)
        except Exception as e:
            raised = e
        if kd == "gif" and raised is not None and not rec.core_raised:
            # the exception left the drawing / file-writing part of fit_gif, not TopoART's step or pruning round: the
            # property does not speak about frames (recorded in the coverage, the case is not judged)
            cov.hit(f"fit_gif:frame-drawing-raised:{exc_enum(raised)}")
            cov.case((cls, spec, X.tolist(), calls, mode, eps, vt), False)
            return None
        fin = rec.snap()
        steps = rec.steps
        parts.append(("fit " if fitlike else "pfit ") +
                     (",".join(f"{st['g']}:{st['xid']}" for st in steps) if steps else "-"))
        # post-state of each sample = pre-state of the next one, or the final state
        posts = [steps[k + 1]["pre"] for k in range(len(steps) - 1)] + ([fin] if steps else [])
        if raised is not None:
            steps = [st for st in steps if st["ret"] is not None]     # the completed samples
            posts = posts[:len(steps)]
        expect.append(("train", entry, steps, posts, fin))
        # ---------------- oracle on the implementation alone
        nW = len(fin["Wv"])
        if raised is None and (fin["adj_shape"] != (nW, nW) or fin["perm_shape"] != (nW,)):
            sig = f"TopoART.{entry}:zero-rows-stale-adjacency" if (fitlike and hi == lo) else f"TopoART[{cls}].{entry}:shape"
            ctx.issue("violation", sig, f"after {entry} of {hi - lo} rows: |W|={nW}, adjacency {fin['adj_shape']}, "
                      f"mask {fin['perm_shape']}", rep)
        wiped = False
        base_rows = len(steps[0]["pre"]["labels"]) - (hi - lo) if (steps and kd == "pfit") else 0
        if kd == "pfit" and steps:
            wiped = -1 in steps[0]["pre"]["labels"]      # inherited from an earlier fit
        repo = dict(rep, _Xfit=B)
        shown = [(lo, hi)] if fitlike else shown + [(lo, hi)]
        if fitlike:
            track = []
        elif steps:
            # a continuing partial_fit starts from the state the last call left (labels_ padded for the new rows)
            if not oracle_quiescent(ctx, rec, last, track, steps[0]["pre"], cls, "between-training-calls", rep):
                track = None
            if track is None or len(track) != base_rows:
                track = steps[0]["pre"]["labels"][:base_rows] if last is not None or base_rows == 0 else None
        for k, (st, post) in enumerate(zip(steps, posts)):
            if track is not None:
                track = track_labels(ctx, rec, track, st, post, entry, cls, repo)
            if kd == "gif" and case.get("palette") is not None:
                if overflowed and st["prune"] is not None:
                    cov.hit("fit_gif:pruning-round-after-a-frame-with-fewer-colours-than-categories")
                if any(t >= case["palette"] + 1 for t in post["labels"][:k + 1]):
                    overflowed = True
                    cov.hit("fit_gif:frame-with-fewer-colours-than-categories")
            if st["prune"] is not None:
                nontrivial = nontrivial or not case.get("gif")
                oracle_prune(ctx, rec, st, cls, repo, phi)
                if not st["prune"][1]["Wv"]:
                    wiped = True
                if kd == "gif":
                    npre, npost = len(st["prune"][0]["Wv"]), len(st["prune"][1]["Wv"])
                    cov.hit("fit_gif:pruning-round-during-the-call" + (":removes-all" if not npost else
                                                                      ":removes-some" if npost < npre else ":removes-none"))
                    nontrivial = nontrivial or npost < npre
            presented = base_rows + k + 1 if kd == "pfit" else k + 1
            oracle_step(ctx, rec, st, post, mode, has_reset, entry + ("[after-reassignment]" if reassigned else ""),
                        cls, rep, presented, wiped)
            if any(cc is not None and rr >= 0 for (cc, rr, _) in st["updates"]):
                nontrivial = nontrivial or not (reconf or case.get("gif"))
                if reconf and not reassigned:
                    seconds_before += 1
                elif reconf:
                    nontrivial = True
                    cov.hit("second-winner-after-reassignment:" + entry)
                    if seconds_before and "beta_lower" in reassigned:
                        cov.hit("second-winner-before-and-after-beta_lower-reassignment")
            if has_reset and any((not a) and mb for (_, a), (_, mb, _) in zip(st["resets"], st["visits"])):
                cov.hit(f"veto-with-tracking:{mode}")       # a category that passed was vetoed
            if has_reset and any((not a) and not mb for (_, a), (_, mb, _) in zip(st["resets"], st["visits"])):
                cov.hit("veto-of-nonmatching-category")
            # the schedule: every tau samples a pruning round has happened
            if post["n"] % tau == 0:
                if fitlike and st["prune"] is None:
                    ctx.issue("violation", f"TopoART[{cls}].{entry}:no-prune-at-tau", f"step {st['g']}: n={post['n']}", rep)
                pending = [j for j in range(len(post["Wv"])) if not (j < len(post["perm"]) and post["perm"][j])]
                if pending:
                    sig = ("TopoART.partial_fit:no-prune-at-tau" if kd == "pfit"
                           else f"TopoART[{cls}].{entry}:non-permanent-survivor")
                    ctx.issue("violation", sig, f"sample_counter_={post['n']} is a multiple of tau={tau} but categories "
                              f"{pending} (counts {[post['cnt'][j] for j in pending]}, phi={phi}) were neither removed "
                              f"nor made permanent after the {entry} step", rep)
            elif st["prune"] is not None:
                ctx.issue("violation", f"TopoART[{cls}].{entry}:prune-off-schedule", f"step {st['g']}: n={post['n']}", rep)
        if raised is not None:
            if rec.lowered and exc_enum(raised) == "zerodiv":
                sig = "TopoART.train:zerodiv-after-vigilance-lowered"
            else:
                sig = f"TopoART[{cls}].{entry}:{exc_enum(raised)}"
            ctx.issue("violation", sig, f"training raised {raised!r} on validated data (mode {mode}, reset={has_reset}, "
                      f"{cls} {spec['base_module']})", rep)
            cov.case((cls, spec, X.tolist(), calls, mode, eps, vt), False)
            return None
        last = fin
    if case.get("plot"):
        nontrivial = bool(case["pilot"][0] and (case["flow"] == "viz" or case["pilot"][1]))
    if reconf:
        # no model line: the Lean history carries one (tau, phi) and one lower rate per (x, w)
        cov.case((cls, spec, X.tolist(), calls, mode, eps, vt), nontrivial)
        return None
    if rec.conflicts:
        ctx.issue("diff", f"topo:{cls}:kernel-table", "; ".join(rec.conflicts[:3]), rep)
        return None
    rho = spec["base_module"]["rho"]
    line = "topo %s %s %s %d %d %s %s # %s" % (mode, f2hex(eps), f2hex(rho), tau, phi,
                                              vt_str(vt, rec.g, rec.g + 1), ktab_str(rec), " # ".join(parts))
    key = (cls, spec, X.tolist(), calls, mode, eps, vt)
    cov.case(key, nontrivial)
    cov.traces += 1
    if case["i"] < 3:
        cov.sample({"class": cls, "spec": spec, "mode": mode, "eps": eps, "calls": calls, "reset": has_reset,
                    "final_labels": expect[-1][4]["labels"] if expect[-1][0] == "train" else None})
    return line, expect, rep


def compare(ctx, case, line, out, expect, rep):
    cls, mode = case["cls"], case["mode"]
    has_reset = case["vt"] is not None
    rep = dict(rep, line=line, model=out)
    segs = out.split(" # ")
    if out == "bad-op" or len(segs) != len(expect):
        ctx.issue("diff", f"topo:{cls}:protocol", f"model answered {out[:200]!r} for {len(expect)} calls", rep)
        return
    for seg, ex in zip(segs, expect):
        if ex[0] == "pred":
            _, y, exc = ex
            got = None
            if seg.startswith("pred="):
                body = seg.split("=", 1)[1]
                got = [] if body == "-" else [None if t == "x" else int(t) for t in body.split(",")]
            if got is None:
                ctx.issue("diff", f"topo:{cls}:pred", f"model answered {seg[:100]!r}", rep)
            elif exc is not None:
                # np.argmax of an empty sequence raises <=> the model has no arg-max (finding F14, property C08)
                if not (got and all(t is None for t in got) and exc == "value"):
                    ctx.issue("diff", f"topo:{cls}:pred-exception", f"predict raised {exc}, model {got}", rep)
            elif got != y:
                ctx.issue("diff", f"topo:{cls}:pred", f"impl {y} model {got}", rep)
            continue
        _, entry, steps, posts, fin = ex
        recs = seg.split(" ; ")
        # the model runs a fit_gif call as a fit call; the two differ only in the labels of the rows NOT yet presented
        # (fit starts from zeros, fit_gif from -1): those are compared on the rows presented so far
        upto = (lambda st_, k_: (dict(st_, labels=st_["labels"][:k_]) if entry == "fit_gif" else st_))
        if len(recs) != len(steps) + 1 or not recs[-1].startswith("end "):
            ctx.issue("diff", f"topo:{cls}:protocol", f"{len(recs)} records for {len(steps)} steps", rep)
            return
        for kstep, (st, post, rs) in enumerate(zip(steps, posts, recs)):
            kv = parse_kv(rs)
            where = f"case {case['i']} {entry} step {st['g']}"
            if kv["V"] == "unrecorded-match":
                ctx.issue("diff", f"topo:{cls}:visits", f"{where}: model visited a category the code did not", rep)
                return
            if int(kv["L"]) != st["ret"]:
                ctx.issue("diff", f"topo:{cls}:label", f"{where}: impl {st['ret']} model {kv['L']}", rep)
                return
            mv = [] if kv["V"] == "-" else [v.split(":") for v in kv["V"].split(",")]
            mod_vis = [(int(v[0]), v[2] == "1", v[1]) for v in mv]
            imp_vis = [(c, mb, f2hex(rho)) for (c, mb, rho) in st["visits"]]
            if mod_vis != imp_vis:
                # the model ran on the estimator's OWN recorded activations, match values and reset answers: C14 fixes
                # the thresholds in force along both searches, so a different sequence is a violation at this step
                ctx.issue("violation", f"TopoART[{cls}]:search-differs-from-rule", f"{where}: (category, match bit, threshold in force) impl {imp_vis} "
                          f"model {mod_vis}", rep)
                return
            if has_reset and [(int(v[0]), v[3] == "1") for v in mv] != st["resets"]:
                ctx.issue("diff", f"topo:{cls}:resets", f"{where}: reset calls {st['resets']} model {mv}", rep)
                return
            ups = st["updates"]
            ib = str(ups[0][0]) if ups else "-"
            is_ = str(ups[1][0]) if len(ups) > 1 else "-"
            if (kv["B"], kv["S"]) != (ib, is_):
                ctx.issue("violation", f"TopoART[{cls}]:winners-differ-from-rule", f"{where}: the estimator updated best/second {ib}/{is_}; the "
                          f"two-winner rule applied to the recorded activations, match values and reset answers gives {kv['B']}/{kv['S']}", rep)
                return
            if (kv["P"] == "1") != (st["prune"] is not None):
                ctx.issue("diff", f"topo:{cls}:schedule", f"{where}: impl pruned={st['prune'] is not None} model P={kv['P']}", rep)
                return
            dff = state_diff(upto(state_of_kv(kv), kstep + 1), upto(post, kstep + 1))
            if dff:
                ctx.issue("diff", f"topo:{cls}:state", f"{where}: {dff}", rep)
                return
        dff = state_diff(upto(state_of_kv(parse_kv(recs[-1])), len(steps)), upto(fin, len(steps)))
        if dff:
            ctx.issue("diff", f"topo:{cls}:final-state", f"case {case['i']} after {entry}: {dff}", rep)
            return



# ------------------------------------------------------------------ long streams concentrated on one edge
#
# "For each sample TopoART ... increments the edge count from best to second-best": the count of an ordered pair is the
# number of samples for which that pair was (best, second-best) — for every history, hence also for a very long stream
# whose samples all fall between the same two categories (tens of thousands of co-activations of ONE ordered pair).
# The cases above have at most 6*tau <= 48 samples, so no edge count ever exceeds a few dozen.  Here the estimator is
# driven un-instrumented (only `prune` is observed, to know whether a category was ever removed) through the public
# API, and the statement is read off the public state after every training call:
#   * every sample adds one to the counter of its best category (the label it gets, also when that category is new)
#     and one to the counter of its second-best, and one to adjacency[best, second]; therefore, as long as no category
#     was removed, for every category s:   sum_b adjacency[b, s] == weight_sample_counter_[s] - #(labels_ == s)
#     (= the number of second-winner updates s received; with two categories this fixes every single cell);
#   * an edge count never goes down while no category is removed;
#   * adjacency is square with one row per category and a zero diagonal.


LONG_TARGET_QUICK = 2 ** 16 + 8          # co-activations of one ordered pair, quick tier (about 5 s, once per run)
LONG_TARGET_THOROUGH = 73728             # >= 70000 rows of the same midpoint sample
LONG_BATCH = 8192


def _long_candidates(r, cls: str, d: int):
    """(a, b) = two far-apart points of [0,1]^d whose midpoint is exact, in an order that the pilot run filters"""
    out = []
    for k in range(18):
        m_ = r.choice([0.0, 0.0, 0.125, 0.0625]) if k < 8 else r.choice([0.25, 0.375, 0.4375, 0.46875])   # then closer pairs
        bits = [r.random() < 0.5 for _ in range(d)]
        if cls == "ART2A" and d > 1 and len(set(bits)) == 1:      # a zero vector has no direction
            bits[r.randrange(d)] = not bits[0]
        a = [(1.0 - m_) if t else m_ for t in bits]
        b = [1.0 - v for v in a]
        out.append((a, b, r.choice([0.25, 0.4, 0.5, 0.125, 0.0625])))
    return out


def make_long_case(ctx, i: int, seed=None, target=None, entry=None):
    """Two categories A, B (optionally a third, unrelated one created before / between / after them) and then ONE sample,
    the exact midpoint of A and B, presented `target` times or more; vigilance low enough for the midpoint to resonate
    with both.  The geometry / vigilance is picked among random candidates by a pilot run (64 rows; 2048 for the full-length
    streams) on a scratch estimator (a candidate qualifies when the pilot puts all its co-activations on one ordered pair)."""
    seed = ctx.seed if seed is None else seed
    r = gen.rng_for(seed, "C14-long", i)
    cls = specs.HAS_BETA[(i + seed) % 4]
    d = r.randint(2, 3) if cls == "ART2A" else r.randint(1, 3)
    bspec0 = specs.elem_spec(r, cls, d)
    beta = bspec0["beta"]
    beta_lower = float(r.choice([beta, beta / 2, beta / 4, 0.0]))
    phi = r.randint(1, 4)
    e0, t0 = r.choice(["pfit", "pfit", "fit"]), r.randint(150, 700)      # always drawn: a replay passes both explicitly
    entry, target = entry or e0, target or t0
    decoy_at = r.choice([None, None, 0, 1, 2])
    decoy = [r.randint(0, 16) / 16 for _ in range(d)]
    # fit prunes every tau samples (re-labelling all rows each time): keep the rounds few on long streams
    tau = r.choice([max(phi, 64), 128, 1000]) if target < 5000 else r.choice([4096, 10000, 50000])
    if entry == "pfit" and r.random() < 0.5:
        tau = r.randint(max(2, phi), 8)
    enc = (lambda rows: gen.cc(np.array(rows, dtype=float))) if cls == "FuzzyART" else (lambda rows: np.array(rows, dtype=float))
    chosen = None
    npilot = 64 if target < 5000 else 2048        # an ordering that flips does so within the first few hundred rows
    for a, b, rho in _long_candidates(r, cls, d):
        bspec = dict(bspec0, rho=rho)
        if cls in ("HypersphereART", "EllipsoidART") and bspec.get("alpha") == 0.0:
            bspec["alpha"] = 2.0 ** -10
        spec = {"cls": "TopoART", "base_module": bspec, "beta_lower": beta_lower, "tau": max(tau, 128), "phi": phi}
        head = [a, b]
        if decoy_at is not None:
            head.insert(decoy_at, decoy)
        mid = [(u + v) / 2 for u, v in zip(a, b)]
        try:
            with quiet():
                p = make(spec)
                p.partial_fit(enc(head))
                n0 = p.n_clusters
                p.partial_fit(enc([mid] * npilot))
                adj = np.asarray(p.adjacency)
            if p.n_clusters == n0 >= 2 and adj.ndim == 2 and int(adj.max()) == npilot:
                chosen = (a, b, mid, head, dict(spec, tau=tau))
                break
        except Exception:
            continue
    if chosen is None:
        return None
    a, b, mid, head, spec = chosen
    return dict(i=i, seed=seed, cls=cls, spec=spec, head=head, mid=mid, target=target, entry=entry, enc=enc,
                tau=tau, phi=phi)


def run_long_case(ctx, case: dict):
    cov = ctx.cov
    cls, spec, head, mid, target, entry, enc = (case[k] for k in ("cls", "spec", "head", "mid", "target", "entry", "enc"))
    tag = f"TopoART[{cls}].long-stream"
    rep = {"long": True, "case": case["i"], "seed": case["seed"], "target": target, "entry": entry, "spec": spec,
           "head_rows": head, "repeated_row": mid,
           "how": "partial_fit(head_rows), then the repeated row in batches of <= %d rows (entry 'pfit'), or one fit of "
                  "head_rows + the repeated row `target` times (entry 'fit'); FuzzyART rows are complement-coded" % LONG_BATCH}
    try:
        m = make(spec)
    except Exception as e:
        ctx.issue("violation", f"TopoART[{cls}].__init__:{exc_enum(e)}", f"constructor raised {e!r}", rep)
        return
    removed = [0]
    o_prune = m.prune

    def prune(X):
        nb = len(m.W)
        o_prune(X)
        removed[0] += nb - len(m.W)
        cov.hit("long-stream:pruning-round" + (":removes" if nb != len(m.W) else ":keeps-all"))
    object.__setattr__(m, "prune", prune)

    prev = None          # adjacency after the previous training call
    presented = 0        # rows of the repeated sample presented so far
    reached = 0

    def observe(call: str) -> bool:
        """the statement on the public state after one training call; False = stop this case"""
        nonlocal prev, reached
        n = len(m.W)
        adj = np.asarray(m.adjacency)
        cnt = [int(t) for t in m.weight_sample_counter_]
        mask = np.asarray(m._permanent_mask)
        lab = np.asarray(m.labels_)
        repl = dict(rep, after=call, repeated_rows_presented=presented)
        if adj.shape != (n, n) or len(cnt) != n or mask.shape != (n,) or m.n_clusters != n or np.any(np.diag(adj) != 0):
            ctx.issue("violation", f"{tag}:shape", f"after {call}: |W|={n}, adjacency {adj.shape}, |cnt|={len(cnt)}, "
                      f"mask {mask.shape}, diagonal {np.diag(adj).tolist() if adj.ndim == 2 else None}", repl)
            return False
        if adj.dtype.kind not in "iuf" or not np.all(np.isfinite(adj)) or np.any(adj < 0) or np.any(adj != np.floor(adj)):
            ctx.issue("violation", f"{tag}:edge-count-not-a-count", f"after {call}: adjacency {adj.tolist()} ({adj.dtype})", repl)
            return False
        A = [[int(v) for v in row] for row in adj]
        if removed[0]:
            cov.hit("long-stream:category-removed(identity-not-applicable)")
            prev = None
            return False
        if len(lab) != int(m.sample_counter_) or any(not (0 <= int(t) < n) for t in np.unique(lab)):
            ctx.issue("violation", f"{tag}:labels", f"after {call}: {len(lab)} labels for sample_counter_="
                      f"{m.sample_counter_}, values {np.unique(lab).tolist()}, |W|={n}", repl)
            return False
        firsts = np.bincount(lab.astype(int), minlength=n)
        second_updates = [cnt[s] - int(firsts[s]) for s in range(n)]
        col = [sum(A[b_][s] for b_ in range(n)) for s in range(n)]
        if col != second_updates:
            s = next(s for s in range(n) if col[s] != second_updates[s])
            ctx.issue("violation", f"{tag}:edge-count-vs-second-winner-updates",
                      f"after {call} ({presented} presentations of the repeated row, no category ever removed): category {s} "
                      f"was the best category of {int(firsts[s])} samples and has weight_sample_counter_={cnt[s]}, i.e. it "
                      f"received {second_updates[s]} second-winner updates, but the edge counts into it sum to {col[s]} "
                      f"(adjacency={A}, dtype {adj.dtype}, counters {cnt})", repl)
            return False
        if prev is not None and len(prev) <= n:
            dec = [(i_, j_, prev[i_][j_], A[i_][j_]) for i_ in range(len(prev)) for j_ in range(len(prev))
                   if A[i_][j_] < prev[i_][j_]]
            if dec:
                ctx.issue("violation", f"{tag}:edge-count-decreased", f"after {call}: (best, second, before, after) {dec}", repl)
                return False
        prev = A
        reached = max([reached] + [v for row in A for v in row])
        cov.hit("long-stream:edge-count=second-winner-updates")
        return True

    nontrivial = False
    try:
        if entry == "fit":
            with quiet():
                m.fit(enc(head + [mid] * target))
            presented = target
            ok = observe(f"fit of {len(head)}+{target} rows")
        else:
            with quiet():
                m.partial_fit(enc(head))
            ok = observe("partial_fit(head_rows)")
            # batches of the repeated row until one ordered pair has `target` co-activations (or twice the budget is spent)
            sizes = gen.compositions(gen.rng_for(case["seed"], "C14-long-b", case["i"]), target) if target < 5000 else []
            k = 0
            while ok and reached < target and presented < 2 * target:
                nrows = sizes[k] if k < len(sizes) else min(LONG_BATCH, max(1, target - reached))
                k += 1
                with quiet():
                    m.partial_fit(enc([mid] * nrows))
                presented += nrows
                ok = observe(f"partial_fit batch {k} ({nrows} rows)")
    except Exception as e:
        ctx.issue("violation", f"{tag}:{exc_enum(e)}", f"training raised {e!r} after {presented} presentations of the "
                  f"repeated row ({cls} {spec['base_module']})", rep)
        ok = False
    if ok:
        # every count a stream can reach must be storable: a training set held in memory has fewer than 2**48 rows
        # (the whole address space of current machines, one byte per row); the per-category counters are unbounded ints
        adj = np.asarray(m.adjacency)
        cap = int(np.iinfo(adj.dtype).max) if adj.dtype.kind in "iu" else 2 ** (np.finfo(adj.dtype).nmant + 1)
        if cap < 2 ** 48:
            ctx.issue("violation", "TopoART.long-stream:edge-count-capacity",
                      f"edge counts are stored as {adj.dtype}, which counts exactly only up to {cap}: the {cap + 1}-th "
                      f"co-activation of one ordered pair cannot be recorded (weight_sample_counter_ holds unbounded ints: "
                      f"{[int(t) for t in m.weight_sample_counter_]}; {cls}, entry {entry})", dict(rep, repeated_rows_presented=presented))
        else:
            cov.hit("long-stream:edge-count-capacity>=2^48")
        nontrivial = reached >= min(target, 64)
        for lim, nm in ((64, "64"), (1000, "1000"), (2 ** 15, "2^15"), (2 ** 16, "2^16"), (70000, "70000")):
            if reached >= lim:
                cov.hit(f"long-stream:one-ordered-pair>={nm}-co-activations")
        cov.hit(f"long-stream:{entry}:{cls}")
        if len(m.W) > 2:
            cov.hit("long-stream:three-or-more-categories")
        if case["i"] < 2:
            cov.sample({"long_stream": cls, "entry": entry, "repeated_rows": presented, "max_edge_count": reached,
                        "counters": [int(t) for t in m.weight_sample_counter_]})
    cov.case(("long", cls, spec, head, mid, target, entry), nontrivial)


def run_long(ctx):
    # the full length: one ordered pair co-activated more than 2**16 times (quick: one base class, chosen by the seed;
    # thorough: >= 70000 rows, every base class, partial_fit batches and one single fit)
    target = ctx.scale(LONG_TARGET_QUICK, LONG_TARGET_THOROUGH)
    # (EllipsoidART steps cost about twice the others: its full-length stream is left to the thorough tier)
    q0 = 1000 if specs.HAS_BETA[(1000 + ctx.seed) % 4] != "EllipsoidART" else 1001
    todo = [(q0, "pfit")] if not ctx.thorough else [(1000 + k, e) for k in range(4) for e in ("pfit", "fit")]
    for i, e in todo:
        case = None
        for j in range(6):                # the pilot rejects a candidate set now and then: try the next index
            case = make_long_case(ctx, i + 4 * j, target=target, entry=e)
            if case is not None:
                break
        if case is None:
            ctx.cov.hit("long-stream:no-concentrated-configuration-found")
            continue
        run_long_case(ctx, case)
    # short streams, all four base classes, fit and partial_fit, with and without an unrelated third category
    for i in range(ctx.scale(16, 80)):
        case = make_long_case(ctx, i)
        if case is None:
            ctx.cov.hit("long-stream:no-concentrated-configuration-found")
            continue
        run_long_case(ctx, case)


def run_gif(ctx):
    if _matplotlib() is None:
        ctx.cov.hit("fit_gif:matplotlib-missing")
        return
    lines, meta = [], []
    for i in range(ctx.scale(9, 60)):
        case = make_gif_case(ctx, i)
        ctx.cov.hit("fit_gif:pilot:" + ("closing-sample's-category-survives-with-another-index" if case["pilot"][0] else
                                        "closing-sample's-category-removed" if case["pilot"][2] else
                                        "a-round-removes" if case["pilot"][3] else "no-removal-found"))
        res = run_case(ctx, case)
        if res is None:
            continue
        line, expect, rep = res
        ctx.cov.hit(f"fit_gif:{case['cls']}")
        ctx.cov.hit(f"fit_gif:history:{case['style']}")
        lines.append(line)
        meta.append((case, expect, rep))
    for line, out, (case, expect, rep) in zip(lines, run_driver(lines) if lines else [], meta):
        compare(ctx, case, line, out, expect, rep)


def run_plot(ctx):
    if _matplotlib() is None:
        ctx.cov.hit("plot:matplotlib-missing")
        return
    lines, meta = [], []
    for i in range(ctx.scale(14, 140)):
        case = make_plot_case(ctx, i)
        ctx.cov.hit(f"plot:pilot:{case['flow']}:" + ("no-label>=number-of-colours-found" if not case["pilot"][0] else
                                                    "label>=number-of-colours" + (":then-pruning-round" if case["pilot"][1] else "")
                                                    + (":that-removes" if case["pilot"][2] else "")))
        res = run_case(ctx, case)
        if res is None:
            continue
        line, expect, rep = res
        ctx.cov.hit(f"plot:{case['cls']}")
        ctx.cov.hit(f"plot:history:{case['style']}")
        lines.append(line)
        meta.append((case, expect, rep))
    for line, out, (case, expect, rep) in zip(lines, run_driver(lines) if lines else [], meta):
        compare(ctx, case, line, out, expect, rep)


def prepare(ctx):
    """Translator tie (see gen_tie.py): the source of this slice is re-translated to Lean on every run
    (harness/artv/ttrans.py) and proved equal to the model the property theorems are about"""
    from .gen_tie import gen_prepare, extra_theorems
    from .. import ttrans, ttrans2, wtrans
    whole = [t for t in extra_theorems("wtrans") if "topo" in t.lower()]
    gen_prepare(ctx, extra_theorems("ttrans") + extra_theorems("ttrans2") + whole + ['topo_match_tracking'],
                ttrans.COVERS + "; " + ttrans2.COVERS + "; " + wtrans.COVERS)

def run(ctx):
    N = ctx.scale(1200, 14000)
    lines, meta = [], []
    for i in range(N):
        case = make_case(ctx, i)
        res = run_case(ctx, case)
        if res is None:
            continue
        line, expect, rep = res
        lines.append(line)
        meta.append((case, expect, rep))
    outs = run_driver(lines)
    for line, out, (case, expect, rep) in zip(lines, outs, meta):
        compare(ctx, case, line, out, expect, rep)
    # hyper-parameters re-assigned by attribute assignment between training calls (oracle alone)
    for i in range(ctx.scale(160, 2000)):
        run_case(ctx, make_reconf_case(ctx, i))
    # very long streams concentrated on one ordered (best, second-best) pair (oracle alone)
    run_long(ctx)
    # histories whose training call is fit_gif, with pruning rounds during the call (model + oracle)
    run_gif(ctx)
    # plotting calls inside histories: small fit_gif palettes, visualize / plot_cluster_bounds between training calls
    run_plot(ctx)
    ctx.trusted.append("kernel tables: base-module kernel results interned by bytes at the call boundary (harness)")
    ctx.assumptions.append("weights are compared by value through interning; arithmetic of the kernels is C03's subject")


def replay(ctx, payload):
    rep = payload.get("replay") or {}
    if "case" not in rep:
        return 0
    if rep.get("long"):
        case = make_long_case(ctx, int(rep["case"]), rep.get("seed"), rep.get("target"), rep.get("entry"))
        if case is not None:
            run_long_case(ctx, case)
        return 0
    if (rep.get("gif") or rep.get("plot")) and _matplotlib() is None:
        return 0
    case = (make_reconf_case(ctx, int(rep["case"]), rep.get("seed")) if rep.get("reconf")
            else make_plot_case(ctx, int(rep["case"]), rep.get("seed")) if rep.get("plot")
            else make_gif_case(ctx, int(rep["case"]), rep.get("seed")) if rep.get("gif")
            else make_case(ctx, int(rep["case"])))
    res = run_case(ctx, case)
    if res:
        line, expect, rp = res
        compare(ctx, case, line, run_driver([line])[0], expect, rp)
    return 0
