"""Translator tie shared by C01, C03 and C09: regenerate lean/ArtGen/Kernels.lean from the Python source under
test (harness/artv/ktrans.py), rebuild ArtGenProofs/GenSpec.lean (Gen.<Class>.<fn> = the model's definition, for all
arguments) and audit the axioms of the named theorems.  A formula or a decision table changed in the source breaks
one of these obligations for ALL inputs at once; unsupported syntax makes the translator fail closed."""
from __future__ import annotations

import fcntl
import os
import re
import subprocess

import importlib

from .. import ktrans, ctrans, ftrans
from ..common import LEAN_DIR, REPO

# further translators (one module each, same interface: write(repo) -> (ok, msg), THEOREMS, COVERS), the generated file
# and the proof file that states `generated = model`; a module that is not present yet is skipped
EXTRA = [("vtrans", "VAT", "VATSpec"), ("dtrans", "Dual", "DualSpec"), ("ttrans", "Topo", "TopoSpec"), ("ttrans2", "TopoStep", "TopoStepSpec"), ("ftrans2", "FusionPredict", "FusionPredictSpec"),
         ("itrans", "ICVI", "ICVISpec"), ("ptrans", "Prep", "PrepSpec"), ("rtrans", "Falcon", "FalconSpec"),
         ("atrans", "ARTMAP", "ARTMAPSpec"), ("htrans", "Deep", "DeepSpec"), ("btrans", "Bartmap", "BartmapSpec"),
         ("k2trans", "Kernels2", "Kernels2Spec"), ("qtrans", "Params", "ParamsSpec"), ("gtrans", "Gate", "GateSpec"),
         ("wtrans", "Whole", "WholeSpec"), ("ftrans3", "FusionFit", "FusionFitSpec"), ("q2trans", "Params2", "Params2Spec"), ("xtrans", "Deleg", "DelegSpec"), ("p2trans", "Guards", "GuardsSpec"), ("gftrans", "FitGif", "FitGifSpec"), ("mtrans", "Misc", "MiscSpec"), ("q3trans", "Params3", "Params3Spec")]


def extra_translators():
    out = []
    wired = (LEAN_DIR / "ArtGenProofs.lean").read_text()
    for mod, gen_name, spec in EXTRA:
        if f"import ArtGenProofs.{spec}\n" in wired and (LEAN_DIR.parent / "harness" / "artv" / f"{mod}.py").exists():
            out.append((importlib.import_module(f"artv.{mod}"), gen_name, spec))
    return out


def extra_theorems(mod_name: str) -> list[str]:
    """THEOREMS of one of the further translators (names relative to Art.GenSpec)"""
    return list(importlib.import_module(f"artv.{mod_name}").THEOREMS)


def gen_prepare(ctx, theorems: list[str], covers: str):
    from ..framework import ALLOWED_AXIOMS
    names = ["Art.GenSpec." + t for t in theorems]
    ctx.extra_audit["obligations"] += len(names)
    ctx.trusted.append("source-to-Lean translators harness/artv/ktrans.py (straight-line kernels, decision tables) and "
                       "harness/artv/ctrans.py (statements: BaseART.step_fit / step_pred / predict / partial_fit / fit with their loops, "
                       "inlined add_weight / set_weight / _set_params / _deep_copy_params / hooks; dropped: the guard calls "
                       "validate_data, check_dimensions, check_is_fitted, the write-only flag is_fitted_, tqdm, the unused y); "
                       "and harness/artv/ftrans.py (FusionART's channel plumbing: comprehensions over range(self.n) with slices by "
                       "_channel_indices / _weight_indices, zip(*…), sum, all, np.concatenate, loops writing through modules[k]; the nested "
                       "estimators stay abstract objects); "
                       "Python AST -> Lean definitions, regenerated on every run, fail closed on unsupported syntax; covers " + covers)
    with open(LEAN_DIR / ".gen.lock", "w") as lock:
        fcntl.flock(lock, fcntl.LOCK_EX)
        try:
            ok, msg = ktrans.write(REPO)
            ctx.log.append(f"ktrans: {msg}")
            if not ok:
                ctx.issue("audit", "obligation:GenSpec:translator", f"translator could not translate the source: {msg}")
                return
            ok, msg = ctrans.write(REPO)
            ctx.log.append(f"ctrans: {msg}")
            if not ok:
                ctx.issue("audit", "obligation:ControlSpec:translator",
                          f"the control-flow translator could not translate the training code of BaseART / SimpleARTMAP: {msg}")
                return
            ok, msg = ftrans.write(REPO)
            ctx.log.append(f"ftrans: {msg}")
            if not ok:
                ctx.issue("audit", "obligation:FusionSpec:translator",
                          f"the FusionART translator could not translate artlib/fusion/FusionART.py: {msg}")
                return
            extras = extra_translators()
            for tr, gen_name, spec in extras:
                ok, msg = tr.write(REPO)
                ctx.log.append(f"{tr.__name__.split('.')[-1]}: {msg}")
                if not ok:
                    ctx.issue("audit", f"obligation:{spec}:translator",
                              f"the translator {tr.__name__.split('.')[-1]} could not translate the source ({tr.COVERS[:160]}): {msg}")
                    return
            p = subprocess.run(["lake", "build", "ArtGenProofs"], cwd=LEAN_DIR, capture_output=True, text=True)
            if p.returncode != 0:
                errs = [l for l in (p.stdout + p.stderr).split("\n") if "error" in l][:6]
                ctx.issue("audit", "obligation:GenSpec:build",
                          "definitions generated from the source are no longer provably equal to the model: " + " | ".join(errs)[:600],
                          {"generated_files": ["lean/ArtGen/Kernels.lean", "lean/ArtGen/Control.lean", "lean/ArtGen/Fusion.lean"]
                           + [f"lean/ArtGen/{g}.lean" for _, g, _ in extras], "errors": errs})
                return
            src = "import ArtGenProofs\n" + "\n".join(f"#print axioms {n}" for n in names) + "\n"
            tmp = LEAN_DIR / f".audit_gen_{os.getpid()}.lean"
            tmp.write_text(src)
            try:
                q = subprocess.run(["lake", "env", "lean", tmp.name], cwd=LEAN_DIR, capture_output=True, text=True)
            finally:
                tmp.unlink(missing_ok=True)
            flat = re.sub(r"\s+", " ", q.stdout + q.stderr)
            if getattr(ctx, "thorough", False):
                # thorough tier: the independent re-checker replays the compiled proof modules that state the named theorems
                pref = {"Control": ["ControlSpec", "ControlFit"], "VAT": ["VATSpec"], "Dual": ["DualSpec"], "Topo": ["TopoSpec"],
                        "TopoStep": ["TopoStepSpec"], "ICVI": ["ICVISpec"], "Prep": ["PrepSpec"], "Falcon": ["FalconSpec"],
                        "ARTMAP": ["ARTMAPSpec"], "Deep": ["DeepSpec"], "Bartmap": ["BartmapSpec"], "FusionPredict": ["FusionPredictSpec"],
                        "Gate": ["GateSpec"], "Whole": ["WholeSpec"], "K2": ["Kernels2Spec"], "Params": ["ParamsSpec"],
                        "FusionFit": ["FusionFitSpec"], "Params2": ["Params2Spec"], "Deleg": ["DelegSpec"], "Guards": ["GuardsSpec"], "FitGif": ["FitGifSpec"], "Misc": ["MiscSpec"], "Params3": ["Params3Spec"]}
                mods = set()
                for t in theorems:
                    head = t.split(".")[0] if "." in t else None
                    mods.update(pref.get(head, ["FusionSpec"] if t.startswith("fusion_") else ["GenSpec"]))
                for mod_ in sorted(mods):
                    if not (LEAN_DIR / "ArtGenProofs" / f"{mod_}.lean").exists():
                        continue
                    q_ = subprocess.run(["lake", "env", "leanchecker", f"ArtGenProofs.{mod_}"], cwd=LEAN_DIR, capture_output=True, text=True)
                    ctx.log.append(f"leanchecker ArtGenProofs.{mod_}: rc={q_.returncode}")
                    if q_.returncode != 0:
                        ctx.issue("audit", f"obligation:leanchecker:ArtGenProofs.{mod_}", (q_.stdout + q_.stderr)[-400:])
            for n in names:
                m = re.search(r"'" + re.escape(n) + r"' (does not depend on any axioms|depends on axioms: \[([^\]]*)\])", flat)
                if not m:
                    ctx.issue("audit", "obligation:GenSpec:" + n, "theorem not checked")
                    continue
                ax = [] if m.group(2) is None else [a.strip() for a in m.group(2).split(",") if a.strip()]
                ctx.extra_audit["axioms"][n] = ax
                if all(a in ALLOWED_AXIOMS for a in ax):
                    ctx.extra_audit["discharged"] += 1
                else:
                    ctx.issue("audit", "obligation:GenSpec:" + n, f"axioms {ax}")
        finally:
            if str(REPO) != "/repo":
                ktrans.write("/repo")      # leave the committed generated files describing /repo
                ctrans.write("/repo")
                ftrans.write("/repo")
                for tr, _, _ in extra_translators():
                    tr.write("/repo")
