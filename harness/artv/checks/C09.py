"""C09 — supervised maps are functional and consistent with every training
label.  Oracle on SimpleARTMAP / ARTMAP with every elementary class (and
DualVigilanceART / FusionART) as A-side, all five modes, arbitrary incl.
contradictory labels: map only grows, map_a2b(labels_a) == targets, predictions
are classes seen and equal map[predict_a], regression returns the B-side centre.
Tie: Lean SimpleARTMAP histories end-to-end on exact kernels."""
from __future__ import annotations

import numpy as np

from .. import gen, families, specs
from ..impl import quiet, exc_enum, make, MODES, SimpleARTMAP, ARTMAP
from . import e2e

RULE = ("cases = (A-side class, [B-side class], hyper-parameters, stream, label sequence incl. contradictory labels "
        "on identical rows, mode, epsilon, batching, epochs); checked after every call; non-trivial when >= 2 "
        "classes and >= 2 A-side categories exist; distinct by hash of (spec, stream, labels, mode, eps, batching)")

A_SIDES = specs.ELEM + ["DualVigilanceART", "FusionART"]


def a_side(r, cls, n):
    d = r.randint(1, 3)
    if cls in specs.ELEM:
        spec = specs.elem_spec(r, cls, specs.width(cls, d) if cls != "FuzzyART" else d)
        return spec, specs.elem_data(r, cls, n, d, style=r.choice(["dups", "coarse", "blobs", None]))
    fam, rows = families.build(r, cls, n)
    return fam.spec, rows.arrs["X"]


def prepare(ctx):
    """Translator tie (see gen_tie.py): SimpleARTMAP.match_reset_func is regenerated from the source and proved
    to be the negation of the model's veto"""
    from .gen_tie import gen_prepare, extra_theorems
    from .. import atrans
    gen_prepare(ctx, extra_theorems("atrans") + ["smap_match_reset", "Control.smap_step_via_generated", "Control.mapPut_if_absent", "Control.smap_lambda_eq",
                      "Control.smap_generated_step_fit", "Control.smap_step_pred_spec", "Control.smap_predict_spec",
                      "Control.smap_partial_fit_loop", "Control.smap_partial_fit_spec", "Control.smap_fit_epoch", "Control.smap_fit_spec"],
                "SimpleARTMAP.match_reset_func; the model's supervised step = generated BaseART.step_fit under the generated veto; " + atrans.COVERS)


def kw_pre(mode, eps):
    return dict(match_tracking=mode, epsilon=eps)


def run(ctx):
    cov = ctx.cov
    N = ctx.scale(360, 8000)
    nmax = ctx.scale(16, 60)
    for i in range(N):
        r = gen.rng_for(ctx.seed, "C09", i)
        acls = A_SIDES[i % len(A_SIDES)]
        mode = MODES[(i // len(A_SIDES)) % 5]
        eps = r.choice([1e-10, 0.0, 2.0 ** -20, 2.0 ** -10, 0.125])
        n = r.randint(1, nmax)
        aspec, X = a_side(r, acls, n)
        use_artmap = r.random() < 0.4
        kcls = r.randint(1, 4)
        if use_artmap:
            bcls = r.choice(["FuzzyART", "HypersphereART", "ART2A"])
            db = r.randint(1, 2)
            bspec = specs.elem_spec(r, bcls, specs.width(bcls, db) if bcls != "FuzzyART" else db)
            if bspec.get("alpha") == 0.0:
                bspec["alpha"] = 2.0 ** -10
            centers = gen.grid_rows(r, kcls, db, style="coarse")
            yraw = np.array([centers[r.randrange(kcls)] for _ in range(n)])
            y = gen.cc(yraw) if bcls == "FuzzyART" else yraw
            spec = {"cls": "ARTMAP", "module_a": aspec, "module_b": bspec}
        else:
            y = gen.labels(r, n, kcls)
            if r.random() < 0.35:
                y = y - r.choice([1, 2])          # class labels need not be 0..k-1: e.g. the {-1, +1} coding
            elif r.random() < 0.4:
                # large codes that differ by one (year-month stamps, ids): equality of labels is exact, not "close"
                y = y + r.choice([10 ** 5, 202401, 10 ** 9, 2 ** 40])
                cov.hit("large-adjacent-class-labels")
            spec = {"cls": "SimpleARTMAP", "module_a": aspec}
        desc = {"spec": spec, "X": X.tolist(), "y": y.tolist(), "mode": mode, "eps": eps}
        try:
            est = make(spec)
            if use_artmap and bcls == "FuzzyART":
                # documented workflow: targets go through prepare_data, which fixes the column bounds
                # get_cluster_centers needs; bounds [0,1] make it the identity on our [0,1] targets
                with quiet():
                    est.module_b.prepare_data(np.array([[0.0] * db, [1.0] * db]))
        except Exception as e:
            ctx.issue("violation", f"{spec['cls']}({acls}).__init__:{exc_enum(e)}", repr(e), desc)
            continue
        kw = dict(match_tracking=mode, epsilon=eps)
        parts = gen.compositions(r, n)
        epochs = r.choice([1, 1, 1, 2, 3])
        style = r.choice(["fit", "pfit", "refit"])
        calls = [("fit", 0, n)] if style == "fit" else []
        if style == "refit":
            # an earlier history with OTHER labels on the same estimator, then the fit under test
            try:
                with quiet():
                    if use_artmap:
                        est.fit(X[::-1].copy(), y[::-1].copy(), **kw_pre(mode, eps))
                    else:
                        est.fit(X, (np.asarray(y) - np.asarray(y).min() + 1 + r.randrange(3)) % (kcls + 2), **kw_pre(mode, eps))
            except Exception as e:
                ctx.issue("violation", f"{spec['cls']}({acls}).fit:{exc_enum(e)}", f"first fit raised {e!r}", desc)
                continue
            # use every observer on the first model, so that anything they memoise is in place before the re-fit
            try:
                with quiet():
                    est.map_a2b(np.asarray(est.labels_a))
                    est.map_a2b(int(np.asarray(est.labels_a)[0]))
                    est.predict(X[: min(n, 3)])
                    est.predict_ab(X[: min(n, 3)])
            except Exception as e:
                ctx.issue("violation", f"{spec['cls']}({acls}).observers-after-fit:{exc_enum(e)}", repr(e), desc)
                continue
            calls = [("fit", 0, n)]
            cov.hit("refit-with-other-labels")
        if style == "pfit":
            j = 0
            for p in parts:
                calls.append(("pfit", j, j + p))
                j += p
        prev_map = {}
        targets = []
        ok = True
        # class targets of successive batches need not share a dtype: category codes start narrow (int8 while there
        # are few classes) and widen as new classes appear in later batches
        widen = (not use_artmap) and style == "pfit" and len(calls) >= 2 and r.random() < 0.5
        if widen:
            y = np.abs(np.asarray(y, dtype=np.int64)) % 100
            first_b = calls[0][2]
            later = np.arange(first_b, n)
            if len(later):
                bump = later[[r.random() < 0.6 for _ in later]]
                y[bump] = y[bump] + r.choice([128, 200, 256, 300, 40000])
            desc["y"] = y.tolist()
            # every batch's dtype holds that batch's values exactly
            desc["label_dtype_per_batch"] = ["int8"] + [("int16" if int(np.max(y[a_:b_], initial=0)) < 2 ** 15 else r.choice(["int32", "int64"]))
                                                        for (_, a_, b_) in calls[1:]]
            cov.hit("label-dtype-widens-across-batches")

        def y_of(k_, a_, b_):
            if not widen:
                return y[a_:b_]
            return y[a_:b_].astype({"int8": np.int8, "int16": np.int16, "int32": np.int32, "int64": np.int64}[desc["label_dtype_per_batch"][k_]])
        for k, (op, a, b) in enumerate(calls):
            try:
                with quiet():
                    if op == "fit":
                        est.fit(X[a:b], y[a:b], max_iter=epochs, **kw)
                        prev_map = {}
                        targets = list(range(a, b))
                    else:
                        est.partial_fit(X[a:b], y_of(k, a, b), **kw)
                        targets += list(range(a, b))
            except Exception as e:
                sig = f"{spec['cls']}({acls}).{op}:{exc_enum(e)}"
                ctx.issue("violation", sig, f"{op} rows {a}:{b} raised {e!r} (mode {mode}, epochs {epochs})",
                          dict(desc, calls=calls, epochs=epochs))
                ok = False
                break
            cur = {int(p): int(q) for p, q in est.map.items()}
            rep = dict(desc, calls=calls, epochs=epochs, after_call=k)
            # functional for the whole history: entries never change
            changed = {c: (prev_map[c], cur.get(c)) for c in prev_map if cur.get(c) != prev_map[c]}
            if changed:
                ctx.issue("violation", f"{spec['cls']}:map-overwritten", f"entries changed: {changed}", rep)
            prev_map = cur
            na = est.module_a.n_clusters   # for DualVigilanceART these are the cluster labels step_fit returns
            la = np.asarray(est.labels_a)
            lb = np.asarray(est.labels_b)
            if len(la) != len(targets) or len(lb) != len(targets):
                ctx.issue("violation", f"{spec['cls']}:labels-length", f"labels_a {len(la)} labels_b {len(lb)} samples {len(targets)}", rep)
                continue
            if sorted(cur.keys()) != list(range(na)) or not set(la.tolist()) <= set(cur):
                ctx.issue("violation", f"{spec['cls']}:map-domain", f"map keys {sorted(cur)}, {na} A-side categories, A-labels used {sorted(set(la.tolist()))}", rep)
            try:
                mapped = np.asarray(est.map_a2b(la))
            except Exception as e:
                ctx.issue("violation", f"{spec['cls']}.map_a2b:{exc_enum(e)}", repr(e), rep)
                continue
            if not np.array_equal(mapped, lb):
                ctx.issue("violation", f"{spec['cls']}:map_a2b(labels_a)!=targets", f"mapped {mapped.tolist()} targets {lb.tolist()}", rep)
            try:
                one = [int(est.map_a2b(int(c))) for c in la.tolist()]
                if one != [int(cur[int(c)]) for c in la.tolist()]:
                    ctx.issue("violation", f"{spec['cls']}:map_a2b(scalar)!=map", f"{one} vs map {cur} on {la.tolist()}", rep)
            except Exception as e:
                ctx.issue("violation", f"{spec['cls']}.map_a2b(scalar):{exc_enum(e)}", repr(e), rep)
            if not use_artmap and not np.array_equal(lb, y[targets]):
                ctx.issue("violation", f"{spec['cls']}:labels_b!=y", f"labels_b {lb.tolist()} y {y[targets].tolist()}", rep)
            cov.hit(f"call-checked:{mode}")
        if not ok:
            cov.case((spec, desc["X"], desc["y"], mode, eps, calls), False)
            continue
        # predictions
        q = X[[r.randrange(n) for _ in range(min(n, 6))]]
        try:
            with quiet():
                p = np.asarray(est.predict(q))
                a_, b_ = est.predict_ab(q)
            seen = set(int(t) for t in np.asarray(est.labels_b))
            if not set(p.tolist()) <= seen:
                ctx.issue("violation", f"{spec['cls']}.predict:class-never-seen", f"{p.tolist()} seen {sorted(seen)}", desc)
            if [est.map[int(c)] for c in a_] != p.tolist() or not np.array_equal(np.asarray(b_), p):
                ctx.issue("violation", f"{spec['cls']}.predict!=map[predict_a]", f"a {list(a_)} b {list(b_)} p {p.tolist()}", desc)
            if use_artmap:
                with quiet():
                    reg = np.asarray(est.predict_regression(q))
                    cen = est.module_b.get_cluster_centers()
                want = np.array([cen[int(c)] for c in p])
                if reg.shape != want.shape or not np.allclose(reg, want, rtol=0, atol=0, equal_nan=True):
                    ctx.issue("violation", "ARTMAP.predict_regression!=B-centre", f"{reg.tolist()} vs {want.tolist()}", desc)
                cov.hit("regression-checked")
        except Exception as e:
            ctx.issue("violation", f"{spec['cls']}({acls}).predict:{exc_enum(e)}", f"predict raised {e!r}", desc)
        ncls = len(set(np.asarray(est.labels_b).tolist()))
        cov.case((spec, desc["X"], desc["y"], mode, eps, calls), ncls >= 2 and len(est.map) >= 2)
        if len(est.map) > ncls:
            cov.hit("several-categories-per-class")
        if i < 3:
            cov.sample({"spec": spec, "mode": mode, "eps": eps, "n": n, "calls": calls, "map": dict(est.map)})
    e2e.smap_histories(ctx, "C09", ctx.scale(200, 4000), ctx.scale(16, 60))
    e2e.smap_epoch_histories(ctx, "C09", ctx.scale(80, 1500), ctx.scale(12, 40))
