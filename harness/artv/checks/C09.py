"""C09 — supervised maps are functional and consistent with every training
label.  Oracle on SimpleARTMAP / ARTMAP with every elementary class (and
DualVigilanceART / FusionART) as A-side, all five modes, arbitrary incl.
contradictory labels: map only grows, map_a2b(labels_a) == targets, predictions
are classes seen and equal map[predict_a], regression returns the B-side centre.  Histories also contain calls that the
library REJECTS (valid targets, X not prepared / of the wrong width), caught by the
caller, after which training and querying go on: a rejected call has trained
nothing on either side, so every clause holds for the accepted samples alone.  The same clauses are also checked on
histories run in CHILD interpreters that strip assert statements (python -O, PYTHONOPTIMIZE=1).  Drawing a model
(visualize / plot_cluster_bounds) is a call of the history like any other: the clauses hold after it and after the
training calls that follow, also for class labels that are not 0..K-1.
Tie: Lean SimpleARTMAP histories end-to-end on exact kernels."""
from __future__ import annotations

import numpy as np

from .. import gen, families, specs
from ..impl import quiet, exc_enum, make, MODES, SimpleARTMAP, ARTMAP
from . import e2e

RULE = ("cases = (A-side class, [B-side class], hyper-parameters, stream, label sequence incl. contradictory labels "
        "on identical rows, mode, epsilon, batching, epochs); checked after every call; non-trivial when >= 2 "
        "classes and >= 2 A-side categories exist; distinct by hash of (spec, stream, labels, mode, eps, batching); "
        "plus histories with REJECTED calls (valid targets, X not prepared / wider / narrower; as fit or partial_fit; before "
        "any training, between calls, last) caught by the caller: the rejected call leaves map, labels_a, labels_b as they "
        "were and all clauses hold after it and after every later call for the accepted samples; plus the main family's "
        "histories (every A-side class x mode; fit / partial_fit batches / re-fit with other labels; identical rows with different "
        "labels) run by a self-contained script in child interpreters with assertions stripped (python -O; PYTHONOPTIMIZE=1), "
        "all clauses evaluated there after every call and on the predictions; plus histories "
        "with PLOTTING calls between the training calls (visualize / plot_cluster_bounds on caller's axes, explicit colour "
        "list / array / dict long enough for the class values, default palette; class labels that are not 0..K-1: gapped, "
        "negative, offset, large, a class first seen in a later batch), then partial_fit on further batches: the map "
        "entries before the drawing are the entries after it, map values are training classes, and every clause holds "
        "after the drawing and after every later call; the shared plotting scenarios (harness/artv/plotpure.py) on the "
        "supervised hosts")

A_SIDES = specs.ELEM + ["DualVigilanceART", "FusionART"]


def a_side(r, cls, n, d=None):
    d = r.randint(1, 3) if d is None else d
    if cls in specs.ELEM:
        spec = specs.elem_spec(r, cls, specs.width(cls, d) if cls != "FuzzyART" else d)
        return spec, specs.elem_data(r, cls, n, d, style=r.choice(["dups", "coarse", "blobs", None]))
    fam, rows = families.build(r, cls, n)
    return fam.spec, rows.arrs["X"]


def prepare(ctx):
    """Translator tie (see gen_tie.py): SimpleARTMAP.match_reset_func is regenerated from the source and proved
    to be the negation of the model's veto"""
    from .gen_tie import gen_prepare, extra_theorems
    from .. import atrans
    gen_prepare(ctx, extra_theorems("atrans") + ["smap_match_reset", "Control.smap_step_via_generated", "Control.mapPut_if_absent", "Control.smap_lambda_eq",
                      "Control.smap_generated_step_fit", "Control.smap_step_pred_spec", "Control.smap_predict_spec",
                      "Control.smap_partial_fit_loop", "Control.smap_partial_fit_spec", "Control.smap_fit_epoch", "Control.smap_fit_spec"],
                "SimpleARTMAP.match_reset_func; the model's supervised step = generated BaseART.step_fit under the generated veto; " + atrans.COVERS)


def kw_pre(mode, eps):
    return dict(match_tracking=mode, epsilon=eps)


def call_clauses(ctx, est, cls, use_artmap, y, targets, prev_map, rep, tag=""):
    """the per-call clauses of C09 on an estimator whose accepted training samples are rows `targets` (in order);
    returns (the map now, whether all clauses could be evaluated).  `tag` (a situation, e.g. ':after-plotting-call')
    is appended to the signatures"""
    def issue(sig, what):
        ctx.issue("violation", sig + tag, what, rep)
    cur = {int(p): int(q) for p, q in est.map.items()}
    # functional for the whole history: entries never change
    changed = {c: (prev_map[c], cur.get(c)) for c in prev_map if cur.get(c) != prev_map[c]}
    if changed:
        issue(f"{cls}:map-overwritten", f"entries changed: {changed}")
    na = est.module_a.n_clusters   # for DualVigilanceART these are the cluster labels step_fit returns
    la = np.asarray(est.labels_a)
    lb = np.asarray(est.labels_b)
    if len(la) != len(targets) or len(lb) != len(targets):
        issue(f"{cls}:labels-length", f"labels_a {len(la)} labels_b {len(lb)} samples {len(targets)}")
        return cur, False
    if sorted(cur.keys()) != list(range(na)) or not set(la.tolist()) <= set(cur):
        issue(f"{cls}:map-domain", f"map keys {sorted(cur)}, {na} A-side categories, A-labels used {sorted(set(la.tolist()))}")
    try:
        mapped = np.asarray(est.map_a2b(la))
    except Exception as e:
        issue(f"{cls}.map_a2b:{exc_enum(e)}", repr(e))
        return cur, False
    if not np.array_equal(mapped, lb):
        issue(f"{cls}:map_a2b(labels_a)!=targets", f"mapped {mapped.tolist()} targets {lb.tolist()}")
    try:
        one = [int(est.map_a2b(int(c))) for c in la.tolist()]
        if one != [int(cur[int(c)]) for c in la.tolist()]:
            issue(f"{cls}:map_a2b(scalar)!=map", f"{one} vs map {cur} on {la.tolist()}")
    except Exception as e:
        issue(f"{cls}.map_a2b(scalar):{exc_enum(e)}", repr(e))
    if not use_artmap and not np.array_equal(lb, y[targets]):
        issue(f"{cls}:labels_b!=y", f"labels_b {lb.tolist()} y {y[targets].tolist()}")
    # a category is mapped to a class of the training history (what any prediction through it returns)
    trained = set(range(est.module_b.n_clusters)) if use_artmap else set(int(t) for t in np.asarray(y)[targets].tolist())
    if not set(cur.values()) <= trained:
        issue(f"{cls}:map-value-not-a-training-class", f"map {cur}; training classes {sorted(trained)}")
    return cur, True


def pred_clauses(ctx, est, cls, acls, use_artmap, q, desc, regression=None):
    """the prediction clauses of C09 on queries q (regression: None = whenever the host is an ARTMAP)"""
    regression = use_artmap if regression is None else regression
    try:
        with quiet():
            p = np.asarray(est.predict(q))
            a_, b_ = est.predict_ab(q)
        seen = set(int(t) for t in np.asarray(est.labels_b))
        if not set(p.tolist()) <= seen:
            ctx.issue("violation", f"{cls}.predict:class-never-seen", f"{p.tolist()} seen {sorted(seen)}", desc)
        if [est.map[int(c)] for c in a_] != p.tolist() or not np.array_equal(np.asarray(b_), p):
            ctx.issue("violation", f"{cls}.predict!=map[predict_a]", f"a {list(a_)} b {list(b_)} p {p.tolist()}", desc)
        if use_artmap and regression:
            with quiet():
                reg = np.asarray(est.predict_regression(q))
                cen = est.module_b.get_cluster_centers()
            want = np.array([cen[int(c)] for c in p])
            if reg.shape != want.shape or not np.allclose(reg, want, rtol=0, atol=0, equal_nan=True):
                ctx.issue("violation", "ARTMAP.predict_regression!=B-centre", f"{reg.tolist()} vs {want.tolist()}", desc)
            ctx.cov.hit("regression-checked")
    except Exception as e:
        ctx.issue("violation", f"{cls}({acls}).predict:{exc_enum(e)}", f"predict raised {e!r}", desc)


def bad_X(r, acls, Xb, kind):
    """the rows of a valid batch as a caller gets them wrong (the targets of the call stay valid):
    kind 'not-prepared' = the raw feature scale, prepare_data forgotten (all rows, or a single entry out of range);
    'wider' / 'narrower' = prepared rows of another width than the estimator was trained on"""
    Xb = np.array(Xb, dtype=float)
    if kind == "not-prepared":
        v = r.random()
        if v < 0.45:
            return Xb * r.choice([3.0, 10.0, 255.0]) + r.choice([1.25, 2.0, 40.0])
        if v < 0.65:
            return -Xb - r.choice([0.5, 1.0])
        Xb[r.randrange(Xb.shape[0]), r.randrange(Xb.shape[1])] = r.choice([1.5, 7.0, -0.25, 100.0])
        return Xb
    w = Xb.shape[1]
    if acls == "FuzzyART":
        raw = Xb[:, : w // 2]      # stays complement coded: only the width is wrong
        if kind == "narrower" and raw.shape[1] > 1:
            return gen.cc(raw[:, :-1])
        return gen.cc(np.hstack([raw, raw[:, :1]]))
    if kind == "narrower" and w > 1:
        return Xb[:, :-1].copy()
    return np.hstack([Xb, Xb[:, :1]])


def observed(est):
    """the state C09 speaks about (map, labels_a, labels_b); None where the estimator has none yet"""
    out = {"map": {int(p): int(q) for p, q in getattr(est, "map", {}).items()}}
    for k in ("labels_a", "labels_b"):
        try:
            out[k] = np.asarray(getattr(est, k)).tolist()
        except AttributeError:
            out[k] = None
    return out


def rejected_call_histories(ctx, N, nmax):
    """Histories in which some calls are rejected: fit / partial_fit with valid targets and an X the library refuses
    (not prepared, wrong width), at any position (before any training, between batches, after a fit, after the last
    batch; as the failed first attempt of the next batch, or on other rows).  The caller catches the error and goes
    on.  A rejected call has accepted no sample: map, labels_a, labels_b are what they were, and every clause of C09
    holds after it and after every later call for the accepted samples alone."""
    cov = ctx.cov
    for i in range(N):
        r = gen.rng_for(ctx.seed, "C09-rejected", i)
        acls = A_SIDES[i % len(A_SIDES)]
        mode = MODES[(i // len(A_SIDES)) % 5]
        eps = r.choice([1e-10, 0.0, 2.0 ** -20, 2.0 ** -10, 0.125])
        n = r.randint(2, nmax)
        aspec, X = a_side(r, acls, n)
        use_artmap = r.random() < 0.65
        kcls = r.randint(1, 4)
        if use_artmap:
            bcls = r.choice(["FuzzyART", "HypersphereART", "ART2A"])
            db = r.randint(1, 2)
            bspec = specs.elem_spec(r, bcls, specs.width(bcls, db) if bcls != "FuzzyART" else db)
            if bspec.get("alpha") == 0.0:
                bspec["alpha"] = 2.0 ** -10
            centers = gen.grid_rows(r, kcls, db, style="coarse")
            yraw = np.array([centers[r.randrange(kcls)] for _ in range(n)])
            y = gen.cc(yraw) if bcls == "FuzzyART" else yraw
            spec = {"cls": "ARTMAP", "module_a": aspec, "module_b": bspec}
        else:
            y = gen.labels(r, n, kcls)
            spec = {"cls": "SimpleARTMAP", "module_a": aspec}
        cls = spec["cls"]
        kw = dict(match_tracking=mode, epsilon=eps)
        epochs = r.choice([1, 1, 2])
        # the accepted calls
        if r.random() < 0.5:
            good, j = [], 0
            for p in gen.compositions(r, n):
                good.append(("pfit", j, j + p))
                j += p
        else:
            h = r.randint(1, n - 1)
            good = [("fit", 0, h)] + r.choice([[], [("pfit", h, n)], [("fit", h, n)]])
        # the rejected calls: before accepted call `pos` (== len(good): after the last one)
        where = sorted({r.randint(0, len(good)) for _ in range(r.choice([1, 1, 2]))} | ({r.randint(1, len(good))} if r.random() < 0.5 else set()))
        calls = []
        for k in range(len(good) + 1):
            if k in where:
                if k < len(good) and r.random() < 0.7:
                    a, b = good[k][1], good[k][2]          # the failed first attempt of the next batch
                else:
                    a = r.randrange(n)
                    b = r.randint(a + 1, n)
                kind = r.choice(["not-prepared", "not-prepared", "wider", "narrower"]) if k > 0 else "not-prepared"
                calls.append((r.choice(["fit", "pfit"]), a, b, kind, bad_X(r, acls, X[a:b], kind).tolist()))
            if k < len(good):
                calls.append(good[k] + (None, None))
        desc = {"spec": spec, "X": X.tolist(), "y": y.tolist(), "mode": mode, "eps": eps, "epochs": epochs,
                "calls": [{"op": op, "rows": [a, b], "X": "X[rows]" if kind is None else Xbad, "y": "y[rows]",
                           "expected": "accepted" if kind is None else f"rejected ({kind})"} for op, a, b, kind, Xbad in calls]}
        try:
            est = make(spec)
            if use_artmap and bcls == "FuzzyART":
                with quiet():
                    est.module_b.prepare_data(np.array([[0.0] * db, [1.0] * db]))
        except Exception as e:
            ctx.issue("violation", f"{cls}({acls}).__init__:{exc_enum(e)}", repr(e), desc)
            continue
        prev_map, targets, ok, nrej = {}, [], True, 0
        for k, (op, a, b, kind, Xbad) in enumerate(calls):
            rep = dict(desc, after_call=k)
            before = observed(est)
            Xc = X[a:b] if kind is None else np.array(Xbad, dtype=float)
            try:
                with quiet():
                    if op == "fit":
                        est.fit(Xc, y[a:b], max_iter=epochs, **kw)
                    else:
                        est.partial_fit(Xc, y[a:b], **kw)
                raised = None
            except Exception as e:
                raised = e
            if kind is None:
                if raised is not None:
                    ctx.issue("violation", f"{cls}({acls}).{op}:{exc_enum(raised)}:after-rejected-call" if nrej else f"{cls}({acls}).{op}:{exc_enum(raised)}",
                              f"{op} rows {a}:{b} (valid) raised {raised!r} (mode {mode}; {nrej} rejected calls before)", rep)
                    ok = False
                    break
                if op == "fit":
                    prev_map, targets = {}, list(range(a, b))
                else:
                    targets = targets + list(range(a, b))
            else:
                if raised is None:
                    # the library took this X: not the situation meant here (what validate_data accepts is C18's subject)
                    cov.hit(f"bad-X-not-rejected:{kind}")
                    ok = False
                    break
                nrej += 1
                cov.hit(f"rejected-call:{op}:{kind}:{'before-any-training' if not targets else 'mid-history' if k < len(calls) - 1 else 'last-call'}")
                after = observed(est)
                diff = [f for f in before if before[f] != after[f]]
                if diff:
                    meth = "fit" if op == "fit" else "partial_fit"
                    ctx.issue("violation", f"{cls}.{meth}:rejected-call-changed:{'+'.join(diff)}",
                              f"{meth} rows {a}:{b} with X {kind} raised {raised!r}, yet " +
                              "; ".join(f"{f} {before[f]} -> {after[f]}" for f in diff), rep)
            if targets:
                prev_map, done = call_clauses(ctx, est, cls, use_artmap, y, targets, prev_map, rep)
                if done and nrej:
                    cov.hit(f"call-checked-after-rejected-call:{cls}")
        if not ok or not targets:
            continue
        q = X[[r.randrange(n) for _ in range(min(n, 6))]]
        pred_clauses(ctx, est, cls, acls, use_artmap, q, dict(desc, after_call="all"))
        ncls = len(set(np.asarray(est.labels_b).tolist()))
        cov.case((spec, desc["X"], desc["y"], mode, eps, desc["calls"]), ncls >= 2 and len(est.map) >= 2)


# ------------------------------------------------------------------------------------------------------------------
# The same clauses in an interpreter that runs with assertions stripped (python -O, PYTHONOPTIMIZE=1).  Whether the
# interpreter executes `assert` statements is a configuration of the deployment, not of the library: C09 holds for
# every history whichever way the interpreter was started.  The histories are driven in a CHILD interpreter by the
# self-contained script below (it imports only numpy and artlib, found through PYTHONPATH=$VERIF_REPO; the harness
# itself is not imported there, so none of its own asserts are involved), which prints one JSON verdict.

O_SCRIPT = r"""
import sys, os, io, json, signal, importlib, warnings
from copy import deepcopy
warnings.filterwarnings("ignore")
for _m in ("numpy", "matplotlib.axes", "matplotlib.colors", "matplotlib.pyplot", "sklearn.base", "sklearn.utils.validation",
           "sklearn.utils.multiclass", "sklearn.metrics", "scipy.stats", "scipy.spatial", "scipy.spatial.distance"):
    try:
        importlib.import_module(_m)
    except ImportError:
        pass
sys.dont_write_bytecode = True      # third-party byte code may be cached (PYTHONPYCACHEPREFIX); the library's never is
import numpy as np
import artlib

REAL_OUT = sys.stdout
sys.stdout = io.StringIO()           # some estimators print


class Hang(Exception):
    pass


def _alarm(sig, frm):
    raise Hang("no return within the time limit")


signal.signal(signal.SIGALRM, _alarm)


def guarded(f, *a, **k):
    signal.setitimer(signal.ITIMER_REAL, 30.0)
    try:
        return f(*a, **k)
    finally:
        signal.setitimer(signal.ITIMER_REAL, 0)


def make(spec):
    if not isinstance(spec, dict) or "cls" not in spec:
        return spec
    kw = {k: v for k, v in spec.items() if k != "cls"}
    for k, v in list(kw.items()):
        if isinstance(v, dict) and "cls" in v:
            kw[k] = make(v)
        elif isinstance(v, list) and v and isinstance(v[0], dict) and "cls" in v[0]:
            kw[k] = [make(t) for t in v]
        elif k in ("sigma_init", "cov_init"):
            kw[k] = np.array(v, dtype=float)
    return getattr(artlib, spec["cls"])(**kw)


def exc_name(e):
    return {"AssertionError": "assert", "KeyError": "key", "IndexError": "index", "ValueError": "value", "TypeError": "type",
            "ZeroDivisionError": "zerodiv", "AttributeError": "attr", "Hang": "hang"}.get(type(e).__name__, "other:" + type(e).__name__)


def run_case(case):
    # the clauses of C09 after every call and on the predictions; returns [(signature, what, after_call)]
    bad = []
    spec = deepcopy(case["spec"])
    cls, acls = spec["cls"], spec["module_a"]["cls"]
    use_artmap = cls == "ARTMAP"
    X = np.array(case["X"], dtype=float)
    ys = {k: np.array(case[k], dtype=case["y_dtype"]) for k in ("y", "y0") if case.get(k) is not None}
    kw = dict(match_tracking=case["mode"], epsilon=case["eps"])
    try:
        est = make(spec)
        if case.get("b_prepare"):
            est.module_b.prepare_data(np.array([[0.0] * case["b_prepare"], [1.0] * case["b_prepare"]]))
    except Exception as e:
        return [(f"{cls}({acls}).__init__:{exc_name(e)}", repr(e), -1)]
    prev, want = {}, []
    for k, call in enumerate(case["calls"]):
        a, b = call["rows"]
        yc = ys[call["labels"]][a:b]
        try:
            if call["op"] == "fit":
                guarded(est.fit, X[a:b], yc, max_iter=case["epochs"], **kw)
                prev, want = {}, yc.tolist()
            else:
                guarded(est.partial_fit, X[a:b], yc, **kw)
                want = want + yc.tolist()
        except Exception as e:
            bad.append((f"{cls}({acls}).{call['op']}:{exc_name(e)}", f"{call['op']} rows {a}:{b} raised {e!r}", k))
            return bad
        cur = {int(p): int(q) for p, q in est.map.items()}
        changed = {c: (prev[c], cur.get(c)) for c in prev if cur.get(c) != prev[c]}
        if changed:
            bad.append((f"{cls}:map-overwritten", f"entries changed: {changed}", k))
        prev = cur
        na = est.module_a.n_clusters
        la, lb = np.asarray(est.labels_a), np.asarray(est.labels_b)
        if len(la) != len(want) or len(lb) != len(want):
            bad.append((f"{cls}:labels-length", f"labels_a {len(la)} labels_b {len(lb)} samples {len(want)}", k))
            continue
        if sorted(cur) != list(range(na)) or not set(la.tolist()) <= set(cur):
            bad.append((f"{cls}:map-domain", f"map keys {sorted(cur)}, {na} A-side categories, A-labels used {sorted(set(la.tolist()))}", k))
        # every training sample is encoded by a category of its own class <=> each category encodes one class only
        mixed = {int(c): sorted(set(lb[la == c].tolist())) for c in set(la.tolist()) if len(set(lb[la == c].tolist())) > 1}
        if mixed:
            bad.append((f"{cls}:category-encodes-several-classes", f"A-side category -> classes of its samples: {mixed}", k))
        try:
            mapped = np.asarray(est.map_a2b(la))
            if not np.array_equal(mapped, lb):
                bad.append((f"{cls}:map_a2b(labels_a)!=targets", f"mapped {mapped.tolist()} targets {lb.tolist()}", k))
            one = [int(est.map_a2b(int(c))) for c in la.tolist()]
            if one != [cur[int(c)] for c in la.tolist()]:
                bad.append((f"{cls}:map_a2b(scalar)!=map", f"{one} vs map {cur} on {la.tolist()}", k))
        except Exception as e:
            bad.append((f"{cls}.map_a2b:{exc_name(e)}", repr(e), k))
        if not use_artmap and lb.tolist() != want:
            bad.append((f"{cls}:labels_b!=y", f"labels_b {lb.tolist()} y {want}", k))
    q = X[case["queries"]]
    try:
        p = np.asarray(guarded(est.predict, q))
        a_, b_ = guarded(est.predict_ab, q)
        seen = set(int(t) for t in np.asarray(est.labels_b))
        if not set(p.tolist()) <= seen:
            bad.append((f"{cls}.predict:class-never-seen", f"{p.tolist()} seen {sorted(seen)}", "all"))
        if [est.map[int(c)] for c in a_] != p.tolist() or not np.array_equal(np.asarray(b_), p):
            bad.append((f"{cls}.predict!=map[predict_a]", f"a {list(map(int, a_))} b {list(map(int, b_))} p {p.tolist()}", "all"))
        if use_artmap:
            reg = np.asarray(guarded(est.predict_regression, q))
            cen = est.module_b.get_cluster_centers()
            wantc = np.array([cen[int(c)] for c in p])
            if reg.shape != wantc.shape or not np.array_equal(reg, wantc, equal_nan=True):
                bad.append(("ARTMAP.predict_regression!=B-centre", f"{reg.tolist()} vs {wantc.tolist()}", "all"))
    except Exception as e:
        bad.append((f"{cls}({acls}).predict:{exc_name(e)}", f"predict raised {e!r}", "all"))
    return bad, {"classes": len(set(np.asarray(est.labels_b).tolist())), "categories": len(est.map)}


def main():
    cases = json.load(sys.stdin)["cases"]
    res = []
    for case in cases:
        try:
            r = run_case(case)
        except Exception as e:          # the script itself: reported as such, never as a verdict on the library
            res.append({"error": repr(e)})
            continue
        bad, info = r if isinstance(r, tuple) else (r, None)
        res.append({"bad": [list(t) for t in bad], "info": info})
    verdict = {"debug": __debug__, "optimize": sys.flags.optimize, "artlib": os.path.realpath(artlib.__file__), "results": res}
    REAL_OUT.write("ARTV-C09-VERDICT " + json.dumps(verdict) + "\n")
    REAL_OUT.flush()


main()
"""

O_INTERPRETERS = [("python -O", ["-O"], {}), ("PYTHONOPTIMIZE=1", [], {"PYTHONOPTIMIZE": "1"})]


def o_case(r, i, nmax):
    """one history of the main family (A-side class, [B-side class], stream with duplicated rows, label sequence incl.
    contradictory labels on identical rows, mode, epsilon, batching / epochs / re-fit with other labels) as plain data"""
    acls = A_SIDES[i % len(A_SIDES)]
    mode = MODES[(i // len(A_SIDES)) % 5]
    eps = r.choice([1e-10, 0.0, 2.0 ** -20, 2.0 ** -10, 0.125])
    n = r.randint(2, nmax)
    aspec, X = a_side(r, acls, n)
    X = np.array(X, dtype=float)
    for _ in range(r.choice([0, 1, 2])):         # identical rows: with different labels only the veto keeps the classes apart
        s_, t_ = r.randrange(n), r.randrange(n)
        X[t_] = X[s_]
    use_artmap = r.random() < 0.4
    kcls = r.randint(2, 4)
    case = {"b_prepare": None, "y0": None}
    if use_artmap:
        bcls = r.choice(["FuzzyART", "HypersphereART", "ART2A"])
        db = r.randint(1, 2)
        bspec = specs.elem_spec(r, bcls, specs.width(bcls, db) if bcls != "FuzzyART" else db)
        if bspec.get("alpha") == 0.0:
            bspec["alpha"] = 2.0 ** -10
        centers = gen.grid_rows(r, kcls, db, style="coarse")
        yraw = np.array([centers[r.randrange(kcls)] for _ in range(n)])
        y = gen.cc(yraw) if bcls == "FuzzyART" else yraw
        spec = {"cls": "ARTMAP", "module_a": aspec, "module_b": bspec}
        if bcls == "FuzzyART":
            case["b_prepare"] = db
    else:
        y = gen.labels(r, n, kcls)
        if r.random() < 0.3:
            y = y - r.choice([1, 2])
        spec = {"cls": "SimpleARTMAP", "module_a": aspec}
    style = r.choice(["fit", "pfit", "pfit", "refit"])
    if style == "pfit":
        calls, j = [], 0
        for p in gen.compositions(r, n):
            calls.append({"op": "pfit", "rows": [j, j + p], "labels": "y"})
            j += p
    else:
        calls = [{"op": "fit", "rows": [0, n], "labels": "y"}]
        if style == "refit":
            y0 = y[::-1].copy() if use_artmap else (np.asarray(y) - np.asarray(y).min() + 1 + r.randrange(3)) % (kcls + 2)
            case["y0"] = np.asarray(y0).tolist()
            calls = [{"op": "fit", "rows": [0, n], "labels": "y0"}] + calls
    case.update({"spec": spec, "X": X.tolist(), "y": np.asarray(y).tolist(), "y_dtype": str(np.asarray(y).dtype), "mode": mode, "eps": eps,
                 "epochs": r.choice([1, 1, 1, 2, 3]), "calls": calls, "queries": [r.randrange(n) for _ in range(min(n, 6))]})
    return case, style


def optimized_interpreter_histories(ctx, N, nmax):
    """C09 on histories run in child interpreters that strip `assert` statements: started as `python -O`, and through
    the environment (PYTHONOPTIMIZE=1).  The unchanged library only *checks* inside its asserts, so everything it
    records (map, labels_a, labels_b) is the same there and every clause holds."""
    per = len(A_SIDES) * len(MODES)               # every (A-side, mode) pair goes to every interpreter
    groups = {name: [] for name, _, _ in O_INTERPRETERS}
    for i in range(N):
        r = gen.rng_for(ctx.seed, "C09-optimized", i)
        name = O_INTERPRETERS[(i // per) % len(O_INTERPRETERS)][0]
        groups[name].append(o_case(r, i, nmax))
    run_optimized(ctx, groups)


def replay(ctx, payload):
    """re-run one reported history of the child-interpreter family (other replays of C09 carry their inputs as data)"""
    rep = payload.get("replay") or {}
    if isinstance(rep.get("case"), dict) and rep.get("interpreter") in [n for n, _, _ in O_INTERPRETERS]:
        run_optimized(ctx, {rep["interpreter"]: [(rep["case"], "replay")]})
    return 0


def run_optimized(ctx, groups):
    """groups: interpreter name -> [(case, style)]; one child interpreter per name (they run side by side)"""
    import json
    import os
    import subprocess
    import tempfile
    from ..common import REPO, PY
    cov = ctx.cov

    def default(o):
        if isinstance(o, np.ndarray):
            return o.tolist()
        if isinstance(o, np.integer):
            return int(o)
        if isinstance(o, np.floating):
            return float(o)
        raise TypeError(type(o))
    base_env = {k: v for k, v in os.environ.items() if k not in ("PYTHONOPTIMIZE", "PYTHONDONTWRITEBYTECODE", "PYTHONSTARTUP", "PYTHONINSPECT")}
    base_env["PYTHONPATH"] = str(REPO)
    # no .pyc of the library is ever written or read (the script switches byte-code writing off before importing it);
    # numpy / scipy / sklearn have no optimised byte code installed: theirs is kept in a private directory
    base_env["PYTHONPYCACHEPREFIX"] = os.path.join(tempfile.gettempdir(), f"artv-pycache-opt-{os.getuid()}")
    base_env["ARTLIB_VERIF"] = "1"
    procs = []
    with tempfile.TemporaryDirectory(prefix="artv-C09-") as tmp:
        for name, flags, extra in O_INTERPRETERS:
            if not groups.get(name):
                continue
            tag = str(len(procs))
            with open(os.path.join(tmp, "in" + tag), "w") as f:
                json.dump({"cases": [c for c, _ in groups[name]]}, f, default=default)
            fi, fo, fe = open(os.path.join(tmp, "in" + tag)), open(os.path.join(tmp, "out" + tag), "w+"), open(os.path.join(tmp, "err" + tag), "w+")
            argv = [PY] + flags + ["-c", O_SCRIPT]
            p = subprocess.Popen(argv, stdin=fi, stdout=fo, stderr=fe, env=dict(base_env, **extra), cwd=tmp)
            procs.append((name, flags, extra, p, fi, fo, fe))
        for name, flags, extra, p, fi, fo, fe in procs:
            how = {"interpreter": name, "argv": ["python"] + flags + ["-c", "<artv.checks.C09.O_SCRIPT>"], "env": dict(extra, PYTHONPATH="$VERIF_REPO"),
                   "stdin": '{"cases": [<case>]}'}
            try:
                p.wait(timeout=600)
            except subprocess.TimeoutExpired:
                p.kill()
                p.wait()
            fo.seek(0)
            fe.seek(0)
            out, err = fo.read(), fe.read()
            for f in (fi, fo, fe):
                f.close()
            line = [ln for ln in out.splitlines() if ln.startswith("ARTV-C09-VERDICT ")]
            if not line:
                ctx.issue("audit", f"C09:no-verdict-from-child:{name}", f"the child interpreter ({name}) exited with {p.returncode} and "
                          f"printed no verdict; stderr ends: {err[-1500:]!r}", dict(how, cases=len(groups[name])))
                continue
            v = json.loads(line[-1][len("ARTV-C09-VERDICT "):])
            if v["debug"] or v["optimize"] < 1 or not v["artlib"].startswith(os.path.realpath(str(REPO))):
                ctx.issue("audit", f"C09:child-not-as-intended:{name}", f"__debug__={v['debug']} optimize={v['optimize']} artlib={v['artlib']} "
                          f"(expected assertions stripped and artlib under {REPO})", how)
                continue
            cov.hit(f"child-interpreter:{name}:assertions-stripped")
            for (case, style), res in zip(groups[name], v["results"]):
                rep = dict(how, case=case)
                cls, acls = case["spec"]["cls"], case["spec"]["module_a"]["cls"]
                if "error" in res:
                    ctx.issue("audit", f"C09:child-script-error:{name}", res["error"], rep)
                    continue
                for sig, what, after in res["bad"]:
                    ctx.issue("violation", f"{sig}:assertions-stripped", f"in a child interpreter started as {name} (asserts are not executed): {what}",
                              dict(rep, after_call=after))
                if not res["bad"]:
                    cov.hit(f"assertions-stripped:all-clauses-hold:{cls}:{style}:{case['mode']}")
                    cov.hit(f"assertions-stripped:A-side:{acls}")
                info = res["info"] or {"classes": 0, "categories": 0}
                if cls == "ARTMAP" and not res["bad"]:
                    cov.hit("assertions-stripped:regression-checked")
                cov.case(("assertions-stripped", name, case["spec"], case["X"], case["y"], case["mode"], case["eps"], case["calls"]),
                         info["classes"] >= 2 and info["categories"] >= 2)


# ------------------------------------------------------------------------------------------------------------------
# Plotting calls inside supervised histories.  Drawing a trained model (visualize, plot_cluster_bounds on the caller's
# axes) is a call of the history like any other: C09 speaks about the map "for the whole history", so the entries
# before the drawing are the entries after it, and every clause holds after the drawing and after the training calls
# that follow.  The colour table is indexed by CLASS, so class labels that are not 0..K-1 (gapped, negative, offset,
# large ids, a class that first appears in a later batch) are the situations in which a drawing routine has to
# translate classes — and must not do so in the estimator's own map.

def _pyplot():
    try:
        import matplotlib
        matplotlib.use("Agg")
        import matplotlib.pyplot as plt
        return plt
    except Exception:   # noqa
        return None


def class_values(r, k):
    """k distinct class labels (ints) in a coding that is not 0..k-1, and the name of the coding"""
    style = r.choice(["gapped", "gapped", "negative", "offset", "large", "plain"])
    if style == "gapped":
        vals = r.sample(range(0, 12), k)
        if sorted(vals) == list(range(k)):
            vals[vals.index(max(vals))] = k + r.randint(1, 5)      # e.g. {3, 7}
    elif style == "negative":
        vals = r.sample(range(-6, 5), k)
        if min(vals) >= 0:
            vals[0] = -r.randint(1, 6)                             # e.g. the {-1, +1} coding
    elif style == "offset":
        base = r.choice([1, 2, 5])
        vals = [base + j for j in range(k)]
        r.shuffle(vals)
    elif style == "large":
        base = r.choice([1000, 10 ** 5, 202401, 2 ** 40])
        vals = [base + j * r.choice([1, 1, 7]) for j in range(k)]
        vals = sorted(set(vals))
        while len(vals) < k:
            vals.append(vals[-1] + 1)
        r.shuffle(vals)
    else:
        vals = list(range(k))     # 0..k-1: not every class need be in the first batch
        r.shuffle(vals)
    return [int(v) for v in vals], style


def colour(j):
    return (0.1 * (j % 10), 0.25 + 0.05 * (j % 7), 0.5, 1.0)


def colour_table(r, classes, style):
    """a colour table the caller indexes by class, long enough for every class value of the history (also the classes
    of later batches): list / ndarray (negative classes index from the end), or a dict keyed by class"""
    lo, hi = min(classes), max(classes)
    if style == "large":
        return "dict", {int(c): colour(j) for j, c in enumerate(sorted(classes))}
    L = max(hi + 1, -lo, 1) + r.choice([0, 0, 1, 3])
    form = r.choice(["list", "list", "ndarray", "dict"])
    if form == "dict":
        return form, {int(c): colour(j) for j, c in enumerate(sorted(classes))}
    cols = [colour(j) for j in range(L)]
    return form, (np.array(cols) if form == "ndarray" else cols)


def draw(plt, est, call, X, yvis, table):
    """one plotting call of the public API; returns the exception it raised (None if it drew)"""
    try:
        with quiet():
            fig, ax = plt.subplots()
            if call == "plot_cluster_bounds":
                est.plot_cluster_bounds(ax, table)
            elif call == "plot_cluster_bounds:linewidth":
                est.plot_cluster_bounds(ax, table, linewidth=2)
            elif call == "visualize":
                est.visualize(X, yvis, ax=ax, colors=table)
            elif call == "visualize:own-axes":
                est.visualize(X, yvis, colors=table)
            elif call == "visualize:default-palette":
                est.visualize(X, yvis, ax=ax)
            else:
                raise RuntimeError(call)
        return None
    except Exception as e:   # noqa
        return e
    finally:
        plt.close("all")


def plotting_inside_histories(ctx, N, nmax):
    """SimpleARTMAP / ARTMAP histories: first batch(es) by fit or partial_fit; the model is drawn (one or two plotting
    calls); partial_fit goes on with further batches (which may bring new classes); perhaps drawn again; predictions.
    All clauses after every call — the drawing included: map entries never change, map_a2b(labels_a) == targets,
    map values are training classes, predictions are trained classes and equal map[predict_a]."""
    cov = ctx.cov
    plt = _pyplot()
    if plt is None:
        cov.hit("plot:matplotlib-missing")
        return
    for i in range(N):
        r = gen.rng_for(ctx.seed, "C09-plot", i)
        acls = A_SIDES[i % len(A_SIDES)]
        mode = MODES[(i // len(A_SIDES)) % 5]
        eps = r.choice([1e-10, 0.0, 2.0 ** -20, 2.0 ** -10, 0.125])
        n = r.randint(4, nmax)
        aspec, X = a_side(r, acls, n, d=r.choice([2, 2, 2, 3]))
        X = np.array(X, dtype=float)
        use_artmap = r.random() < 0.2
        kcls = r.randint(2, 4)
        if use_artmap:
            # the classes of an ARTMAP are its B-side categories (always 0..K-1, numbered in order of appearance)
            bcls = r.choice(["FuzzyART", "HypersphereART", "ART2A"])
            db = r.randint(1, 2)
            bspec = specs.elem_spec(r, bcls, specs.width(bcls, db) if bcls != "FuzzyART" else db)
            if bspec.get("alpha") == 0.0:
                bspec["alpha"] = 2.0 ** -10
            centers = gen.grid_rows(r, kcls, db, style="coarse")
            yraw = np.array([centers[r.randrange(kcls)] for _ in range(n)])
            y = gen.cc(yraw) if bcls == "FuzzyART" else yraw
            spec = {"cls": "ARTMAP", "module_a": aspec, "module_b": bspec}
            coding, classes = "B-side categories", list(range(n + 1))
        else:
            vals, coding = class_values(r, kcls)
            y = np.array([vals[int(t)] for t in gen.labels(r, n, kcls)], dtype=np.int64)
            spec = {"cls": "SimpleARTMAP", "module_a": aspec}
            classes = vals
        cls = spec["cls"]
        kw = dict(match_tracking=mode, epsilon=eps)
        epochs = r.choice([1, 1, 2])
        h = r.randint(2, n - 1)                     # rows 0:h before the drawing, h:n after it
        if r.random() < 0.5:
            calls = [("fit", 0, h)]
        else:
            calls, j = [], 0
            for p in gen.compositions(r, h):
                calls.append(("pfit", j, j + p))
                j += p
        form, table = colour_table(r, classes, coding if not use_artmap else "plain")
        pool = ["plot_cluster_bounds", "plot_cluster_bounds", "visualize", "visualize", "plot_cluster_bounds:linewidth"]
        if form != "dict":
            pool += ["visualize:own-axes"]
        else:
            pool = [c for c in pool if not c.startswith("visualize")]    # visualize enumerates the table: a sequence
        if r.random() < 0.15:
            pool = ["visualize:default-palette"]
        plots = [r.choice(pool) for _ in range(r.choice([1, 1, 2]))]
        calls += [(pc, 0, h) for pc in plots]
        j = h
        for p in gen.compositions(r, n - h):
            calls.append(("pfit", j, j + p))
            j += p
        if r.random() < 0.4:
            calls.append((r.choice(pool), 0, n))
        yvis_kind = r.choice(["targets", "labels_b"])
        desc = {"spec": spec, "X": X.tolist(), "y": y.tolist(), "mode": mode, "eps": eps, "epochs": epochs, "class_coding": coding,
                "colors": {"form": form, "table": ({str(c): list(v) for c, v in table.items()} if form == "dict" else np.asarray(table).tolist())},
                "calls": [{"op": op, "rows": [a, b]} if op in ("fit", "pfit") else
                          {"op": op, "X": f"X[0:{b}]", "y": "est.labels_b" if yvis_kind == "labels_b" or use_artmap else f"y[0:{b}]",
                           "colors": None if op.endswith("default-palette") else "colors.table (indexed by class)"} for op, a, b in calls]}
        try:
            est = make(spec)
            if use_artmap and bcls == "FuzzyART":
                with quiet():
                    est.module_b.prepare_data(np.array([[0.0] * db, [1.0] * db]))
        except Exception as e:
            ctx.issue("violation", f"{cls}({acls}).__init__:{exc_enum(e)}", repr(e), desc)
            continue
        prev_map, targets, ok, drawn, nplot = {}, [], True, 0, 0
        for k, (op, a, b) in enumerate(calls):
            rep = dict(desc, after_call=k)
            if op in ("fit", "pfit"):
                try:
                    with quiet():
                        if op == "fit":
                            est.fit(X[a:b], y[a:b], max_iter=epochs, **kw)
                            prev_map, targets = {}, list(range(a, b))
                        else:
                            est.partial_fit(X[a:b], y[a:b], **kw)
                            targets = targets + list(range(a, b))
                except Exception as e:
                    ctx.issue("violation", f"{cls}({acls}).{op}:{exc_enum(e)}" + (":after-plotting-call" if nplot else ""),
                              f"{op} rows {a}:{b} raised {e!r} (mode {mode}; {nplot} plotting calls before)", rep)
                    ok = False
                    break
                tag = ":after-plotting-call" if nplot else ""
            else:
                yvis = np.asarray(est.labels_b) if (yvis_kind == "labels_b" or use_artmap) else y[:b].copy()
                raised = draw(plt, est, op, X[:b], yvis, table)
                nplot += 1
                if raised is None:
                    drawn += 1
                    cov.hit(f"plotting-call-in-history:{op}:drawn")
                else:
                    # tolerated: not every model can be drawn (no plot_cluster_bounds for the A-side, 3 features,
                    # arctan2 of complex eigenvectors, a palette that has no entry for a class)
                    cov.hit(f"plotting-call-in-history:{op}:raised:{exc_enum(raised)}")
                tag = ":after-plotting-call"
            prev_map, done = call_clauses(ctx, est, cls, use_artmap, y, targets, prev_map, rep, tag=tag)
            if done and nplot:
                cov.hit(f"call-checked-after-plotting-call:{cls}:{'training' if op in ('fit', 'pfit') else 'drawing'}")
        if not ok:
            continue
        q = X[[r.randrange(n) for _ in range(min(n, 6))]]
        pred_clauses(ctx, est, cls, acls, use_artmap, q, dict(desc, after_call="all"))
        if not use_artmap:
            cov.hit(f"plotting-call-in-history:class-coding:{coding}")
            if set(y[:h].tolist()) != set(y.tolist()):
                cov.hit("plotting-call-in-history:new-class-after-the-drawing")
            if sorted(set(y[:h].tolist())) != list(range(len(set(y[:h].tolist())))):
                cov.hit("plotting-call-in-history:classes-at-drawing-not-0..K-1" + (":drawn" if drawn else ""))
        cov.hit(f"plotting-call-in-history:colors:{form}")
        ncls = len(set(np.asarray(est.labels_b).tolist()))
        cov.case(("plot", spec, desc["X"], desc["y"], mode, eps, desc["calls"], desc["colors"]["form"]), ncls >= 2 and len(est.map) >= 2)


def shared_plotting_scenarios(ctx):
    """the shared generator of plotting calls inside histories (harness/artv/plotpure.py) on the supervised hosts: the
    clauses of C09 on the estimator after the plotting call (the map entries are those of before), and after a
    partial_fit that goes on"""
    from .. import plotpure
    cov = ctx.cov
    for sc in plotpure.scenarios(ctx, "C09", quick=24, thorough=240):
        if sc.kind not in ("SimpleARTMAP", "ARTMAP") or sc.before is None:
            continue
        cls = sc.kind
        use_artmap = cls == "ARTMAP"
        est, y, n = sc.est, np.asarray(sc.rows.arrs["y"]), len(sc.rows)
        desc = dict(sc.desc, trained_by=sc.trained_by, plot_raised=sc.raised, state_changed_by_plot=sc.changed[:12])
        acls = getattr(sc.fam, "a_cls", "?")
        try:
            prev_map = dict(sc.before.get("map", {}))
            targets = list(range(n))
            prev_map, done = call_clauses(ctx, est, cls, use_artmap, y, targets, prev_map, dict(desc, after_call=sc.plot), tag=":after-plotting-call")
            k = 1 + (n > 2)
            try:
                sc.fam.pfit(est, sc.rows.sl(0, k))
            except Exception as e:
                ctx.issue("violation", f"{cls}({acls}).pfit:{exc_enum(e)}:after-plotting-call", f"partial_fit rows 0:{k} after {sc.plot} raised {e!r}",
                          dict(desc, then_partial_fit_rows=k))
                continue
            # the rows presented again are further samples of the history: rows 0..n-1, then 0..k-1
            y2 = np.concatenate([y, y[:k]])
            call_clauses(ctx, est, cls, use_artmap, y2, list(range(n + k)), prev_map, dict(desc, then_partial_fit_rows=k, after_call="partial_fit"),
                         tag=":after-plotting-call")
            pred_clauses(ctx, est, cls, acls, use_artmap, sc.rows.arrs["X"][: min(n, 6)], dict(desc, then_partial_fit_rows=k, after_call="all"),
                         regression=False)
            if done:
                cov.hit(f"shared-plotting-scenario:clauses-checked:{cls}:{sc.plot}" + (":raised" if sc.raised else ""))
        except Exception as e:
            cov.hit(f"shared-plotting-scenario:oracle-could-not-run:{cls}:{exc_enum(e)}")
        cov.case(("shared-plot", sc.fam.spec, sc.desc["rows"], sc.plot, sc.trained_by), len(est.map) >= 2)


def run(ctx):
    cov = ctx.cov
    N = ctx.scale(360, 8000)
    nmax = ctx.scale(16, 60)
    for i in range(N):
        r = gen.rng_for(ctx.seed, "C09", i)
        acls = A_SIDES[i % len(A_SIDES)]
        mode = MODES[(i // len(A_SIDES)) % 5]
        eps = r.choice([1e-10, 0.0, 2.0 ** -20, 2.0 ** -10, 0.125])
        n = r.randint(1, nmax)
        aspec, X = a_side(r, acls, n)
        use_artmap = r.random() < 0.4
        kcls = r.randint(1, 4)
        if use_artmap:
            bcls = r.choice(["FuzzyART", "HypersphereART", "ART2A"])
            db = r.randint(1, 2)
            bspec = specs.elem_spec(r, bcls, specs.width(bcls, db) if bcls != "FuzzyART" else db)
            if bspec.get("alpha") == 0.0:
                bspec["alpha"] = 2.0 ** -10
            centers = gen.grid_rows(r, kcls, db, style="coarse")
            yraw = np.array([centers[r.randrange(kcls)] for _ in range(n)])
            y = gen.cc(yraw) if bcls == "FuzzyART" else yraw
            spec = {"cls": "ARTMAP", "module_a": aspec, "module_b": bspec}
        else:
            y = gen.labels(r, n, kcls)
            if r.random() < 0.35:
                y = y - r.choice([1, 2])          # class labels need not be 0..k-1: e.g. the {-1, +1} coding
            elif r.random() < 0.4:
                # large codes that differ by one (year-month stamps, ids): equality of labels is exact, not "close"
                y = y + r.choice([10 ** 5, 202401, 10 ** 9, 2 ** 40])
                cov.hit("large-adjacent-class-labels")
            spec = {"cls": "SimpleARTMAP", "module_a": aspec}
        desc = {"spec": spec, "X": X.tolist(), "y": y.tolist(), "mode": mode, "eps": eps}
        try:
            est = make(spec)
            if use_artmap and bcls == "FuzzyART":
                # documented workflow: targets go through prepare_data, which fixes the column bounds
                # get_cluster_centers needs; bounds [0,1] make it the identity on our [0,1] targets
                with quiet():
                    est.module_b.prepare_data(np.array([[0.0] * db, [1.0] * db]))
        except Exception as e:
            ctx.issue("violation", f"{spec['cls']}({acls}).__init__:{exc_enum(e)}", repr(e), desc)
            continue
        kw = dict(match_tracking=mode, epsilon=eps)
        parts = gen.compositions(r, n)
        epochs = r.choice([1, 1, 1, 2, 3])
        style = r.choice(["fit", "pfit", "refit"])
        calls = [("fit", 0, n)] if style == "fit" else []
        if style == "refit":
            # an earlier history with OTHER labels on the same estimator, then the fit under test
            try:
                with quiet():
                    if use_artmap:
                        est.fit(X[::-1].copy(), y[::-1].copy(), **kw_pre(mode, eps))
                    else:
                        est.fit(X, (np.asarray(y) - np.asarray(y).min() + 1 + r.randrange(3)) % (kcls + 2), **kw_pre(mode, eps))
            except Exception as e:
                ctx.issue("violation", f"{spec['cls']}({acls}).fit:{exc_enum(e)}", f"first fit raised {e!r}", desc)
                continue
            # use every observer on the first model, so that anything they memoise is in place before the re-fit
            try:
                with quiet():
                    est.map_a2b(np.asarray(est.labels_a))
                    est.map_a2b(int(np.asarray(est.labels_a)[0]))
                    est.predict(X[: min(n, 3)])
                    est.predict_ab(X[: min(n, 3)])
            except Exception as e:
                ctx.issue("violation", f"{spec['cls']}({acls}).observers-after-fit:{exc_enum(e)}", repr(e), desc)
                continue
            calls = [("fit", 0, n)]
            cov.hit("refit-with-other-labels")
        if style == "pfit":
            j = 0
            for p in parts:
                calls.append(("pfit", j, j + p))
                j += p
        prev_map = {}
        targets = []
        ok = True
        # class targets of successive batches need not share a dtype: category codes start narrow (int8 while there
        # are few classes) and widen as new classes appear in later batches
        widen = (not use_artmap) and style == "pfit" and len(calls) >= 2 and r.random() < 0.5
        if widen:
            y = np.abs(np.asarray(y, dtype=np.int64)) % 100
            first_b = calls[0][2]
            later = np.arange(first_b, n)
            if len(later):
                bump = later[[r.random() < 0.6 for _ in later]]
                y[bump] = y[bump] + r.choice([128, 200, 256, 300, 40000])
            desc["y"] = y.tolist()
            # every batch's dtype holds that batch's values exactly
            desc["label_dtype_per_batch"] = ["int8"] + [("int16" if int(np.max(y[a_:b_], initial=0)) < 2 ** 15 else r.choice(["int32", "int64"]))
                                                        for (_, a_, b_) in calls[1:]]
            cov.hit("label-dtype-widens-across-batches")

        def y_of(k_, a_, b_):
            if not widen:
                return y[a_:b_]
            return y[a_:b_].astype({"int8": np.int8, "int16": np.int16, "int32": np.int32, "int64": np.int64}[desc["label_dtype_per_batch"][k_]])
        for k, (op, a, b) in enumerate(calls):
            try:
                with quiet():
                    if op == "fit":
                        est.fit(X[a:b], y[a:b], max_iter=epochs, **kw)
                        prev_map = {}
                        targets = list(range(a, b))
                    else:
                        est.partial_fit(X[a:b], y_of(k, a, b), **kw)
                        targets += list(range(a, b))
            except Exception as e:
                sig = f"{spec['cls']}({acls}).{op}:{exc_enum(e)}"
                ctx.issue("violation", sig, f"{op} rows {a}:{b} raised {e!r} (mode {mode}, epochs {epochs})",
                          dict(desc, calls=calls, epochs=epochs))
                ok = False
                break
            rep = dict(desc, calls=calls, epochs=epochs, after_call=k)
            prev_map, done = call_clauses(ctx, est, spec["cls"], use_artmap, y, targets, prev_map, rep)
            if done:
                cov.hit(f"call-checked:{mode}")
        if not ok:
            cov.case((spec, desc["X"], desc["y"], mode, eps, calls), False)
            continue
        # predictions
        q = X[[r.randrange(n) for _ in range(min(n, 6))]]
        pred_clauses(ctx, est, spec["cls"], acls, use_artmap, q, desc)
        ncls = len(set(np.asarray(est.labels_b).tolist()))
        cov.case((spec, desc["X"], desc["y"], mode, eps, calls), ncls >= 2 and len(est.map) >= 2)
        if len(est.map) > ncls:
            cov.hit("several-categories-per-class")
        if i < 3:
            cov.sample({"spec": spec, "mode": mode, "eps": eps, "n": n, "calls": calls, "map": dict(est.map)})
    rejected_call_histories(ctx, ctx.scale(240, 3000), ctx.scale(14, 40))
    optimized_interpreter_histories(ctx, ctx.scale(100, 1000), ctx.scale(12, 30))
    plotting_inside_histories(ctx, ctx.scale(70, 900), ctx.scale(12, 30))
    shared_plotting_scenarios(ctx)
    e2e.smap_histories(ctx, "C09", ctx.scale(200, 4000), ctx.scale(16, 60))
    e2e.smap_epoch_histories(ctx, "C09", ctx.scale(80, 1500), ctx.scale(12, 40))
