"""C04 — training is total and numerically well-defined on every valid data set.
Oracle: every public estimator family is fitted, incrementally fitted and asked
to predict on data accepted by its own validation — duplicates, samples on a
category centre, exact ties, boundary hyper-parameters — under the property's
standing guards; any exception or non-finite weight / activation / match value /
cluster centre is a violation.  The hyper-parameters are also given in every
representation validate_params accepts (integer / narrow / float32 array dtypes,
strided, read-only and broadcast arrays, NumPy scalars).  Whole histories are also run under the caller's strict
numeric policies (np.errstate(divide='raise', invalid='raise'); RuntimeWarning promoted to an error).  Fitted FALCON /
TD_FALCON / FusionART / ARTMAP models are queried through every prediction entry point with the optional arguments at
their boundary values (get_probabilistic_action offset x optimality x action_space, get_action, get_rewards,
predict(skip_channels), predict_regression(target_channels)).  Outline queries (get_2d_ellipsoids / get_bounding_boxes,
plot_cluster_bounds, visualize) are calls of a history like any other: models on MORE than two features - with categories
whose extent lies entirely outside the two drawn features - are queried between training / prediction calls, bare and inside
hosts, and the shared plotting scenarios of harness/artv/plotpure.py are continued (partial_fit, predict, centres) under
this property's oracle.  Tie: the Lean checked kernels report `zerodiv`
exactly where the implementation raises (kern ops, shared with C03)."""
from __future__ import annotations

import numpy as np

from .. import gen, families, specs
from ..impl import quiet, exc_enum, make, MODES, Recorder

RULE = ("cases = (family, hyper-parameters incl. extreme-but-legal values, stream with duplicates / centre hits / "
        "ties, batching); each runs fit or partial_fit batches, predict and get_cluster_centers; non-trivial when "
        "the stream contains a duplicate row or a boundary hyper-parameter; distinct by hash of (family spec, stream, "
        "partition); plus (elementary class, one representation of its hyper-parameters that validate_params accepts: "
        "dtype x magnitude x memory layout of array hyper-parameters, or a scalar type; bare or inside a host; stream "
        "with repeated rows; batching); plus (elementary class, bare or inside a host, numeric policy of the calling process, "
        "history fit / partial_fit batches -> rows placed on the reported category centres + repeated rows -> predict); plus "
        "(FALCON / TD_FALCON, reward stream as built / strictly positive / constant, history fit | fit+partial_fit | partial_fit "
        "batches (TD: one-row batches with single_sample_reward), then per trained / unseen state x default / explicit action "
        "space: get_actions_and_rewards, get_action(optimality), get_probabilistic_action(offset in {0, 1e-6, 1e-4, 0.1, 1} x "
        "optimality), get_rewards); plus (FusionART with 2-4 channels: predict(skip_channels) / predict_regression(target_channels) "
        "for first / last / negative / several channels; ARTMAP.predict_regression / predict_ab); plus (elementary class with an "
        "outline accessor / plot_cluster_bounds, 3-5 features, bare or inside SimpleARTMAP / DualVigilanceART / TopoART / FusionART, "
        "stream with groups of rows that differ only in features beyond the first two + repeated rows, history fit | partial_fit "
        "batch -> outline query (accessor | plot_cluster_bounds | visualize with the estimator's own labels_) -> predict -> "
        "partial_fit -> outline query -> predict -> get_cluster_centers); plus (plotpure scenario: family, 2-feature stream, "
        "plotting call inside the history, then partial_fit / predict / get_cluster_centers)")


def finite_weights(est) -> bool:
    def chk(o):
        W = getattr(o, "W", None) if "W" in getattr(o, "__dict__", {}) else None
        if W is not None:
            for w in W:
                if not np.all(np.isfinite(np.asarray(w, dtype=float))):
                    return False
        for name in ("module_a", "module_b", "base_module", "fusion_art"):
            if name in getattr(o, "__dict__", {}) and not chk(o.__dict__[name]):
                return False
        for m in getattr(o, "__dict__", {}).get("modules", []):
            if not chk(m):
                return False
        return True
    return chk(est)


class ActivationSpy:
    """wraps `category_choice` / `match_criterion` of every module reachable from an estimator (and the
    estimator itself) and remembers the first non-finite value any of them returned"""

    def __init__(self, est):
        self.bad = []
        seen = set()

        def walk(o):
            if id(o) in seen or not hasattr(o, "__dict__"):
                return
            seen.add(id(o))
            for fn in ("category_choice", "match_criterion"):
                orig = getattr(o, fn, None)
                if callable(orig) and fn not in o.__dict__:
                    def w(*a, _orig=orig, _n=f"{type(o).__name__}.{fn}", **k):
                        out = _orig(*a, **k)
                        try:
                            ok = bool(np.all(np.isfinite(np.asarray(out[0], dtype=float))))
                        except Exception:
                            ok = True
                        if not ok and len(self.bad) < 4:
                            self.bad.append((_n, repr(out[0])))
                        return out
                    o.__dict__[fn] = w
            for name in ("module_a", "module_b", "base_module", "fusion_art"):
                if name in o.__dict__:
                    walk(o.__dict__[name])
            for m in o.__dict__.get("modules", []) or []:
                walk(m)
            for m in o.__dict__.get("layers", []) or []:
                walk(m)
        walk(est)


def extreme(r, fam):
    """push hyper-parameters to legal extremes"""
    def tweak(spec):
        if not isinstance(spec, dict):
            return
        cls = spec.get("cls")
        if cls in ("HypersphereART", "EllipsoidART") and r.random() < 0.3:
            spec["r_hat"] = r.choice([0.0, 2.0 ** -20, 1e6])
        if cls == "GaussianART" and r.random() < 0.3:
            d = len(spec["sigma_init"])
            spec["sigma_init"] = [r.choice([0.0, 2.0 ** -20, 1e3])] * d
        if cls == "FuzzyART" and r.random() < 0.2:
            spec["alpha"] = r.choice([1e-300, 1e6]) if spec["rho"] == 0 else r.choice([0.0, 1e-300, 1e6])
        if cls == "ART1" and r.random() < 0.2:
            spec["L"] = r.choice([1.0, 1e6]) if spec["rho"] > 0 else 1e6
        if cls == "QuadraticNeuronART" and r.random() < 0.2:
            spec["s_init"] = r.choice([0.0, 1e-6, 1e3])
        for v in spec.values():
            if isinstance(v, dict):
                tweak(v)
            elif isinstance(v, list):
                for t in v:
                    tweak(t)
    tweak(fam.spec)


def run(ctx):
    cov = ctx.cov
    N = ctx.scale(520, 5000)
    nmax = ctx.scale(16, 50)
    names = families.ALL_FAMILIES
    for i in range(N):
        r = gen.rng_for(ctx.seed, "C04", i)
        name = names[i % len(names)]
        n = r.randint(2, nmax)
        fam, rows = families.build(r, name, n, floats=r.random() < 0.3)
        n = len(rows)
        boundary = False
        if r.random() < 0.35:
            extreme(r, fam)
            boundary = True
        # duplicates: repeat a prefix of the stream
        dup = r.random() < 0.6
        if dup:
            idx = list(range(n)) + [r.randrange(n) for _ in range(r.randint(1, n))]
            r.shuffle(idx)
            rows = rows.take(np.array(idx))
            n = len(idx)
        desc = dict(fam.describe(), rows=rows.tolist())
        try:
            est = fam.make()
        except AssertionError:
            cov.hit(f"rejected-by-validate_params:{name}")
            continue
        except Exception as e:
            ctx.issue("violation", f"{name}.__init__:{exc_enum(e)}", f"constructor raised {e!r}", desc)
            continue
        parts = gen.compositions(r, n)
        stage = "fit"
        spy = ActivationSpy(est)
        try:
            with np.errstate(all="ignore"):
                if fam.has_pfit and (not fam.has_fit or r.random() < 0.5):
                    stage = "partial_fit"
                    j = 0
                    for p in parts:
                        fam.pfit(est, rows.sl(j, j + p))
                        j += p
                else:
                    fam.fit(est, rows)
                if not finite_weights(est):
                    ctx.issue("violation", f"{name}:non-finite-weight", f"NaN/inf in learned weights after {stage}", dict(desc, partition=parts))
                if fam.has_predict:
                    stage = "predict"
                    fam.predict(est, rows.sl(0, min(n, 6)))
                stage = "get_cluster_centers"
                target = est.fusion_art if name in ("FALCON", "TD_FALCON") else est
                if hasattr(target, "get_cluster_centers") and not name.startswith("Deep") and name not in ("SMART", "SimpleARTMAP", "ARTMAP"):
                    if getattr(_bounds_owner(target), "d_max_", 1) is not None:
                        with quiet():
                            cen = target.get_cluster_centers()
                        if not all(np.all(np.isfinite(np.asarray(c, dtype=float))) for c in cen):
                            ctx.issue("violation", f"{name}:non-finite-centre", "NaN/inf in get_cluster_centers()", dict(desc, partition=parts))
            if spy.bad:
                ctx.issue("violation", f"{name}:non-finite-activation-or-match:{spy.bad[0][0]}",
                          f"non-finite value returned during training or prediction: {spy.bad[:2]}", dict(desc, partition=parts))
        except Exception as e:
            sig = f"{name}.{stage}:{exc_enum(e)}"
            if name == "TopoART" and stage == "predict" and len(est.W) == 0:
                sig = "TopoART.predict:empty-model"
            ctx.issue("violation", sig, f"{stage} raised {e!r} on data accepted by validate_data", dict(desc, partition=parts))
        cov.case((name, fam.spec, desc["rows"], parts), dup or boundary)
        if dup:
            cov.hit("duplicates")
        if boundary:
            cov.hit("extreme-hyperparameters")
        if i < 3:
            cov.sample({"family": name, "spec": fam.spec, "n": n, "duplicates": dup})
    finite_kernels(ctx)
    targeted(ctx)
    multi_epoch(ctx)
    nonfinite_inputs(ctx)
    reset_histories(ctx)
    several_instances(ctx)
    param_representations(ctx)
    strict_numeric_policy(ctx)
    prediction_arguments(ctx)
    outline_queries(ctx)
    plotting_histories(ctx)


def _bounds_owner(est):
    return getattr(est, "base_module", est)


def finite_kernels(ctx):
    """activations and match values recorded during training are finite"""
    cov = ctx.cov
    M = ctx.scale(160, 4000)
    for i in range(M):
        r = gen.rng_for(ctx.seed, "C04-k", i)
        cls = specs.ELEM[i % len(specs.ELEM)]
        d = r.randint(1, 3)
        n = r.randint(2, 14)
        spec = specs.elem_spec(r, cls, specs.width(cls, d) if cls != "FuzzyART" else d)
        X = specs.elem_data(r, cls, n, d, style=r.choice(["dups", "coarse", "corners"]) if cls != "ART1" else None)
        # a sample that coincides with an existing centre: repeat rows
        X = np.vstack([X, X[: max(1, n // 2)]])
        try:
            m = make(spec)
            rec = Recorder(m)
            with quiet(), np.errstate(all="ignore"):
                m.fit(X, match_tracking=r.choice(MODES))
        except Exception as e:
            ctx.issue("violation", f"{cls}.fit:{exc_enum(e)}", f"fit raised {e!r} on repeated rows", {"spec": spec, "X": X.tolist()})
            continue
        bad = [(si, "T") for si, st in enumerate(rec.steps) if not np.all(np.isfinite(st.Tcalls))]
        bad += [(si, "M") for si, st in enumerate(rec.steps) for (mv, _, _) in st.Mseq if not np.all(np.isfinite(mv))]
        if bad:
            ctx.issue("violation", f"{cls}:non-finite-activation-or-match", f"steps {bad[:4]}", {"spec": spec, "X": X.tolist()})
        cov.case(("k", cls, spec, X.tolist()), True)
        cov.hit("sample-equals-centre")


def targeted(ctx):
    """cases the random families reach rarely: FusionART channels whose weight is longer than the
    channel (finding F07) and prediction after a pruning round that removed every category (F14)"""
    from ..impl import time_limit
    cov = ctx.cov
    longer = ["HypersphereART", "EllipsoidART", "ART1", "GaussianART", "BayesianART", "QuadraticNeuronART"]
    for i in range(ctx.scale(36, 600)):
        r = gen.rng_for(ctx.seed, "C04-fusion-long", i)
        cls = longer[i % len(longer)]
        d = r.randint(1, 2)
        other = "FuzzyART"
        sp = [specs.elem_spec(r, cls, d), specs.elem_spec(r, other, 1)]
        order = [0, 1] if r.random() < 0.5 else [1, 0]
        chans = [(cls, d), (other, 1)]
        spec = {"cls": "FusionART", "modules": [sp[k] for k in order], "gamma_values": [0.5, 0.5],
                "channel_dims": [specs.width(chans[k][0], chans[k][1]) for k in order]}
        n = r.randint(3, 10)
        X = np.hstack([specs.elem_data(r, chans[k][0], n, chans[k][1]) for k in order])
        rep = {"spec": spec, "X": X.tolist()}
        sig = f"FusionART({cls}):weight-longer-than-channel"
        try:
            est = make(spec)
            with quiet(), time_limit(90.0), np.errstate(all="ignore"):
                est.fit(X)
                est.predict(X[:2])
            # the channel module must hold what it alone would create from its slice of the first sample
            k = order.index(0)
            a = sum(spec["channel_dims"][:k])
            bare = make(sp[0])
            bare.check_dimensions(X[:, a:a + spec["channel_dims"][k]]) if hasattr(bare, "check_dimensions") else None
            want = len(np.asarray(bare.new_weight(X[0, a:a + spec["channel_dims"][k]], bare.params)))
            got = len(np.asarray(est.modules[k].W[0]))
            if got != want:
                ctx.issue("violation", sig, f"channel module stores weights of length {got}, its own new_weight has length {want} "
                          "(the fused weight is sliced by data-channel widths)", rep)
            elif not finite_weights(est):
                ctx.issue("violation", sig, "non-finite channel weights", rep)
            else:
                cov.hit(f"fusion-longer-weight-ok:{cls}")
        except Exception as e:
            ctx.issue("violation", sig, f"fit/predict raised {exc_enum(e)}: {e!r}", rep)
        cov.case(("fusion-long", spec, rep["X"]), True)
    from ..impl import TopoART, FuzzyART
    for i in range(ctx.scale(6, 60)):
        r = gen.rng_for(ctx.seed, "C04-topo-wipe", i)
        tau = r.randint(2, 4)
        X = gen.cc(np.array([[k / (tau - 1 + 1e-9) if tau > 1 else 0.0, (k * 7 % tau) / tau] for k in range(tau)]))
        X = gen.cc(np.array([[(k % 2) * 1.0, (k // 2 % 2) * 1.0] for k in range(tau)]))
        rep = {"tau": tau, "phi": 2, "X": X.tolist()}
        try:
            with quiet(), time_limit(90.0):
                t = TopoART(FuzzyART(1.0, 2.0 ** -10, 1.0), 0.5, tau, 2)
                t.fit(X)
                emptied = len(t.W) == 0
                t.predict(X[:1])
            cov.hit("topo-wipe-out-predict-ok" if emptied else "topo-no-wipe-out")
        except Exception as e:
            if len(t.W) == 0:
                ctx.issue("violation", "TopoART.predict:empty-model",
                          f"predict raises {e!r} after a pruning round removed every category", rep)
            else:
                ctx.issue("violation", f"TopoART.fit-or-predict:{exc_enum(e)}", repr(e), rep)
        cov.case(("topo-wipe", tau), True)


def multi_epoch(ctx):
    """several epochs (max_iter > 1), then incremental training and prediction: every estimator whose fit
    offers max_iter (oracle only; the Lean model covers one training pass)"""
    cov = ctx.cov
    names = families.ELEM + ["FusionART", "DualVigilanceART", "TopoART", "SimpleARTMAP", "ARTMAP", "SMART", "DeepARTMAP-sup", "CVIART"]
    for i in range(ctx.scale(57, 1200)):
        r = gen.rng_for(ctx.seed, "C04-epochs", i)
        name = names[i % len(names)]
        n = r.randint(2, 12)
        fam, rows = families.build(r, name, n)
        n = len(rows)
        k = r.choice([2, 3])
        desc = dict(fam.describe(), rows=rows.tolist(), max_iter=k)
        est = fam.make()
        stage = f"fit(max_iter={k})"
        try:
            with quiet(), np.errstate(all="ignore"):
                a = rows.arrs
                kw = fam.kw()
                if name in ("SimpleARTMAP", "ARTMAP"):
                    est.fit(a["X"], a["y"], max_iter=k, **kw)
                elif name == "DeepARTMAP-sup":
                    est.fit(a["Xs"], a["y"], max_iter=k, **kw)
                else:
                    est.fit(a["X"], max_iter=k, **kw)
            if not finite_weights(est):
                ctx.issue("violation", f"{name}:non-finite-weight", f"NaN/inf in learned weights after {stage}", desc)
            if fam.has_pfit:
                stage = f"partial_fit after fit(max_iter={k})"
                fam.pfit(est, rows.sl(0, max(1, n // 2)))
            if fam.has_predict:
                stage = "predict"
                fam.predict(est, rows.sl(0, min(n, 4)))
            cov.hit("multi-epoch-ok")
        except Exception as e:
            ctx.issue("violation", f"{name}.{stage.split('(')[0].replace(' ', '_')}:multi-epoch:{exc_enum(e)}",
                      f"{stage} raised {e!r} on data accepted by validate_data", desc)
        cov.case(("epochs", name, fam.spec, desc["rows"], k), True)


def nonfinite_inputs(ctx):
    """a matrix with a NaN or infinite entry: either the estimator's own validate_data rejects it (then it is outside
    the statement), or — if validation lets it through — training on it must still keep every weight finite"""
    cov = ctx.cov
    names = families.ELEM + ["FusionART", "DualVigilanceART", "TopoART"]
    for i in range(ctx.scale(44, 400)):
        r = gen.rng_for(ctx.seed, "C04-nonfinite", i)
        name = names[i % len(names)]
        fam, rows = families.build(r, name, r.randint(3, 8))
        X = np.array(rows.arrs["X"], dtype=float)
        bad = r.choice([np.nan, np.nan, np.inf, -np.inf])
        X[r.randrange(len(X)), r.randrange(X.shape[1])] = bad
        desc = dict(fam.describe(), X=X.tolist())
        try:
            est = fam.make()
        except Exception:
            continue
        try:
            with quiet():
                est.validate_data(X)
        except Exception:
            cov.hit("non-finite-entry:rejected-by-validate_data")
            continue
        cov.hit("non-finite-entry:ACCEPTED-by-validate_data")
        try:
            with quiet(), np.errstate(all="ignore"):
                est.fit(X)
            if not finite_weights(est):
                ctx.issue("violation", f"{name}:validate_data-accepts-{'nan' if bad != bad else 'inf'}-then-non-finite-weights",
                          f"validate_data accepted a matrix with a {bad} entry and fit left non-finite weights", desc)
        except Exception as e:
            ctx.issue("violation", f"{name}:validate_data-accepts-{'nan' if bad != bad else 'inf'}-then-fit-raises:{exc_enum(e)}",
                      f"validate_data accepted a matrix with a {bad} entry and fit raised {e!r}", desc)
        cov.case(("nonfinite", name, fam.spec, desc["X"]), True)


def reset_histories(ctx):
    """training under a vetoing reset function in every match-tracking mode — bare modules, FusionART,
    DualVigilanceART, TopoART, and the same compounds as A-side of SimpleARTMAP (class vetoes): every exit path of
    the search (resonance after vetoes, abandoned search under MT1, exhausted candidates) must stay total, and the
    model must accept a further sample and a prediction afterwards"""
    cov = ctx.cov
    classes = specs.ELEM + ["FusionART", "DualVigilanceART", "TopoART"]
    compounds = ["TopoART", "DualVigilanceART", "FusionART"]
    Nmain, Nhost = ctx.scale(165, 3300), ctx.scale(150, 3000)
    for i in range(Nmain + Nhost):
        r = gen.rng_for(ctx.seed, "C04-reset", i)
        forced_host = i >= Nmain
        cls = classes[i % len(classes)] if not forced_host else compounds[i % 3]
        mode = MODES[(i // len(classes)) % 5] if not forced_host else MODES[(i // 3) % 5]
        eps = r.choice([0.0, 2.0 ** -10, 0.125])
        n = r.randint(3, 12)
        fam, rows = families.build(r, cls, n, mode=mode, eps=eps)
        n = len(rows)
        X = rows.arrs["X"]
        hosted = i % 3 == 2 or forced_host
        if hosted and cls == "TopoART" and (forced_host or r.random() < 0.6):
            fam.spec["tau"] = 1000          # a pruning A-side under a host is known finding F37; most hosted cases do not prune
        vt = gen.veto_table(r, n, n + 2)
        y = gen.labels(r, n, r.randint(2, 3))
        desc = dict(fam.describe(), rows=rows.tolist(), mode=mode, eps=eps, hosted=hosted, veto=None if hosted else vt, y=y.tolist() if hosted else None)
        stage = "fit"
        try:
            state = {"i": -1}
            if hosted:
                est = make({"cls": "SimpleARTMAP", "module_a": fam.spec})
                with quiet(), np.errstate(all="ignore"):
                    est.fit(X, y, match_tracking=mode, epsilon=eps)
                    stage = "partial_fit"
                    est.partial_fit(X[:2], y[:2][::-1].copy(), match_tracking=mode, epsilon=eps)
                    stage = "predict"
                    est.predict(X[: min(n, 4)])
            else:
                est = fam.make()
                o_step = est.step_fit

                def step(x, *a, _o=o_step, **kw):
                    state["i"] += 1
                    return _o(x, *a, **kw)
                object.__setattr__(est, "step_fit", step)
                reset = lambda i_, w_, c_, params=None, cache=None: not vt[state["i"] % n][int(c_) % (n + 2)]
                with quiet(), np.errstate(all="ignore"):
                    est.fit(X, match_reset_func=reset, match_tracking=mode, epsilon=eps)
                    if fam.has_pfit:
                        stage = "partial_fit"
                        est.partial_fit(X[:2], match_reset_func=reset, match_tracking=mode, epsilon=eps)
                    stage = "predict"
                    est.predict(X[: min(n, 4)])
            if not finite_weights(est):
                ctx.issue("violation", f"{cls}+reset:non-finite-weight", f"NaN/inf in learned weights (mode {mode})", desc)
            cov.hit(f"reset-history:{mode}:{'hosted' if hosted else 'callback'}")
        except Exception as e:
            ctx.issue("violation", f"{'SimpleARTMAP/' if hosted else ''}{cls}.{stage}+reset:{exc_enum(e)}",
                      f"{stage} under a vetoing reset function (mode {mode}) raised {e!r} on data accepted by validate_data", desc)
        cov.case(("reset", cls, fam.spec, desc["rows"], mode, eps, hosted), True)


def several_instances(ctx):
    """several estimators of different layouts alive in one process, every entry point called with its DEFAULT
    arguments, in both orders: a call on one instance must not make a later call on another instance raise
    (module-level state, shared mutable defaults)"""
    cov = ctx.cov
    for i in range(ctx.scale(8, 80)):
        r = gen.rng_for(ctx.seed, "C04-instances", i)
        ks = [3, 2] if i % 2 == 0 else [2, 3]
        if r.random() < 0.3:
            ks.append(r.choice([1, 4]))
        ests, datas = [], []
        for k in ks:
            ds = [r.randint(1, 2) for _ in range(k)]
            sp = [specs.elem_spec(r, "FuzzyART", d_) for d_ in ds]
            spec = {"cls": "FusionART", "modules": sp, "gamma_values": [1.0 / k] * k, "channel_dims": [2 * d_ for d_ in ds]}
            n = r.randint(4, 10)
            X = np.hstack([specs.elem_data(r, "FuzzyART", n, d_) for d_ in ds])
            e_ = make(spec)
            with quiet():
                for m_, d_ in zip(e_.modules, ds):       # documented workflow: prepare_data fixes the column bounds (identity here)
                    m_.prepare_data(np.array([[0.0] * d_, [1.0] * d_]))
            ests.append((spec, e_))
            datas.append(X)
        stage = "fit"
        desc = {"specs": [s_ for s_, _ in ests], "X": [X.tolist() for X in datas]}
        try:
            with quiet(), np.errstate(all="ignore"):
                for (spec, est), X in zip(ests, datas):
                    stage = f"fit (model with {spec['channel_dims'].__len__()} channels)"
                    est.fit(X)
                    stage = f"predict (model with {len(spec['channel_dims'])} channels)"
                    est.predict(X[:3])
                    stage = f"predict_regression with default targets (model with {len(spec['channel_dims'])} channels)"
                    out = est.predict_regression(X[:3])
                    if not np.all(np.isfinite(np.asarray(out, dtype=float))):
                        ctx.issue("violation", "FusionART.predict_regression:non-finite", f"{stage}: non-finite output", desc)
                    stage = f"get_cluster_centers (model with {len(spec['channel_dims'])} channels)"
                    est.get_cluster_centers()
            cov.hit("several-instances-ok:" + "-".join(map(str, ks)))
        except Exception as e:
            ctx.issue("violation", f"FusionART:several-instances:{stage.split(' (')[0].replace(' ', '_')}:{exc_enum(e)}",
                      f"models with {ks} channels used one after the other in one process: {stage} raised {e!r} on valid fitted data", desc)
        cov.case(("instances", tuple(ks), desc["X"]), True)


# ---------------------------------------------------------------- representations of the hyper-parameters
# The statement quantifies over "all hyper-parameters accepted by validate_params".  validate_params looks at
# values (ranges) and, for some keys, at the Python type; what it lets through is wider than "a Python float / a
# float64 C-contiguous ndarray": an ndarray hyper-parameter (GaussianART.sigma_init, BayesianART.cov_init) of ANY
# real dtype (np.ones(d, dtype=int), np.eye(d, dtype=int), float32 ...) and of any memory layout (strided view,
# read-only, zero-stride broadcast, Fortran order), np.float64 scalars (a subclass of float), and - for keys whose
# type is not looked at - Python ints and NumPy scalars of any width.  Each case re-expresses the SAME kind of legal
# values in one such representation, asks the class's own validate_params, and - if accepted - trains.

REAL_DTYPES = sorted({np.dtype(c).name for c in np.typecodes["AllInteger"] + np.typecodes["Float"]})
ARRAY_HOSTS = ["bare", "bare", "SimpleARTMAP", "FusionART", "DualVigilanceART"]


def _array_values(r, dtype: np.dtype, extreme_: bool):
    """a positive value that `dtype` holds exactly: ordinary (the range of specs.elem_spec) or extreme-but-legal
    (the range of `extreme` above: 2^-20 .. 1e3, clipped to what the dtype can hold)"""
    if dtype.kind in "iu":
        hi = min(1000, int(np.iinfo(dtype).max))
        return r.choice([hi, hi // 2 + 1, 16, 12]) if extreme_ else r.choice([1, 1, 2, 3])
    return r.choice([2.0 ** -20, 1000.0, 256.0]) if extreme_ else r.choice([0.25, 0.5, 1.0, 2.0])


def _as_layout(r, a: np.ndarray, layout: str) -> np.ndarray:
    """the same values and dtype in another memory layout"""
    if layout == "strided":                      # every other element of a larger buffer
        big = np.zeros(tuple(2 * k for k in a.shape), dtype=a.dtype)
        view = big[tuple(slice(None, None, 2) for _ in a.shape)]
        view[...] = a
        return view
    if layout == "readonly":
        b = a.copy()
        b.flags.writeable = False
        return b
    if layout == "fortran":
        return np.asfortranarray(a)
    if layout == "broadcast":                    # np.broadcast_to(scalar, shape): zero strides, read-only
        if a.ndim == 1 and len(set(a.tolist())) == 1:
            return np.broadcast_to(a[:1].copy()[0], a.shape)
        return a
    return a


def _scalar_candidates(v: float):
    out = [("np.float64", np.float64(v)), ("np.float32", np.float32(v)), ("np.float16", np.float16(v))]
    if float(v).is_integer() and abs(v) < 2 ** 15:
        out += [("int", int(v)), ("np.int64", np.int64(int(v))), ("np.int32", np.int32(int(v))), ("np.uint8", np.uint8(int(v)))] \
            if 0 <= v < 256 else [("int", int(v)), ("np.int64", np.int64(int(v)))]
    return [(n_, c) for n_, c in out if float(c) == float(v)]      # only exact re-expressions of the same value


def _py(v):
    """source text that rebuilds a hyper-parameter (for the replay)"""
    if isinstance(v, np.ndarray):
        vals = v.astype(float).tolist() if v.dtype.kind == "f" else v.tolist()     # exact: every generated value is a small dyadic
        return f"np.array({vals!r}, dtype=np.{v.dtype.name})"
    if isinstance(v, np.generic):
        return f"np.{type(v).__name__}({float(v) if v.dtype.kind == 'f' else int(v)!r})"
    return repr(v)


def _drive_repr(cls, params, d, host, X, y, mode, parts):
    """build `cls(**params)` (bare or inside `host`), train, predict, read the centres: None when everything the
    statement asks for holds, else (signature suffix, what)"""
    import artlib
    from ..impl import ELEMENTARY, time_limit
    stage = "__init__"
    try:
        with quiet(), time_limit(90.0), np.errstate(all="ignore"):
            mod = ELEMENTARY[cls](**params)
            if host == "bare":
                est = mod
            elif host == "SimpleARTMAP":
                est = artlib.SimpleARTMAP(mod)
            elif host == "DualVigilanceART":
                est = artlib.DualVigilanceART(mod, float(params["rho"]) / 2)
            else:
                est = artlib.FusionART([mod, artlib.FuzzyART(0.5, 2.0 ** -10, 1.0)], [0.5, 0.5], [specs.width(cls, d), 2])
                X = np.hstack([X, gen.cc(X[:, :1])])                 # second channel: FuzzyART on the first raw column
            spy = ActivationSpy(est)
            args = (lambda a, b: (X[a:b], y[a:b])) if host == "SimpleARTMAP" else (lambda a, b: (X[a:b],))
            if parts is not None:
                stage = "partial_fit"
                j = 0
                for p in parts:
                    est.partial_fit(*args(j, j + p), match_tracking=mode)
                    j += p
                    if not finite_weights(est):          # "remain finite": after every batch, not only at the end
                        return ":non-finite-weight", f"NaN/inf in the learned weights after the batch ending at row {j}: W = {[np.asarray(w).tolist() for w in mod.W][:3]}"
            else:
                stage = "fit"
                est.fit(*args(0, len(X)), match_tracking=mode)
            stage = "predict"
            est.predict(X[: min(len(X), 5)])
            stage = "get_cluster_centers"
            cen = mod.get_cluster_centers() if getattr(mod, "d_max_", 1) is not None else []
        if not finite_weights(est):
            return ":non-finite-weight", f"NaN/inf in the learned weights: W[0] = {np.asarray(mod.W[0]).tolist()}"
        if not all(np.all(np.isfinite(np.asarray(c, dtype=float))) for c in cen):
            return ":non-finite-centre", "NaN/inf in get_cluster_centers()"
        if spy.bad:
            return f":non-finite-activation-or-match:{spy.bad[0][0]}", f"non-finite value returned during training or prediction: {spy.bad[:2]}"
        return None
    except Exception as e:
        return f".{stage}:{exc_enum(e)}", f"{stage} raised {e!r}"


def param_representations(ctx):
    """hyper-parameters accepted by validate_params in every representation it accepts (dtype and memory layout of
    array hyper-parameters, scalar types), bare and inside compound estimators: fit, partial_fit in batches, predict
    and get_cluster_centers raise nothing and leave only finite weights / activations / match values / centres.
    A case re-expresses either the array hyper-parameters or the scalar ones (one representation per case), so that
    the signature names the representation that was exercised; a failure inside a host is re-run on the bare module
    and reported against the smallest context that shows it."""
    from ..impl import ELEMENTARY
    cov = ctx.cov
    with_arrays = [c for c in specs.ELEM if any(isinstance(v, list) for v in specs.elem_spec(gen.rng_for(0, "C04-repr-probe"), c, 2).values())]
    classes = with_arrays * 3 + specs.ELEM          # array hyper-parameters carry most of the cases; scalars for every class
    for i in range(ctx.scale(560, 5600)):
        r = gen.rng_for(ctx.seed, "C04-repr", i)
        cls = classes[i % len(classes)]
        C = ELEMENTARY[cls]
        d = r.randint(1, 3)
        spec = specs.elem_spec(r, cls, d)
        params = {k: v for k, v in spec.items() if k != "cls"}
        akeys = [k for k, v in params.items() if isinstance(v, list)]
        arrays_case = bool(akeys) and i % len(classes) < 3 * len(with_arrays)
        for key in akeys:                                              # what impl.make does: float64, C-contiguous
            params[key] = np.array(params[key], dtype=float)
        tag, layouts = None, {}
        if arrays_case:
            # ---- array hyper-parameters: dtype x magnitude x layout
            j = (i // len(classes)) * 3 * len(with_arrays) + i % len(classes)         # running number of the array case
            dt = np.dtype(REAL_DTYPES[(j // len(with_arrays)) % len(REAL_DTYPES)])     # every class meets every dtype in turn
            ext = r.random() < 0.3
            for key in akeys:
                shape = params[key].shape
                if len(shape) == 1:
                    a = np.array([_array_values(r, dt, ext) for _ in range(shape[0])]).astype(dt)
                    if r.random() < 0.4:
                        a[:] = a[0]
                else:
                    a = (np.eye(shape[0]) * _array_values(r, dt, ext)).astype(dt)
                layout = r.choice(["contiguous", "contiguous", "strided", "readonly", "broadcast" if a.ndim == 1 else "fortran"])
                params[key] = _as_layout(r, a, layout)
                assert params[key].dtype == dt and np.array_equal(params[key], a)
                layouts[key] = layout
            tag = "+".join(akeys) + f":{dt.name}" + ("+extreme" if ext else "")
            try:
                with quiet():
                    C.validate_params(params)
            except AssertionError:
                cov.hit(f"repr:array:{dt.name}:rejected-by-validate_params")
                continue
            cov.hit(f"repr:array-dtype:{dt.name}")
            cov.hit(f"repr:array-dtype-kind:{'integer' if dt.kind in 'iu' else 'float'}{'+extreme' if ext else ''}")
            for layout in layouts.values():
                cov.hit(f"repr:array-layout:{layout}")
        else:
            # ---- scalar hyper-parameters: one scalar type, on every key where validate_params lets the exact value through
            accepted = {}
            for nm in ["np.float64", "np.float32", "np.float16", "int", "np.int64", "np.int32", "np.uint8"]:
                for key in [k for k, v in params.items() if isinstance(v, float)]:
                    cand = dict(_scalar_candidates(params[key])).get(nm)
                    if cand is None:
                        continue
                    try:
                        with quiet():
                            C.validate_params(dict(params, **{key: cand}))
                    except AssertionError:
                        cov.hit(f"repr:scalar:{nm}:rejected-by-validate_params")
                        continue
                    except Exception as e:
                        ctx.issue("violation", f"{cls}.validate_params[{key}:{nm}]:{exc_enum(e)}",
                                  f"validate_params raised {e!r} instead of accepting or rejecting", {"cls": cls, "key": key, "value": _py(cand)})
                        continue
                    accepted.setdefault(nm, {})[key] = cand
            if not accepted:
                continue
            rare = [nm for nm in accepted if nm != "np.float64"]
            nm = r.choice(rare) if rare and (r.random() < 0.6 or "np.float64" not in accepted) else r.choice(sorted(accepted))
            params = dict(params, **accepted[nm])
            tag = f"{'+'.join(accepted[nm])}:{nm}"
            cov.hit(f"repr:scalar:{nm}:accepted")
        host = r.choice(ARRAY_HOSTS)
        if host == "DualVigilanceART" and (cls == "BayesianART" or not float(params["rho"]) > 0.0):
            host = "bare"
        n = r.randint(3, 12)
        X = specs.elem_data(r, cls, n, d, style=r.choice(["dups", "coarse", "corners", "blobs"]) if cls != "ART1" else None)
        X = np.vstack([X, X[: max(1, n // 3)]])                       # repeated rows: samples on a category centre
        y = gen.labels(r, len(X), r.randint(1, 3))
        mode = r.choice(MODES)
        parts = gen.compositions(r, len(X)) if r.random() < 0.5 else None
        ctor = f"{cls}(" + ", ".join(f"{k}={_py(v)}" for k, v in params.items()) + ")"
        bad = _drive_repr(cls, params, d, host, X, y, mode, parts)
        if bad is not None and host != "bare":
            alone = _drive_repr(cls, params, d, "bare", X, y, mode, parts) or _drive_repr(cls, params, d, "bare", X, y, mode, [1] * len(X))
            if alone is not None and _drive_repr(cls, params, d, "bare", X, y, mode, parts) is None:
                parts = [1] * len(X)
            if alone is not None:
                bad, host = alone, "bare"
        if bad is not None:
            rep = {"cls": cls, "params": {k: _py(v) for k, v in params.items()}, "constructor": ctor, "array_memory_layout": layouts or None, "host": host,
                   "X": X.tolist(),
                   "y": y.tolist() if host == "SimpleARTMAP" else None, "match_tracking": mode,
                   "second_channel_of_FusionART": "FuzzyART(0.5, 2**-10, 1.0) on complement-coded X[:, :1]" if host == "FusionART" else None,
                   "calls": (f"partial_fit on consecutive batches of sizes {parts}" if parts else "fit") + ", predict, get_cluster_centers"}
            where = cls if host == "bare" else f"{host}/{cls}"
            ctx.issue("violation", f"{where}[{tag}]{bad[0]}",
                      f"{bad[1]} on valid data although validate_params accepted the hyper-parameters: {ctor}", rep)
        else:
            cov.hit(f"repr:trained-ok:{host}")
        cov.case(("repr", cls, tag, host, ctor, X.tolist(), parts, mode), True)
        if i % 40 == 0:
            cov.sample({"representation": tag, "constructor": ctor, "host": host})


# ---------------------------------------------------------------- the caller's numeric policy
# "Can be fitted, incrementally fitted and predicted without an exception" is a statement about calls made from ANY
# process, also one that runs under a strict floating-point policy: np.seterr / np.errstate(divide='raise',
# invalid='raise') (a common debugging and production-hardening setting) or `python -W error::RuntimeWarning` /
# warnings.simplefilter('error', RuntimeWarning) (what pytest's `-W error` does).  Every other section of this check
# calls the library under np.errstate(all='ignore') with warnings silenced, where an operation whose result is thrown
# away (0/0 computed next to the guard that discards it, 1/0 in a branch np.where does not select) is invisible.  Under
# a strict policy the same operation aborts training.  Here whole histories - fit or partial_fit batches with repeated
# rows, then rows placed exactly on the category centres the model reports, then predict - run with the policy in force
# around every call.  Underflow stays at NumPy's default ('ignore') under every policy: a product or an exponential
# that underflows to zero is legitimate arithmetic, not an ill-defined operation.

NUMPY_DEFAULT_ERRSTATE = dict(divide="warn", over="warn", under="ignore", invalid="warn")
POLICIES = {
    # name: (errstate, RuntimeWarning is an error)
    "errstate-raise": (dict(NUMPY_DEFAULT_ERRSTATE, divide="raise", invalid="raise"), False),
    "warnings-error": (dict(NUMPY_DEFAULT_ERRSTATE), True),
    "errstate-raise+warnings-error": (dict(NUMPY_DEFAULT_ERRSTATE, divide="raise", invalid="raise"), True),
    "lenient": (dict(divide="ignore", over="ignore", under="ignore", invalid="ignore"), False),   # what the other sections use
}
STRICT_HOSTS = ["bare", "SimpleARTMAP", "FusionART", "bare", "SimpleARTMAP", "FusionART", "DualVigilanceART", "TopoART", "ARTMAP"]


def numeric_policy(name):
    """the numeric policy `name` of the calling process (inside `quiet()`, whose blanket 'ignore' filter it refines)"""
    import contextlib
    import warnings

    @contextlib.contextmanager
    def cm():
        errstate, werror = POLICIES[name]
        with warnings.catch_warnings():
            warnings.simplefilter("ignore")
            if werror:
                warnings.simplefilter("error", RuntimeWarning)
            with np.errstate(**errstate):
                yield
    return cm()


def _strict_spec(r, cls, d, host):
    """spec of `cls` (raw dimension d) bare or inside `host`; None when the host does not take the class"""
    sp = specs.elem_spec(r, cls, d)
    if host == "bare":
        return sp
    if host == "SimpleARTMAP":
        return {"cls": "SimpleARTMAP", "module_a": sp}
    if host == "ARTMAP":
        return {"cls": "ARTMAP", "module_a": sp, "module_b": specs.elem_spec(r, "FuzzyART", 1)}
    if host == "FusionART":
        return {"cls": "FusionART", "modules": [sp, specs.elem_spec(r, "FuzzyART", 1)], "gamma_values": [0.5, 0.5],
                "channel_dims": [specs.width(cls, d), 2]}
    if host == "DualVigilanceART":
        if cls == "BayesianART":
            return None
        if sp["rho"] == 0.0:
            sp["rho"] = 0.5
        return {"cls": "DualVigilanceART", "base_module": sp, "rho_lower_bound": r.choice([x for x in [0.0, 0.125, 0.25, 0.375] if x < sp["rho"]])}
    if host == "TopoART":
        if cls not in specs.HAS_BETA:
            return None
        tau = r.randint(2, 8)
        return {"cls": "TopoART", "base_module": sp, "beta_lower": r.choice([b for b in [0.0, 0.25, 0.5, 1.0] if b <= sp["beta"]]),
                "tau": tau, "phi": r.randint(1, tau)}
    raise KeyError(host)


def _strict_inner(est, host):
    return {"bare": lambda: est, "SimpleARTMAP": lambda: est.module_a, "ARTMAP": lambda: est.module_a,
            "FusionART": lambda: est.modules[0], "DualVigilanceART": lambda: est.base_module, "TopoART": lambda: est.base_module}[host]()


def _drive_strict(spec, cls, d, host, policy, X1, y1, parts, pick2, y2pick, mode, eps):
    """one whole history under `policy`: construct; fit(X1) or partial_fit over the batches `parts` of X1; read the
    category centres the model reports and place samples exactly on them (where the class's own validate_data accepts
    such a sample), followed by the rows `pick2` of X1 again; train on those (partial_fit); predict everything; read the
    centres.  Returns (None | (signature suffix, what), info)"""
    from ..impl import time_limit
    info = {"X2": None, "y2": None, "on_centre": 0, "stage": "__init__"}
    fus = (lambda S: np.hstack([S, gen.cc(S[:, :1])])) if host == "FusionART" else (lambda S: S)
    sup = host in ("SimpleARTMAP", "ARTMAP")
    kw = dict(match_tracking=mode, epsilon=eps)
    try:
        with quiet(), time_limit(90.0), numeric_policy(policy):
            est = make(spec)
            inner = _strict_inner(est, host)
            if cls == "FuzzyART":       # documented workflow: prepare_data fixes the column bounds get_cluster_centers needs ([0,1] = identity)
                inner.prepare_data(np.array([[0.0] * d, [1.0] * d]))
            spy = ActivationSpy(est)
            if parts is None:
                info["stage"] = "fit"
                est.fit(*((fus(X1), y1) if sup else (fus(X1),)), **kw)
            else:
                info["stage"] = "partial_fit"
                j = 0
                for p in parts:
                    est.partial_fit(*((fus(X1[j:j + p]), y1[j:j + p]) if sup else (fus(X1[j:j + p]),)), **kw)
                    j += p
            if not finite_weights(est):
                return (":non-finite-weight", f"NaN/inf in the learned weights after {info['stage']}"), info
            # ---- samples exactly on the reported category centres
            info["stage"] = "get_cluster_centers"
            cen = [np.asarray(c, dtype=float).ravel() for c in inner.get_cluster_centers()][:3]
            on = []
            for c in cen:
                s_ = np.concatenate([c, 1.0 - c]) if cls == "FuzzyART" else c
                if len(s_) != X1.shape[1] or not np.all(np.isfinite(s_)) or not 0.0 <= s_[0] <= 1.0:
                    continue
                if cls == "ART1" and not s_.any():
                    continue                      # the statement's standing guard: ART1 rows are non-zero
                try:
                    inner.validate_data(s_.reshape(1, -1))
                except Exception:
                    continue                      # e.g. a non-binary ART1 centre: not a valid sample, outside the statement
                on.append(s_)
            X2 = np.vstack(on + [X1[k] for k in pick2])
            y2 = y1[[y2pick[k % len(y2pick)] for k in range(len(on))] + list(pick2)] if sup else None
            info.update(X2=X2, y2=y2, on_centre=len(on))
            info["stage"] = "partial_fit (rows on the reported centres + repeated rows)"
            est.partial_fit(*((fus(X2), y2) if sup else (fus(X2),)), **kw)
            if not finite_weights(est):
                return (":non-finite-weight", "NaN/inf in the learned weights after training on rows placed on the category centres"), info
            info["stage"] = "predict"
            est.predict(fus(np.vstack([X1, X2])))
            info["stage"] = "get_cluster_centers"
            cen = inner.get_cluster_centers()
            if not all(np.all(np.isfinite(np.asarray(c, dtype=float))) for c in cen):
                return (":non-finite-centre", "NaN/inf in get_cluster_centers()"), info
        if spy.bad:
            return (f":non-finite-activation-or-match:{spy.bad[0][0]}", f"non-finite value returned during training or prediction: {spy.bad[:2]}"), info
        return None, info
    except AssertionError as e:
        if info["stage"] == "__init__":
            return ("rejected", None), info
        return (f".{info['stage'].split(' (')[0]}:{exc_enum(e)}", f"{info['stage']} raised {e!r}"), info
    except Exception as e:
        kind = "runtime-warning" if isinstance(e, RuntimeWarning) else exc_enum(e)
        return (f".{info['stage'].split(' (')[0]}:{kind}", f"{info['stage']} raised {e!r}"), info


def strict_numeric_policy(ctx):
    """whole histories under the calling process's strict numeric policy (see the comment above): every elementary
    class bare and inside SimpleARTMAP / FusionART / DualVigilanceART / TopoART / ARTMAP; fit or partial_fit batches on a
    stream with repeated rows, then samples placed exactly on the reported category centres, then predict - no
    exception, finite weights / activations / match values / centres.  A failure is re-run under the lenient policy of
    the other sections: the signature says whether the policy is what makes the difference."""
    from types import SimpleNamespace
    cov = ctx.cov
    pol_names = [p for p in POLICIES if p != "lenient"]
    for i in range(ctx.scale(288, 4320)):
        r = gen.rng_for(ctx.seed, "C04-strict", i)
        cls = specs.ELEM[i % len(specs.ELEM)]
        host = STRICT_HOSTS[(i // len(specs.ELEM)) % len(STRICT_HOSTS)]
        policy = pol_names[(i // (len(specs.ELEM) * len(STRICT_HOSTS))) % len(pol_names)] if i < 3 * len(specs.ELEM) * len(STRICT_HOSTS) else r.choice(pol_names)
        d = r.randint(1, 3)
        spec = _strict_spec(r, cls, d, host)
        if spec is None:
            host = "bare"
            spec = _strict_spec(r, cls, d, host)
        boundary = r.random() < 0.25
        if boundary:
            extreme(r, SimpleNamespace(spec=spec))
        n = r.randint(2, 10)
        X1 = specs.elem_data(r, cls, n, d, style=r.choice(["dups", "coarse", "corners", "blobs", "uniform"]) if cls != "ART1" else None,
                             floats=cls != "ART1" and r.random() < 0.2)
        idx = list(range(n)) + [r.randrange(n) for _ in range(r.randint(1, n))]        # repeated rows
        r.shuffle(idx)
        X1 = X1[idx]
        n = len(X1)
        if host == "ARTMAP":
            y1 = specs.elem_data(r, "FuzzyART", n, 1, style=r.choice(["coarse", "dups"]))
        else:
            y1 = gen.labels(r, n, r.randint(1, 3))
        parts = gen.compositions(r, n) if r.random() < 0.5 else None
        pick2 = [r.randrange(n) for _ in range(r.randint(1, 4))]
        y2pick = [r.randrange(n) for _ in range(3)]
        mode, eps = r.choice(MODES), r.choice([0.0, 2.0 ** -20, 2.0 ** -10])
        bad, info = _drive_strict(spec, cls, d, host, policy, X1, y1, parts, pick2, y2pick, mode, eps)
        if bad is not None and bad[0] == "rejected":
            cov.hit(f"strict-policy:rejected-by-validate_params:{cls}")
            continue
        where = cls if host == "bare" else f"{host}/{cls}"
        if bad is not None:
            lenient, _ = _drive_strict(spec, cls, d, host, "lenient", X1, y1, parts, pick2, y2pick, mode, eps)
            rep = {"spec": spec, "host": host, "numeric_policy": policy,
                   "numeric_policy_means": {"np.errstate": POLICIES[policy][0], "warnings.simplefilter('error', RuntimeWarning)": POLICIES[policy][1]},
                   "X1": X1.tolist(), "y1": y1.tolist() if host in ("SimpleARTMAP", "ARTMAP") else None,
                   "X2": None if info["X2"] is None else info["X2"].tolist(), "y2": None if info["y2"] is None else info["y2"].tolist(),
                   "rows_of_X2_on_a_reported_centre": info["on_centre"], "match_tracking": mode, "epsilon": eps,
                   "second_channel_of_FusionART": "FuzzyART on complement-coded column 0 of X1 / X2" if host == "FusionART" else None,
                   "calls": ("fit(X1)" if parts is None else f"partial_fit on consecutive batches of X1 of sizes {parts}")
                   + ", partial_fit(X2), predict(vstack(X1, X2)), get_cluster_centers()",
                   "same_history_under_np.errstate(all='ignore')": "passes" if lenient is None else f"fails too: {lenient[1]}"}
            if lenient is None:
                ctx.issue("violation", f"{where}[{policy}]{bad[0]}",
                          f"{bad[1]} on valid data when the calling process runs under the numeric policy {policy} "
                          "(the same history passes with NumPy's floating-point errors ignored): an ill-defined operation (0/0, x/0, "
                          "inf-inf ...) is executed during training / prediction", rep)
            else:
                ctx.issue("violation", f"{where}{lenient[0]}", f"{lenient[1]} on data accepted by validate_data (under any numeric policy)", rep)
        else:
            cov.hit(f"strict-policy:{policy}:{host}:ok")
            cov.hit(f"strict-policy:trained-ok:{cls}")
        cov.hit("strict-policy:history:" + ("fit" if parts is None else "partial_fit-batches") + "+centre-rows+predict")
        if info["on_centre"]:
            cov.hit(f"strict-policy:sample-on-reported-centre:{cls}")
        if boundary:
            cov.hit("strict-policy:extreme-hyperparameters")
        cov.case(("strict", cls, host, policy, spec, X1.tolist(), parts, pick2, mode, eps), True)
        if i % 60 == 0:
            cov.sample({"numeric_policy": policy, "host": host, "cls": cls, "history": "fit" if parts is None else f"partial_fit {parts}",
                        "rows_on_reported_centres": info["on_centre"]})


# ---------------------------------------------------------------- optional arguments of the prediction entry points
# "Can be ... predicted without an exception" is a statement about the estimators' prediction entry points, and those
# have optional arguments the other sections leave at their defaults (or never call: FALCON / TD_FALCON have no `predict`;
# their prediction entry points are get_action / get_probabilistic_action / get_rewards).  Here a FITTED estimator - fit,
# fit then partial_fit, or partial_fit batches (TD_FALCON: also one-row batches with `single_sample_reward`) - is queried
# with every optional argument at its boundary values:
#   get_probabilistic_action(state, action_space, offset, optimality): offset 0.0 (cap everything: uniform exploration),
#       1e-6, 1e-4, 0.1 (default), 1.0 (no cap) x optimality max / min x action_space default (None) / the trained
#       actions / one action / unseen actions / an action listed twice x a trained / an unseen state;
#   get_action(state, action_space, optimality), get_actions_and_rewards(state, action_space), get_rewards(states, actions);
#   FusionART.predict(X, skip_channels) and predict_regression(X, target_channels): first / last / negative indices,
#       several target channels; ARTMAP.predict_regression / predict_ab.
# Oracle: no exception; every returned action / reward / regression value finite; the probability vector the sampling
# entry point hands to NumPy's sampler finite (observed by wrapping np.random.choice for the duration of the query).

PROB_OFFSETS = [0.1, 1.0, 1e-4, 1e-6, 0.0]      # the default first: a failure that does not depend on the offset is reported with the default
OPTIMALITIES = ["max", "min"]


def _sampled_query(seed, log):
    """one query of a sampling entry point: the global NumPy generator is seeded for it (and put back afterwards, so the
    rest of the check is not disturbed); every probability vector handed to np.random.choice is appended to `log`"""
    import contextlib

    @contextlib.contextmanager
    def cm():
        state = np.random.get_state()
        orig = np.random.choice

        def choice(a, size=None, replace=True, p=None):
            if p is not None:
                log.append(np.array(p, dtype=float))
            return orig(a, size=size, replace=replace, p=p)
        np.random.choice = choice
        np.random.seed(seed)
        try:
            yield
        finally:
            np.random.choice = orig
            np.random.set_state(state)
    return cm()


def _all_finite(out) -> bool:
    outs = out if isinstance(out, (list, tuple)) else [out]
    return all(np.all(np.isfinite(np.asarray(o, dtype=float))) for o in outs)


def prediction_arguments(ctx):
    """fitted FALCON / TD_FALCON / FusionART / ARTMAP answer every legal query of their prediction entry points, with the
    optional arguments at their boundary values, without an exception and with finite results (see the comment above)"""
    cov = ctx.cov
    fq = families.quiet
    zero_reported = set()
    for i in range(ctx.scale(40, 600)):
        r = gen.rng_for(ctx.seed, "C04-predargs", i)
        name = ("FALCON", "TD_FALCON")[i % 2]
        fam, rows = families.build(r, name, r.randint(2, 12))
        S, A, R = (np.array(rows.arrs[k], dtype=float) for k in "SAR")
        n, ds, da = len(S), S.shape[1] // 2, A.shape[1] // 2
        rkind = r.choice(["as-built", "positive", "positive", "constant"])
        if rkind == "positive":                      # every reward >= 1/4 (still on the dyadic grid)
            R = gen.cc(0.25 + 0.75 * R[:, :1])
        elif rkind == "constant":                    # the same reward everywhere (0: nothing rewarded yet; 1: everything)
            R = gen.cc(np.full((n, 1), r.choice([0.0, 0.5, 1.0])))
        boundary = r.random() < 0.25
        if boundary:
            extreme(r, fam)
        calls = []
        desc = dict(fam.describe(), S=S.tolist(), A=A.tolist(), R=R.tolist(), training_calls=calls)
        try:
            est = fam.make()
        except AssertionError:
            cov.hit(f"rejected-by-validate_params:{name}")
            continue
        # ---- training history
        plan = r.choice(["fit", "fit+partial_fit", "partial_fit-batches"]) if name == "FALCON" else "partial_fit-batches"
        stage = "fit"
        try:
            with fq(), np.errstate(all="ignore"):
                if plan.startswith("fit"):
                    calls.append("fit(S, A, R)")
                    est.fit(S, A, R)
                    if plan == "fit+partial_fit":
                        stage = "partial_fit"
                        k = r.randint(1, n)
                        calls.append(f"partial_fit(S[:{k}], A[:{k}], R[:{k}])")
                        est.partial_fit(S[:k], A[:k], R[:k])
                else:
                    stage = "partial_fit"
                    j = 0
                    for p in gen.compositions(r, n):
                        sl = f"[{j}:{j + p}]"
                        if name == "TD_FALCON" and p == 1 and r.random() < 0.6:
                            ssr = r.choice([0.0, 1.0, 0.5])
                            calls.append(f"partial_fit(S{sl}, A{sl}, R{sl}, single_sample_reward={ssr})")
                            est.partial_fit(S[j:j + p], A[j:j + p], R[j:j + p], single_sample_reward=ssr)
                            cov.hit(f"predargs:single_sample_reward={ssr}")
                        else:
                            calls.append(f"partial_fit(S{sl}, A{sl}, R{sl})")
                            est.partial_fit(S[j:j + p], A[j:j + p], R[j:j + p])
                        j += p
            if not finite_weights(est):
                ctx.issue("violation", f"{name}:non-finite-weight", f"NaN/inf in learned weights after {stage}", desc)
                continue
        except Exception as e:
            ctx.issue("violation", f"{name}.{stage}:{exc_enum(e)}", f"{stage} raised {e!r} on data accepted by validate_data", desc)
            continue
        cov.hit(f"predargs:history:{name}:{plan}")
        cov.hit(f"predargs:rewards:{rkind}")
        # ---- queries
        trained = np.unique(A[:, :da], axis=0)
        kind = r.choice(["trained", "single", "unseen", "repeated"])
        space = {"trained": trained, "single": trained[r.randrange(len(trained)):][:1],
                 "unseen": gen.grid_rows(r, r.randint(2, 5), da, style="uniform"),
                 "repeated": np.vstack([trained, trained[:1]])}[kind]
        states = [("trained", S[r.randrange(n)]), ("unseen", gen.cc(gen.grid_rows(r, 1, ds, style="uniform"))[0])]
        qseed = 1000 * ctx.seed + i
        for sk, state in states:
            for ak, asp in (("default", None), (kind, space)):
                q = {"state": state.tolist(), "action_space": None if asp is None else asp.tolist(),
                     "state_is": sk, "action_space_is": ak}
                arg = (lambda: None if asp is None else asp.copy())
                # candidate actions and their predicted rewards
                try:
                    with fq(), np.errstate(all="ignore"):
                        cand, rew = est.get_actions_and_rewards(state.copy(), arg())
                    if not _all_finite([cand, rew]):
                        ctx.issue("violation", f"{name}.get_actions_and_rewards:non-finite", "non-finite candidate action / predicted reward",
                                  dict(desc, query=q))
                        continue
                except Exception as e:
                    ctx.issue("violation", f"{name}.get_actions_and_rewards:{exc_enum(e)}",
                              f"get_actions_and_rewards raised {e!r} on a fitted model", dict(desc, query=q))
                    continue
                zero = float(np.sum(np.abs(np.asarray(rew, dtype=float)))) == 0.0
                if zero:
                    cov.hit("predargs:all-predicted-rewards-zero")
                for opt in OPTIMALITIES:
                    try:
                        with fq(), np.errstate(all="ignore"):
                            act = est.get_action(state.copy(), arg(), optimality=opt)
                        if not _all_finite(act):
                            ctx.issue("violation", f"{name}.get_action:non-finite", f"get_action(optimality={opt!r}) returned {act!r}",
                                      dict(desc, query=dict(q, optimality=opt)))
                        else:
                            cov.hit(f"predargs:get_action:{opt}:{ak}-action-space:ok")
                    except Exception as e:
                        ctx.issue("violation", f"{name}.get_action:{exc_enum(e)}", f"get_action(optimality={opt!r}) raised {e!r} on a fitted model",
                                  dict(desc, query=dict(q, optimality=opt)))
                    for off in PROB_OFFSETS:
                        qq = dict(q, offset=off, optimality=opt, before_the_query=f"np.random.seed({qseed})",
                                  predicted_rewards_of_the_candidates=np.asarray(rew, dtype=float).reshape(-1).tolist())
                        probs = []
                        try:
                            with fq(), np.errstate(all="ignore"), _sampled_query(qseed, probs):
                                act = est.get_probabilistic_action(state.copy(), arg(), offset=off, optimality=opt)
                            bad = None
                            if not all(np.all(np.isfinite(p)) for p in probs):
                                bad = ("non-finite-probabilities", f"sampled from the probabilities {[p.tolist() for p in probs]}")
                            elif not _all_finite(act):
                                bad = ("non-finite-action", f"returned {act!r}")
                        except Exception as e:
                            bad = (exc_enum(e), f"raised {e!r}" + (f" (probabilities {[p.tolist() for p in probs]})" if probs else ""))
                        if bad is None:
                            cov.hit(f"predargs:get_probabilistic_action:offset={off!r}:{opt}:ok")
                            cov.hit(f"predargs:get_probabilistic_action:{ak}-action-space:{sk}-state:ok")
                            continue
                        if zero:
                            # every candidate's predicted reward is exactly 0: told apart from the argument-dependent failures
                            if name in zero_reported:
                                continue
                            zero_reported.add(name)
                            sig = f"{name}.get_probabilistic_action:all-predicted-rewards-zero:{bad[0]}"
                            what = (f"get_probabilistic_action(offset={off!r}, optimality={opt!r}) {bad[1]} on a fitted model when the predicted "
                                    "reward of every candidate action is 0")
                        else:
                            sig = f"{name}.get_probabilistic_action[offset={off!r}]:{bad[0]}"
                            what = f"get_probabilistic_action(offset={off!r}, optimality={opt!r}) {bad[1]} on a fitted model (legal arguments)"
                        ctx.issue("violation", sig, what, dict(desc, query=qq))
        k = min(n, 4)
        try:
            with fq(), np.errstate(all="ignore"):
                out = est.get_rewards(S[:k].copy(), A[:k].copy())
            if not _all_finite(out):
                ctx.issue("violation", f"{name}.get_rewards:non-finite", f"get_rewards returned {np.asarray(out).tolist()}", desc)
            else:
                cov.hit("predargs:get_rewards:ok")
        except Exception as e:
            ctx.issue("violation", f"{name}.get_rewards:{exc_enum(e)}", f"get_rewards raised {e!r} on a fitted model", desc)
        cov.hit(f"predargs:action-space:{kind}")
        if boundary:
            cov.hit("predargs:extreme-hyperparameters")
        cov.case(("predargs", name, fam.spec, desc["S"], desc["A"], desc["R"], tuple(calls), kind), True)
        if i < 2:
            cov.sample({"family": name, "history": plan, "rewards": rkind, "explicit_action_space": kind, "offsets": PROB_OFFSETS})
    # ---- FusionART: skip_channels / target_channels; ARTMAP: predict_regression / predict_ab
    for i in range(ctx.scale(16, 240)):
        r = gen.rng_for(ctx.seed, "C04-predargs-channels", i)
        if i % 4 == 3:
            fam, rows = families.build(r, "ARTMAP", r.randint(3, 10))
            X, y = rows.arrs["X"], rows.arrs["y"]
            desc = dict(fam.describe(), X=X.tolist(), y=y.tolist())
            stage = "__init__"
            try:
                est = fam.make()
                with fq(), np.errstate(all="ignore"):
                    if fam.b_cls == "FuzzyART":     # documented workflow: prepare_data fixes the column bounds the centres need ([0,1] = identity)
                        est.module_b.prepare_data(np.array([[0.0] * (y.shape[1] // 2), [1.0] * (y.shape[1] // 2)]))
                    stage = "fit"
                    if r.random() < 0.5:
                        fam.fit(est, rows)
                    else:
                        stage, j = "partial_fit", 0
                        for p in gen.compositions(r, len(X)):
                            fam.pfit(est, rows.sl(j, j + p))
                            j += p
                    for entry in ("predict_regression", "predict_ab"):
                        stage = entry
                        out = getattr(est, entry)(X[: min(len(X), 4)])
                        if not _all_finite(out):
                            ctx.issue("violation", f"ARTMAP.{entry}:non-finite", f"{entry} returned a non-finite value", desc)
                        else:
                            cov.hit(f"predargs:ARTMAP.{entry}:ok")
            except AssertionError as e:
                if stage == "__init__":
                    cov.hit("rejected-by-validate_params:ARTMAP")
                else:
                    ctx.issue("violation", f"ARTMAP.{stage}:{exc_enum(e)}", f"{stage} raised {e!r} on data accepted by validate_data", desc)
            except Exception as e:
                ctx.issue("violation", f"ARTMAP.{stage}:{exc_enum(e)}", f"{stage} raised {e!r} on data accepted by validate_data", desc)
            cov.case(("predargs-artmap", fam.spec, desc["X"], desc["y"]), True)
            continue
        k = r.randint(2, 4)
        ds_ = [r.randint(1, 2) for _ in range(k)]
        spec = {"cls": "FusionART", "modules": [specs.elem_spec(r, "FuzzyART", d_) for d_ in ds_], "gamma_values": [1.0 / k] * k,
                "channel_dims": [2 * d_ for d_ in ds_]}
        n = r.randint(3, 10)
        X = np.hstack([specs.elem_data(r, "FuzzyART", n, d_) for d_ in ds_])
        desc = {"spec": spec, "X": X.tolist()}
        stage = "fit"
        try:
            est = make(spec)
            with fq(), np.errstate(all="ignore"):
                for m_, d_ in zip(est.modules, ds_):       # documented workflow: prepare_data fixes the column bounds (identity here)
                    m_.prepare_data(np.array([[0.0] * d_, [1.0] * d_]))
                if r.random() < 0.5:
                    est.fit(X)
                else:
                    stage, j = "partial_fit", 0
                    for p in gen.compositions(r, n):
                        est.partial_fit(X[j:j + p])
                        j += p
            targets = [[-1], [0], [k - 1], [-k]]
            m = r.randint(1, k - 1)
            chosen = r.sample(range(k), m)
            targets.append([c - k if r.random() < 0.5 else c for c in chosen])       # several channels, mixed sign conventions
            for tc in targets:
                stage = f"predict(skip_channels={tc})"
                with fq(), np.errstate(all="ignore"):
                    est.predict(X[:3], skip_channels=list(tc))
                stage = f"predict_regression(target_channels={tc})"
                with fq(), np.errstate(all="ignore"):
                    out = est.predict_regression(X[:3], target_channels=list(tc))
                if not _all_finite(out):
                    ctx.issue("violation", "FusionART.predict_regression:non-finite", f"{stage} on a model with {k} channels: non-finite output",
                              dict(desc, target_channels=tc))
                else:
                    cov.hit("predargs:FusionART.predict_regression:" + ("several-targets" if len(tc) > 1 else "negative-index" if tc[0] < 0 else "non-negative-index") + ":ok")
        except Exception as e:
            ctx.issue("violation", f"FusionART.{stage.split('(')[0]}:channel-arguments:{exc_enum(e)}",
                      f"{stage} raised {e!r} on a fitted model with {k} channels", desc)
        cov.case(("predargs-fusion", spec, desc["X"]), True)


# ---------------------------------------------------------------- outline queries inside a history
# The statement quantifies over histories, and a history of a real session contains calls that only LOOK at the model:
# the outline accessors (EllipsoidART.get_2d_ellipsoids, FuzzyART.get_bounding_boxes), plot_cluster_bounds, visualize
# (and every frame of fit_gif, which calls them).  They draw the first two features of a model that may have more:
# every quantity they derive from a category (direction of an axis, extent of a box) is a PROJECTION, and a category
# whose whole extent lies in the features that are not drawn - two samples that differ only in the third feature -
# projects to nothing.  The other sections never query an outline, and the shared plotting scenarios (plotpure) are
# two-featured.  Here models on 3-5 features are trained on streams built from groups of rows that share their first two
# features, an outline query is made between the training / prediction calls, and the property's clauses are evaluated
# on what follows: no exception from fit / partial_fit / predict / get_cluster_centers, every weight, activation, match
# value and centre finite, and the learned weights after the query are the learned weights before it (bit for bit).
# A query that raises on a model it cannot draw is tolerated (BayesianART: arctan2 of complex eigenvectors with this
# NumPy; classes / hosts without plot_cluster_bounds raise NotImplementedError); the model is judged all the same.

OUTLINE_CLASSES = ["EllipsoidART", "HypersphereART", "FuzzyART", "EllipsoidART", "GaussianART", "QuadraticNeuronART",
                   "EllipsoidART", "BayesianART", "ART2A"]
OUTLINE_HOSTS = ["bare", "SimpleARTMAP", "bare", "DualVigilanceART", "FusionART", "bare", "TopoART"]
OUTLINE_QUERIES = ["accessor", "plot_cluster_bounds", "visualize"]
OUTLINE_ACCESSORS = {"get_2d_ellipsoids": (), "get_bounding_boxes": (2,)}     # public outline accessors and their arguments


def _agg_axes():
    """one off-screen figure for a whole section (None when matplotlib is missing)"""
    try:
        import matplotlib
        matplotlib.use("Agg")
        import matplotlib.pyplot as plt
        fig, ax = plt.subplots()
        return plt, fig, ax
    except Exception:
        return None


def _weight_bytes(est):
    """[(path, bytes, array)] of every weight reachable from an estimator"""
    out, seen = [], set()

    def walk(o, path):
        if id(o) in seen or not hasattr(o, "__dict__"):
            return
        seen.add(id(o))
        if "W" in o.__dict__:
            for k, w in enumerate(o.__dict__["W"]):
                a = np.array(w, dtype=float)
                out.append((f"{path}.W[{k}]", a.tobytes(), a))
        for name in ("module_a", "module_b", "base_module", "fusion_art"):
            if name in o.__dict__:
                walk(o.__dict__[name], f"{path}.{name}")
        for k, m in enumerate(o.__dict__.get("modules", []) or []):
            walk(m, f"{path}.modules[{k}]")
    walk(est, "est")
    return out


def _planar_groups(r, d, n):
    """n rows of [0,1]^d on the grid k/16: groups of rows that share their first two features and differ only in the
    later ones (the extent of their category is invisible in the drawn plane), rows in general position, repeats"""
    g = 16
    rows = []
    kinds = ["planar", "planar", "general", "repeat"] if r.random() < 0.5 else ["planar", "planar", "planar", "repeat"]
    while len(rows) < n:
        base = [r.randint(1, g - 1) for _ in range(d)]
        kind = r.choice(kinds)
        m = r.randint(2, 3)
        for _ in range(m):
            if kind == "planar":
                row = base[:2] + [min(g, max(0, b + r.choice([-2, -1, 1, 2, 3]))) for b in base[2:]]
            elif kind == "general":
                row = [min(g, max(0, b + r.randint(-2, 2))) for b in base]
            else:
                row = list(base)
            rows.append([v / g for v in row])
    rows = rows[:n]
    if r.random() < 0.5:        # groups interleaved: a category keeps growing after another one was touched
        r.shuffle(rows)
    return np.array(rows, dtype=float).reshape(n, d)


def _outline_query(q, est, inner, host, plot_env, X, y):
    """one outline query `q` on the fitted estimator; -> (what was called, exception enum | None)"""
    plt, fig, ax = plot_env
    target = inner if host == "FusionART" else est            # FusionART draws nothing itself: its channel module is drawn
    Xd = X[:, : inner.dim_] if host == "FusionART" else X
    called, raised = q, None
    try:
        with quiet(), np.errstate(all="ignore"):
            if q == "accessor":
                names = [a for a in OUTLINE_ACCESSORS if callable(getattr(inner, a, None))]
                if names:
                    called = "+".join(f"{a}({', '.join(map(repr, OUTLINE_ACCESSORS[a]))})" for a in names)
                    for a in names:
                        getattr(inner, a)(*OUTLINE_ACCESSORS[a])
                else:
                    q = "plot_cluster_bounds"
                    called = "plot_cluster_bounds(ax, colors)"
            if q == "plot_cluster_bounds":
                called = "plot_cluster_bounds(ax, colors)"
                target.plot_cluster_bounds(ax, [(0.1 * (k % 10), 0.5, 0.5, 1.0) for k in range(64)])
            elif q == "visualize":
                labels = y if host == "SimpleARTMAP" else est.labels_          # the estimator's own array, not a copy
                called = "visualize(X, y, ax=ax)" if host == "SimpleARTMAP" else "visualize(X, labels_, ax=ax)"
                target.visualize(Xd, labels, ax=ax)
    except Exception as e:
        raised = exc_enum(e)
    finally:
        try:
            ax.cla()
        except Exception:
            pass
    return called, raised


def outline_queries(ctx):
    """outline queries between the training / prediction calls of a model on more than two features (see the comment
    above): the query leaves the learned weights as they were, and everything the history produces stays finite"""
    from ..impl import time_limit
    cov = ctx.cov
    env = _agg_axes()
    if env is None:
        cov.hit("outline:matplotlib-missing")
        return
    try:
        for i in range(ctx.scale(54, 810)):
            r = gen.rng_for(ctx.seed, "C04-outline", i)
            cls = OUTLINE_CLASSES[i % len(OUTLINE_CLASSES)]
            host = OUTLINE_HOSTS[(i // len(OUTLINE_CLASSES) + i) % len(OUTLINE_HOSTS)]
            d = r.choice([3, 3, 4, 5])
            spec = _strict_spec(r, cls, d, host)
            if spec is None:
                host = "bare"
                spec = _strict_spec(r, cls, d, host)
            isp = {"bare": spec}.get(host) or spec.get("module_a") or spec.get("base_module") or spec["modules"][0]
            t = r.random()
            if cls != "BayesianART" and t < 0.35:      # low vigilance: the groups of rows grow (and share) categories
                isp["rho"] = r.choice([0.25, 0.5]) if host != "DualVigilanceART" else 0.5
            elif "r_hat" in isp and t < 0.8:           # a vigilance that admits samples up to 1/4 away: one category per group of rows
                isp["r_hat"] = r.choice([1.0, 2.0, 4.0, 0.5])
                isp["rho"] = 1.0 - 0.25 / isp["r_hat"]
            if host == "DualVigilanceART" and not spec["rho_lower_bound"] < isp["rho"]:
                spec["rho_lower_bound"] = r.choice([0.0, 0.125, 0.25])
            if host == "TopoART" and r.random() < 0.5:
                spec["tau"], spec["phi"] = 1000, r.randint(1, 3)         # no pruning round in this history
            n = r.randint(5, 14)
            raw = _planar_groups(r, d, n)
            X = gen.cc(raw) if cls == "FuzzyART" else raw
            if host == "FusionART":
                X = np.hstack([X, gen.cc(raw[:, :1])])
            sup = host == "SimpleARTMAP"
            y = gen.labels(r, n, r.randint(1, 3)) if sup else None
            k1 = r.randint(2, n - 1)
            first = r.choice(["fit", "partial_fit"])
            q1, q2 = r.choice(OUTLINE_QUERIES), r.choice(OUTLINE_QUERIES)
            mode = r.choice(MODES)
            calls = []
            rep = {"spec": spec, "host": host, "features": d, "X": X.tolist(), "y": None if y is None else y.tolist(),
                   "match_tracking": mode, "calls": calls,
                   "second_channel_of_FusionART": "FuzzyART on complement-coded column 0" if host == "FusionART" else None}
            where = cls if host == "bare" else f"{host}/{cls}"
            stage = "__init__"
            args = (lambda a, b: (X[a:b], y[a:b])) if sup else (lambda a, b: (X[a:b],))
            bad = None
            try:
                with quiet(), time_limit(90.0), np.errstate(all="ignore"):
                    est = make(spec)
                    inner = _strict_inner(est, host)
                    if cls == "FuzzyART":       # documented workflow: prepare_data fixes the column bounds ([0,1] = identity)
                        inner.prepare_data(np.array([[0.0] * d, [1.0] * d]))
                    spy = ActivationSpy(est)
                    stage = first
                    calls.append(f"{first}(rows 0:{k1})")
                    getattr(est, first)(*args(0, k1), match_tracking=mode)
                    seen_rows = k1
                    for step, q in enumerate((q1, q2)):
                        if not finite_weights(est):
                            bad = (f":non-finite-weight", f"NaN/inf in the learned weights after {stage}")
                            break
                        before = _weight_bytes(est)
                        if cls == "EllipsoidART":
                            for w in inner.W:         # the situation this section is about (read off the public weights)
                                w = np.asarray(w, dtype=float)
                                if w[-1] > 0 and not np.any(w[d:2 * d]):
                                    cov.hit("outline:grown-category-without-an-axis")      # two samples: a radius, no axis yet
                                elif w[-1] > 0 and not np.any(w[d:2 * d][:2]):
                                    cov.hit("outline:grown-category-with-axis-outside-the-drawn-plane")
                                elif w[-1] > 0:
                                    cov.hit("outline:grown-category-with-axis-inside-the-drawn-plane")
                        called, raised = _outline_query(q, est, inner, host, env, X[:seen_rows], None if y is None else y[:seen_rows])
                        calls.append(called + (f" [raised {raised}: tolerated]" if raised else ""))
                        cov.hit(f"outline:query:{q}:{'raised' if raised else 'answered'}")
                        if raised:
                            cov.hit(f"outline:query-raised:{cls}:{raised}")
                        after = _weight_bytes(est)
                        if not finite_weights(est):
                            nf = [(p_, a.tolist()) for p_, _, a in after if not np.all(np.isfinite(a))][:2]
                            bad = (f":outline-query:non-finite-weight", f"the outline query {called} left NaN/inf in the learned weights "
                                   f"(finite before the query): {nf}")
                            break
                        if [(p_, b_) for p_, b_, _ in before] != [(p_, b_) for p_, b_, _ in after]:
                            ch = [(pa, wb.tolist(), wa.tolist()) for (pa, ba, wb), (_, bb, wa) in zip(before, after) if ba != bb][:2]
                            bad = (f":outline-query:weights-changed", f"the outline query {called} changed the learned weights "
                                   f"(path, before, after): {ch}" if len(before) == len(after) else
                                   f"the outline query {called} changed the number of categories {len(before)} -> {len(after)}")
                            break
                        stage = "predict"
                        calls.append(f"predict(rows 0:{n})")
                        est.predict(X)
                        if step == 0:
                            stage = "partial_fit"
                            calls.append(f"partial_fit(rows {k1}:{n})")
                            est.partial_fit(*args(k1, n), match_tracking=mode)
                            seen_rows = n
                    if bad is None:
                        stage = "get_cluster_centers"
                        if not finite_weights(est):
                            bad = (":non-finite-weight", "NaN/inf in the learned weights at the end of the history")
                        elif cls != "ART2A" or hasattr(inner, "get_cluster_centers"):
                            calls.append("get_cluster_centers()")
                            cen = inner.get_cluster_centers()
                            if not all(np.all(np.isfinite(np.asarray(c, dtype=float))) for c in cen):
                                bad = (":non-finite-centre", "NaN/inf in get_cluster_centers()")
                if bad is None and spy.bad:
                    bad = (f":non-finite-activation-or-match:{spy.bad[0][0]}",
                           f"non-finite value returned during training or prediction: {spy.bad[:2]}")
            except AssertionError as e:
                if stage == "__init__":
                    cov.hit(f"outline:rejected-by-validate_params:{cls}")
                    continue
                bad = (f".{stage}:{exc_enum(e)}", f"{stage} raised {e!r} on data accepted by validate_data")
            except Exception as e:
                bad = (f".{stage}:{exc_enum(e)}", f"{stage} raised {e!r} on data accepted by validate_data")
            if bad is not None:
                ctx.issue("violation", f"{where}[outline-queries,{d}-features]{bad[0]}",
                          f"{bad[1]} — history on {d}-feature data with outline queries between the calls: {calls}", rep)
            else:
                cov.hit(f"outline:history-ok:{host}")
                cov.hit(f"outline:history-ok:{cls}")
            cov.hit(f"outline:features:{d}")
            cov.case(("outline", cls, host, spec, rep["X"], rep["y"], k1, first, q1, q2, mode), True)
            if i % 18 == 0:
                cov.sample({"outline_history": list(calls), "cls": cls, "host": host, "features": d})
    finally:
        env[0].close("all")


def plotting_histories(ctx):
    """the shared plotting scenarios (harness/artv/plotpure.py: visualize / plot_cluster_bounds with the estimator's own
    labels_, short and long colour lists, fit_gif with a small palette) continued under THIS property's oracle: after the
    plotting call the weights are finite, a further partial_fit and a predict raise nothing, and every weight,
    activation, match value and centre they produce is finite"""
    from .. import plotpure
    cov = ctx.cov
    for sc in plotpure.scenarios(ctx, "C04", quick=16, thorough=240):
        name, fam, est = sc.fam.name, sc.fam, sc.est
        if sc.raised is not None and sc.plot.startswith("fit_gif"):
            cov.hit("plot:fit_gif-stopped-in-a-frame")          # not a complete training call: nothing to judge
            continue
        desc = dict(sc.desc, trained_by=sc.trained_by, plotting_call_raised=sc.raised, state_changed_by_plot=sc.changed[:12])
        where = f"after {sc.trained_by} then {sc.plot}"
        stage = "plot"
        try:
            if not finite_weights(est):
                ctx.issue("violation", f"{name}[plotting-call]:non-finite-weight", f"NaN/inf in the learned weights {where}", desc)
                continue
            spy = ActivationSpy(est)
            with np.errstate(all="ignore"):
                if fam.has_pfit:
                    stage = "partial_fit"
                    fam.pfit(est, sc.rows.sl(0, 1 + (len(sc.rows) > 2)))
                if fam.has_predict:
                    stage = "predict"
                    fam.predict(est, sc.rows.sl(0, min(len(sc.rows), 6)))
                stage = "get_cluster_centers"
                cen = []
                if hasattr(est, "get_cluster_centers") and name not in ("SimpleARTMAP", "ARTMAP") and getattr(_bounds_owner(est), "d_max_", 1) is not None:
                    with quiet():
                        cen = est.get_cluster_centers()
            if not finite_weights(est):
                ctx.issue("violation", f"{name}[plotting-call]:non-finite-weight", f"NaN/inf in the learned weights {where} then {stage}", desc)
            elif not all(np.all(np.isfinite(np.asarray(c, dtype=float))) for c in cen):
                ctx.issue("violation", f"{name}[plotting-call]:non-finite-centre", f"NaN/inf in get_cluster_centers() {where}", desc)
            elif spy.bad:
                ctx.issue("violation", f"{name}[plotting-call]:non-finite-activation-or-match:{spy.bad[0][0]}",
                          f"non-finite value returned by training / prediction {where}: {spy.bad[:2]}", desc)
            else:
                cov.hit("plot:history-continues-finite")
        except Exception as e:
            sig = f"{name}.{stage}[plotting-call]:{exc_enum(e)}"
            if name == "TopoART" and stage == "predict" and len(est.W) == 0:
                sig = "TopoART.predict:empty-model"
            ctx.issue("violation", sig, f"{stage} raised {e!r} {where} on data accepted by validate_data", desc)
        cov.case(("plot", fam.spec, sc.desc["rows"], sc.plot, sc.trained_by), True)
