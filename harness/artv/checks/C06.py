"""C06 — result depends only on hyper-parameters and the ordered stream.
Oracle (implementation alone): fit == any partial_fit partition == re-fit of a
used estimator == the same with read-only operations interleaved (predict,
get_params, copies, pickles; the accessors get_cluster_centers / get_bounding_boxes /
predict_regression / ... on the estimator and on every nested module).  A used
DeepARTMAP is also re-fitted in the other mode (fit(X) <-> fit(X, y)) and after
`modules` was replaced by attribute assignment; a used FusionART is re-fitted after its gamma_values
were re-configured (set_params / attribute assignment, list or ndarray) on streams with exact activation ties
across >= 3 channels.  A new SimpleARTMAP / ARTMAP / DeepARTMAP built around modules that
were trained before being wrapped (alone or inside another host, by fit or partial_fit) is trained by one fit and by
partial_fit batches and compared with the same host over never-used modules.  Plotting calls (visualize /
plot_cluster_bounds / the frames of fit_gif) are read-only operations too: flat estimators through the shared generator
plotpure.py, SMART / DeepARTMAP hierarchies with >= 3 modules drawn (whole, or one layer / module) between partial_fit
batches, against one fit on the concatenation.  Tie: the
Lean folds reproduce fit / partial_fit histories end-to-end (exact kernels)."""
from __future__ import annotations

import copy
import pickle

import numpy as np

from .. import gen, families
from ..impl import quiet, exc_enum, eq_snap, make as _make
from . import e2e

RULE = ("cases = (family, hyper-parameters, stream, partition / earlier history (DeepARTMAP: in either mode, modules re-assigned; "
        "FusionART: gamma_values re-configured by set_params / assignment, as list / ndarray, >= 3 channels with exact fused ties) "
        "/ hosts (SimpleARTMAP, ARTMAP, DeepARTMAP) over modules trained before being wrapped: alone / in another host, fit / partial_fit "
        "/ read-only interleaving incl. accessors and plotting calls (flat estimators; SMART / DeepARTMAP with >= 3 modules drawn between "
        "partial_fit batches)); all "
        "compositions for n <= 5, random ones beyond; non-trivial when the stream has >= 2 samples and the trained "
        "model has >= 2 categories or a non-trivial map; distinct by hash of (family spec, stream, partition)")


def read_only(fam, est, rows, r):
    """predict / get_params / deepcopy / pickle — must change nothing"""
    k = r.randrange(4)
    with quiet():
        if k == 0 and fam.has_predict and len(rows):
            try:
                fam.predict(est, rows.sl(0, max(1, len(rows) // 2)))
            except Exception:
                pass  # predict failures are C04/C08 business
        elif k == 1 and hasattr(est, "get_params"):
            est.get_params()
        elif k == 2:
            copy.deepcopy(est)
        else:
            pickle.loads(pickle.dumps(est))


# ---------------------------------------------------------------- read-only accessors (C06: "interleaving read-only
# operations anywhere in the history changes nothing")


def parts_of(est):
    """the estimator and every nested estimator it is built from (each object once)"""
    seen, out, todo = set(), [], [est]
    while todo:
        o = todo.pop(0)
        if o is None or id(o) in seen:
            continue
        seen.add(id(o))
        out.append(o)
        d = getattr(o, "__dict__", {})
        for k in ("module_a", "module_b", "base_module", "fusion_art"):
            if k in d:
                todo.append(d[k])
        for k in ("modules", "layers"):
            if isinstance(d.get(k), (list, tuple)):
                todo.extend(d[k])
    return out


def identity_bounds(est):
    """documented workflow: data goes through prepare_data once, which fixes the column bounds that restore_data (hence
    get_cluster_centers / predict_regression of the Fuzzy-based modules) needs; bounds [[0..],[1..]] = the identity map,
    so the complement-coded streams of the generators stay what they are.  Returns the number of modules touched."""
    k = 0
    for o in parts_of(est):
        if type(o).__name__ in ("FuzzyART", "iCVIFuzzyART") and getattr(o, "d_min_", None) is None:
            w = getattr(o, "dim_", None)
            if w is None and len(getattr(o, "W", [])):
                w = len(o.W[0])
            if not w:
                continue
            d = int(w) // 2
            with quiet():
                o.prepare_data(np.array([[0.0] * d, [1.0] * d]))
            k += 1
    return k


def accessors(fam, est, rows, r, cov):
    """the read-only accessors of the public API, on the estimator and on every nested module: cluster centres, bounding
    boxes, regression-style predictions, deep labels.  An accessor that raises is not C06's business (noted in the
    coverage); what it must not do is move the model."""
    n = len(rows)
    q = rows.sl(0, max(1, min(n, r.randint(1, 3))))
    called = 0

    def call(tag, f):
        nonlocal called
        try:
            with quiet():
                f()
            cov.hit(f"accessor:{tag}")
            called += 1
        except Exception as e:
            cov.hit(f"accessor-raised:{tag}:{exc_enum(e)}")
    for o in parts_of(est):
        cn = type(o).__name__
        if (hasattr(o, "get_cluster_centers") and len(getattr(o, "W", []))) or cn in ("DualVigilanceART", "TopoART", "CVIART"):
            call(f"get_cluster_centers:{cn}", o.get_cluster_centers)
        if hasattr(o, "get_bounding_boxes") and len(getattr(o, "W", [])):
            call(f"get_bounding_boxes:{cn}", o.get_bounding_boxes)
        if hasattr(o, "get_2d_ellipsoids") and len(getattr(o, "W", [])):
            call(f"get_2d_ellipsoids:{cn}", o.get_2d_ellipsoids)
        if cn == "FusionART" and len(getattr(o, "W", [])):
            for c in range(o.n):
                call("get_channel_centers:FusionART", lambda c=c: o.get_channel_centers(c))
    cn = type(est).__name__
    if cn == "ARTMAP":
        call("predict_regression:ARTMAP", lambda: est.predict_regression(q.arrs["X"]))
        call("predict_ab:ARTMAP", lambda: est.predict_ab(q.arrs["X"]))
    elif cn == "SimpleARTMAP":
        call("predict_ab:SimpleARTMAP", lambda: est.predict_ab(q.arrs["X"]))
    elif cn == "FusionART":
        call("predict_regression:FusionART", lambda: est.predict_regression(q.arrs["X"]))
        if est.n >= 2:
            call("predict_regression:FusionART:2-targets", lambda: est.predict_regression(q.arrs["X"], target_channels=[0, -1]))
    elif cn == "DeepARTMAP":
        call("labels_deep_:DeepARTMAP", lambda: est.labels_deep_)
        call("map_deep:DeepARTMAP", lambda: est.map_deep(-1, 0))
    elif cn in ("FALCON", "TD_FALCON"):
        call(f"get_rewards:{cn}", lambda: est.get_rewards(q.arrs["S"], q.arrs["A"]))
        call(f"get_actions_and_rewards:{cn}", lambda: est.get_actions_and_rewards(q.arrs["S"][0]))
    elif cn == "SMART":
        call("predict:SMART", lambda: est.predict(q.arrs["X"]))
    return called


BOUNDS = {"d_min_", "d_max_"}


def accessors_interleaved(ctx, i, name, fam, rows, parts, desc, ref_snap):
    """history = partial_fit batches (or one fit) with the accessors called after every batch.  Oracle, on the
    implementation alone: (1) the model right after the accessor calls is the model right before them; (2) the model at
    the end of the history is the model of the same history without the accessor calls."""
    cov = ctx.cov
    r = gen.rng_for(ctx.seed, "C06-acc", i)

    def history(with_accessors):
        est = fam.make()
        steps = [(j, j + p) for j, p in zip(np.cumsum([0] + parts[:-1]).tolist(), parts)] if fam.has_pfit else [(0, len(rows))]
        for (a, b) in steps:
            (fam.pfit if fam.has_pfit else fam.fit)(est, rows.sl(a, b))
            identity_bounds(est)
            if not with_accessors:
                continue
            before = fam.snap(est)
            if accessors(fam, est, rows, r, cov):
                cov.hit("accessors-interleaved")
            if not eq_snap(before, fam.snap(est)):
                return est, (a, b)
        return est, None
    try:
        est, moved = history(True)
    except Exception as e:
        cov.hit(f"accessors-history-raised:{name}:{exc_enum(e)}")
        return
    if moved is not None:
        ctx.issue("violation", f"{name}:accessor-moves-model",
                  f"after training on rows {moved[0]}:{moved[1]} the read-only accessors (get_cluster_centers / get_bounding_boxes / "
                  "predict_regression / ... on the estimator and its modules) changed weights, labels or maps",
                  dict(desc, partition=parts, after_rows=list(moved)))
        return
    got = families.strip(fam.snap(est), BOUNDS)
    if not eq_snap(got, families.strip(ref_snap, BOUNDS)):
        # only meaningful where partition == fit holds; compare with the same history without the accessors
        try:
            twin, _ = history(False)
        except Exception:
            return
        if not eq_snap(fam.snap(est), fam.snap(twin)):
            ctx.issue("violation", f"{name}:accessors-change-later-training",
                      "the same partial_fit history with read-only accessors called between the batches ends in another model",
                      dict(desc, partition=parts))
    cov.hit("accessors-history-compared")


def deep_refits(ctx):
    """DeepARTMAP accepts two call forms, fit(X, y) (supervised) and fit(X) (unsupervised), and its only constructor
    argument `modules` is a public attribute.  "Calling fit on a previously used estimator yields exactly what a fresh
    estimator with the same hyper-parameters yields" quantifies over all earlier histories: the earlier history may have
    been in either mode (fit or partial_fit batches, read-only operations in between), and the modules may have been
    replaced by attribute assignment before the re-fit (then `fresh` = a new DeepARTMAP over modules with those
    hyper-parameters)."""
    cov = ctx.cov
    nmax = ctx.scale(14, 40)

    def observe(fam, est, rows):
        s = fam.snap(est)
        s["is_supervised"] = est.is_supervised
        s["layer_types"] = [type(L).__name__ for L in est.layers]
        try:
            s["predict"] = [np.asarray(p).copy() for p in fam.predict(est, rows)]
        except Exception as e:          # predict failures are C04/C08 business, but they must be the same on both sides
            s["predict"] = "raised:" + exc_enum(e)
        return s
    for i in range(ctx.scale(72, 900)):
        r = gen.rng_for(ctx.seed, "C06-deep", i)
        try:
            fam0, rows = families.build(r, "DeepARTMAP-unsup", r.randint(2, nmax))      # >= 2 modules: both modes are valid
        except Exception as e:
            ctx.issue("diff", "harness:build:DeepARTMAP-refit", repr(e))
            continue
        n, k = len(rows), len(fam0.spec["modules"])
        sup_pre, sup_then = [(False, True), (True, False), (True, True), (False, False)][i % 4]
        assign = (i // 4) % 3 == 2 or sup_pre == sup_then        # same-mode re-fits are in run(); here only with new modules
        fam_pre = families.Deep(fam0.spec, fam0.mode, fam0.eps, sup_pre)
        # ---- what is fitted at the end, and the fresh reference
        if assign:
            k2 = r.randint(1 if sup_then else 2, k)
            sel = r.sample(range(k), k2)
            mods2 = [families._elem(r, *fam0.groups[j]) for j in sel]
            spec2 = {"cls": "DeepARTMAP", "modules": mods2}
            rows_then = families.Rows(Xs=[rows.arrs["Xs"][j] for j in sel], y=rows.arrs["y"])
        else:
            sel, spec2, rows_then = list(range(k)), fam0.spec, rows
        fam_then = families.Deep(spec2, fam0.mode, fam0.eps, sup_then)
        idx = list(range(n))
        r.shuffle(idx)
        pre = rows.take(np.array(idx[: max(1, n // 2)]))
        how = r.choice(["fit", "partial_fit", "partial_fit+read-only", "fit+fit"])
        desc = dict(family="DeepARTMAP", spec=fam0.spec, mode=fam0.mode, eps=fam0.eps, rows=rows.tolist(), pre=pre.tolist(),
                    history=dict(supervised=sup_pre, how=how), then=dict(supervised=sup_then, modules_assigned=spec2 if assign else None,
                                                                       channels=sel))
        try:
            fresh = fam_then.make()
            fam_then.fit(fresh, rows_then)
            want = observe(fam_then, fresh, rows_then)
        except Exception as e:
            cov.hit(f"deep-refit:ref-raised:{exc_enum(e)}")
            continue
        tag = f"{'sup' if sup_pre else 'unsup'}->{'sup' if sup_then else 'unsup'}" + (":modules-assigned" if assign else "")
        cov.case(("deep-refit", fam0.spec, desc["rows"], tag, how, sel, spec2 if assign else None), n >= 2)
        # ---- the used estimator
        est = fam_pre.make()
        try:
            if how.startswith("partial_fit"):
                a = max(1, len(pre) // 2)
                fam_pre.pfit(est, pre.sl(0, a))
                if how.endswith("read-only"):
                    identity_bounds(est)
                    accessors(fam_pre, est, pre, r, cov)
                    read_only(fam_pre, est, pre, r)
                if a < len(pre):
                    fam_pre.pfit(est, pre.sl(a, len(pre)))
            else:
                fam_pre.fit(est, pre)
                if how == "fit+fit":
                    fam_pre.fit(est, rows)
        except Exception as e:
            cov.hit(f"deep-refit:history-raised:{exc_enum(e)}")
            continue
        try:
            if assign:
                est.modules = [_make(ms) for ms in spec2["modules"]]
            fam_then.fit(est, rows_then)
            got = observe(fam_then, est, rows_then)
        except Exception as e:
            ctx.issue("violation", f"DeepARTMAP.refit:{tag}:{exc_enum(e)}",
                      f"fit on a DeepARTMAP with an earlier {'supervised' if sup_pre else 'unsupervised'} history ({how})"
                      f"{' whose modules were then replaced by assignment' if assign else ''} raised {e!r} where a fresh estimator succeeds", desc)
            continue
        # the column bounds set for the accessors in the earlier history are preprocessing state, not the trained model
        got, want = families.strip(got, BOUNDS), families.strip(want, BOUNDS)
        if not eq_snap(got, want):
            bad = sorted(kk for kk in want if not eq_snap(got.get(kk), want[kk]))
            ctx.issue("violation", f"DeepARTMAP:refit!=fresh:{tag}",
                      f"fit({'X, y' if sup_then else 'X'}) on a DeepARTMAP with an earlier {'supervised' if sup_pre else 'unsupervised'} history "
                      f"({how}){' whose modules were then replaced by assignment' if assign else ''} differs from the same fit on a fresh "
                      f"estimator in {bad} (is_supervised {got.get('is_supervised')} vs {want.get('is_supervised')}, layers "
                      f"{got.get('layer_types')} vs {want.get('layer_types')})", desc)
        cov.hit(f"deep-refit:{tag}")
        cov.hit(f"deep-refit:history:{how}")


# ---------------------------------------------------------------- hyper-parameters handed over by different routes
#
# "Calling fit on a previously used estimator yields exactly what a fresh estimator with the same hyper-parameters
# yields" — the used estimator may have got those hyper-parameters by another route than the fresh one: the fresh one
# through the constructor, the used one through set_params(...) or attribute assignment after its earlier history (or
# before any training at all).  FusionART takes its activation ratios gamma_values as a list or as an ndarray; the same
# container with the same values must give the same model bit for bit whichever route delivered it.  What makes the
# route observable are last-bit effects, so the streams hold what the dyadic / grid generators above never produce:
# >= 3 channels, non-dyadic ratios, and categories whose fused activations are EQUAL in exact arithmetic but are summed
# in another channel order (category B's channel templates are a ratio-preserving permutation of category A's, and a
# later sample looks the same in all channels), so that one ulp decides the winner, hence labels and weights.

GAMMA_POOL = {
    3: [[1 / 3] * 3, [0.3, 0.4, 0.3], [0.35, 0.3, 0.35], [0.5, 0.25, 0.25], [0.2, 0.6, 0.2], [0.3, 0.3, 0.4]],
    4: [[0.25] * 4, [0.2, 0.2, 0.2, 0.4], [0.3, 0.2, 0.2, 0.3], [0.1, 0.3, 0.3, 0.3], [0.15, 0.35, 0.15, 0.35], [0.4, 0.2, 0.2, 0.2]],
    5: [[0.2] * 5, [0.15, 0.15, 0.15, 0.15, 0.4], [0.1, 0.2, 0.4, 0.2, 0.1], [0.125, 0.25, 0.25, 0.25, 0.125], [0.3, 0.1, 0.2, 0.1, 0.3]],
    6: [[0.125, 0.125, 0.25, 0.25, 0.125, 0.125], [0.15, 0.15, 0.2, 0.2, 0.15, 0.15], [0.1, 0.1, 0.1, 0.1, 0.1, 0.5]],
}
CONTAINERS = {"list": lambda g: [float(x) for x in g], "ndarray": lambda g: np.array(g, dtype=float)}


def _gamma_ok(g) -> bool:
    """valid for the library in both containers (validate_params wants sum == 1.0 exactly, with its own summation)"""
    import artlib
    try:
        for mk in CONTAINERS.values():
            artlib.FusionART.validate_params({"gamma_values": mk(g)})
        return True
    except Exception:
        return False


def _ratio_preserving_perm(r, g):
    """a non-identity permutation pi of the channels with g[pi(k)] == g[k] (None when all ratios are distinct); groups
    of >= 3 equal ratios are rotated (a transposition of the first two summands commutes even in floating point)"""
    groups = {}
    for k, x in enumerate(g):
        groups.setdefault(x, []).append(k)
    pi, moved = list(range(len(g))), False
    for ks in sorted(groups.values(), key=len, reverse=True):
        if len(ks) < 2 or (moved and r.random() < 0.5):
            continue
        s = r.randint(1, len(ks) - 1)
        for a, b in zip(ks, ks[s:] + ks[:s]):
            pi[a] = b
        moved = True
    return pi if moved else None


def _route_stream(r, k, g):
    """-> (module specs, channel groups, X, how): all channels the same class with the same hyper-parameters (so the
    per-channel activations of permuted templates are the very same numbers)"""
    from .. import specs as _sp
    pi = _ratio_preserving_perm(r, g)
    rows = []
    if r.random() < 0.65:
        # FuzzyART channels; clusters of channel readings around a centre u: two categories whose templates are permuted
        # (too far apart in some channel to resonate with each other), then samples equal in all channels near u
        cls, dd = "FuzzyART", r.randint(1, 2)
        rho = r.choice([0.85, 0.9, 0.8])
        ms = {"cls": cls, "rho": rho, "alpha": r.choice([0.01, 1e-3, 0.1, 1e-7]), "beta": r.choice([1.0, 1.0, 0.5, 0.75])}
        rad = 1.0 - rho
        for c in range(r.randint(1, 2)):
            u = [r.uniform(0.22, 0.32) + 0.45 * c for _ in range(dd)]
            sg = [r.choice([-1, 1]) for _ in range(k)]
            if pi:
                k0 = r.choice([j for j in range(k) if pi[j] != j])
                sg[k0], sg[pi[k0]] = 1, -1
            A = [[round(x + s * r.uniform(0.6, 0.95) * rad, r.choice([2, 3, 17])) for x in u] for s in sg]
            rows.append(A)
            if pi:
                rows.append([A[pi[j]] for j in range(k)])
            tail = [[list(u)] * k]
            for _ in range(r.randint(1, 3)):
                v = [[x + r.uniform(-0.3, 0.3) * rad for x in u]] * k if r.random() < 0.5 else \
                    [[x + r.uniform(-0.9, 0.9) * rad for x in u] for _ in range(k)]
                tail.append(v)
            r.shuffle(tail)
            rows += tail
        X = np.vstack([np.hstack([gen.cc(np.array([ch], dtype=float)) for ch in row]) for row in rows])
        how = "fuzzy-clusters"
    else:
        # any class whose activations are plain Python floats (rational kernels), channel readings drawn from a pool
        cls = r.choice(["FuzzyART", "ART1", "ART2A"])
        dd = r.randint(2, 3) if cls != "FuzzyART" else r.randint(1, 2)
        ms = families._elem(r, cls, dd)
        pool = _sp.elem_data(r, cls, r.randint(k, k + 3), dd, floats=cls != "ART1" and r.random() < 0.5)
        for c in range(r.randint(1, 2)):
            A = [r.randrange(len(pool)) for _ in range(k)]
            rows.append(A)
            if pi:
                rows.append([A[pi[j]] for j in range(k)])
            rows.append([r.randrange(len(pool))] * k)
            for _ in range(r.randint(1, 3)):
                rows.append([r.randrange(len(pool))] * k if r.random() < 0.4 else [r.randrange(len(pool)) for _ in range(k)])
        X = np.vstack([np.hstack([pool[j] for j in row]) for row in rows])
        how = "pool:" + cls
    return [dict(ms) for _ in range(k)], [(cls, dd)] * k, X, how, pi


def _exact_tie(est, x, g):
    """does sample x activate two categories of `est` equally in exact arithmetic, through channel activations that come
    in another order?  -> (tie, rounding_sensitive): rounding_sensitive = the left-to-right double sums differ"""
    from fractions import Fraction as Fr
    acts = []
    with quiet():
        for j in range(len(est.W)):
            a = []
            for c, m in enumerate(est.modules):
                lo, hi = est._channel_indices[c]
                a.append(float(m.category_choice(x[lo:hi], m.W[j], m.params)[0]))
            acts.append(a)
    tie = sens = False
    for p in range(len(acts)):
        for q in range(p + 1, len(acts)):
            if acts[p] != acts[q] and sum(Fr(a) * Fr(float(y)) for a, y in zip(acts[p], g)) == sum(Fr(a) * Fr(float(y)) for a, y in zip(acts[q], g)):
                tie = True
                sp = sq = 0.0
                for a, b, y in zip(acts[p], acts[q], g):
                    sp, sq = sp + a * float(y), sq + b * float(y)
                sens = sens or sp != sq
    return tie, sens


def _show(p):
    return p if isinstance(p, str) else np.asarray(p).tolist()


def reconfigured_refits(ctx):
    """fresh = FusionART(modules, gamma_values=c(g), dims).fit(X);  used = FusionART(modules, other ratios, dims), some
    earlier history, then gamma_values := c(g) by set_params / attribute assignment, then fit(X).  Oracle: used == fresh
    (weights, labels, predictions), for the container c = list and c = ndarray separately."""
    cov = ctx.cov
    ok_pool = {k: [g for g in gs if _gamma_ok(g)] for k, gs in GAMMA_POOL.items()}
    for i in range(ctx.scale(48, 600)):
        r = gen.rng_for(ctx.seed, "C06-route", i)
        k = r.choice([3, 3, 4, 4, 5, 6])
        g = list(r.choice(ok_pool[k]))
        mods, groups, X, how, pi = _route_stream(r, k, g)
        n = len(X)
        mode, eps = r.choice(families.MODES), r.choice([0.0, 2.0 ** -20, 1e-10])
        dims = [X.shape[1] // k] * k
        # the hyper-parameters of the used estimator before it is re-configured: other valid ratios, either container
        others = [o for o in ok_pool[k] if o != g] + [[1.0 if j == c else 0.0 for j in range(k)] for c in range(k)]
        other = CONTAINERS[r.choice(sorted(CONTAINERS))](r.choice(others))
        idx = list(range(n))
        r.shuffle(idx)
        pre = X[np.array(idx[: max(1, n // 2)])]
        rows = families.Rows(X=X)
        snaps = {}
        for cname in sorted(CONTAINERS):
            mk = CONTAINERS[cname]
            spec = {"cls": "FusionART", "modules": mods, "gamma_values": mk(g), "channel_dims": dims}
            fam = families.Fusion(spec, mode, eps)
            fam_other = families.Fusion(dict(spec, gamma_values=other), mode, eps)
            desc = dict(family="FusionART", spec=dict(spec, gamma_values=[float(x) for x in g]), gamma_container=cname, mode=mode, eps=eps,
                        rows=X.tolist(), data=how, earlier=dict(gamma_values=np.asarray(other).tolist(),
                                                               gamma_container=type(other).__name__, rows=pre.tolist()))

            def observe(est):
                s = fam.snap(est)
                try:
                    with quiet():
                        s["predict"] = np.asarray(est.predict(X)).copy()
                except Exception as e:      # predict failures are C04/C08 business, but they must be the same on both sides
                    s["predict"] = "raised:" + exc_enum(e)
                return s
            try:
                fresh = fam.make()
                fam.fit(fresh, rows)
                want = observe(fresh)
            except Exception as e:
                cov.hit(f"fusion-route:ref-raised:{exc_enum(e)}")
                continue
            snaps[cname] = want
            ncat = len(fresh.W)
            cov.case(("fusion-route", mods[0], g, cname, mode, eps, desc["rows"]), n >= 2 and ncat >= 2)
            if cname == "list" and ncat >= 2:
                # the situation aimed at: a sample of the stream ties two categories of the model trained on the rows
                # before it (exactly, through another channel order)
                probe = fam.make()
                for t in range(n):
                    try:
                        tie, sens = _exact_tie(probe, X[t], g) if len(probe.W) >= 2 else (False, False)
                        fam.pfit(probe, rows.sl(t, t + 1))
                    except Exception:
                        break
                    if tie:
                        cov.hit("fusion-route:exact-tie-in-other-channel-order")
                        if sens:
                            cov.hit("fusion-route:exact-tie:left-to-right-sums-differ")
                        break
            for route in ("set_params", "attribute", "set_params-before-any-training", "set_params+partial_fit-history"):
                try:
                    est = fam_other.make()
                    if route == "set_params+partial_fit-history":
                        a = max(1, len(pre) // 2)
                        fam_other.pfit(est, families.Rows(X=pre[:a]))
                        read_only(fam_other, est, families.Rows(X=pre), r)
                        fam_other.pfit(est, families.Rows(X=pre[a:] if a < len(pre) else pre))
                    elif route != "set_params-before-any-training":
                        fam_other.fit(est, families.Rows(X=pre))
                        if r.random() < 0.5:
                            fam_other.predict(est, families.Rows(X=pre))
                except Exception as e:
                    cov.hit(f"fusion-route:history-raised:{exc_enum(e)}")
                    continue
                try:
                    with quiet():
                        if route == "attribute":
                            est.gamma_values = mk(g)
                        else:
                            est.set_params(gamma_values=mk(g))
                    fam.fit(est, rows)
                    got = observe(est)
                except Exception as e:
                    ctx.issue("violation", f"FusionART.reconfigured-refit:{route}:{exc_enum(e)}",
                              f"a FusionART that got gamma_values (a {cname}) through {route} raised {e!r} in fit where the estimator "
                              "constructed with these values succeeds", dict(desc, route=route))
                    continue
                if not eq_snap(got, want):
                    bad = sorted(kk for kk in want if not eq_snap(got.get(kk), want[kk]))
                    ctx.issue("violation", f"FusionART:reconfigured-refit!=fresh:gamma_values-as-{cname}",
                              f"{k} channels, gamma_values {g} handed over as a {cname}: the estimator that received them through {route} "
                              f"(earlier ratios {np.asarray(other).tolist()}) and is then fitted differs in {bad} from the estimator constructed "
                              f"with them and fitted on the same stream (predict {_show(got.get('predict'))} vs {_show(want.get('predict'))})",
                              dict(desc, route=route))
                cov.hit(f"fusion-route:{route}:{cname}")
            cov.hit(f"fusion-route:channels:{k}")
            cov.hit(f"fusion-route:data:{how}")
            if any(abs(x * 64 - round(x * 64)) > 0 for x in g):
                cov.hit("fusion-route:non-dyadic-ratios")
        # the same values in the two containers are two different configurations for the purpose of this check (the
        # library multiplies and adds list entries and array entries with different arithmetic); noted, not judged
        if len(snaps) == 2:
            cov.hit("fusion-route:list-vs-ndarray:" + ("same-model" if eq_snap(snaps["list"], snaps["ndarray"]) else "different-model"))


# ---------------------------------------------------------------- hosts built around modules that had an earlier life
#
# The hyper-parameters of SimpleARTMAP / ARTMAP / DeepARTMAP are *module objects*, and nothing says that the objects handed to
# the constructor are new: a module may have been trained on its own, inside another host (which may still be alive and share
# it), by fit or by partial_fit, before it is wrapped.  "The result depends only on the hyper-parameters and the ordered
# sample stream": a host's fit and a host's FIRST partial_fit both start a new model, so
#     host(over pre-trained modules).fit(stream)                == host(over never-used modules).fit(stream)
#     host(over pre-trained modules).partial_fit(batches ...)   == host(over never-used modules).partial_fit(batches ...)
# (and the two right-hand sides are equal by section (a) of run()).  "Never-used" = constructed from the same specification.

PRETRAINED_HOSTS = ["SimpleARTMAP", "ARTMAP", "DeepARTMAP-sup", "DeepARTMAP-unsup"]
LIVES = ["alone:fit", "alone:partial_fit", "in-SimpleARTMAP:fit", "in-SimpleARTMAP:partial_fit", "in-same-host:fit",
         "in-same-host:partial_fit"]


def _host_modules(name, est):
    if name == "SimpleARTMAP":
        return [est.module_a]
    if name == "ARTMAP":
        return [est.module_a, est.module_b]
    return list(est.modules)


def _host_sides(name, k):
    """which side of a map field each constructor slot ends up on (DeepARTMAP without labels: modules[0] is the B side of
    the first layer, an ARTMAP(modules[1], modules[0]))"""
    if name == "SimpleARTMAP":
        return ["A"]
    if name == "ARTMAP":
        return ["A", "B"]
    return (["B"] if name == "DeepARTMAP-unsup" else ["A"]) + ["A"] * (k - 1)


def _host_over(name, mods):
    import artlib
    with quiet():
        if name == "SimpleARTMAP":
            return artlib.SimpleARTMAP(mods[0])
        if name == "ARTMAP":
            return artlib.ARTMAP(mods[0], mods[1])
        return artlib.DeepARTMAP(list(mods))


def _host_channel(name, rows, j):
    if name == "SimpleARTMAP":
        return rows.arrs["X"]
    if name == "ARTMAP":
        return rows.arrs["X"] if j == 0 else rows.arrs["y"]
    return rows.arrs["Xs"][j]


def pretrained_modules(ctx):
    cov = ctx.cov
    nmax = ctx.scale(14, 40)
    N = ctx.scale(120, 1500)
    for i in range(N):
        r = gen.rng_for(ctx.seed, "C06-pretrained", i)
        # first the cases where only A-side modules had an earlier life, then those where a B-side module had one
        with_b = i >= (3 * N) // 4
        name = (["ARTMAP", "DeepARTMAP-unsup"][i % 2]) if with_b else PRETRAINED_HOSTS[i % 4]
        try:
            fam, rows = families.build(r, name, r.randint(1, nmax), floats=r.random() < 0.25)
        except Exception as e:
            ctx.issue("diff", f"harness:build:{name}:pretrained", repr(e))
            continue
        n = len(rows)
        k = len(_host_modules(name, fam.make()))
        sides = _host_sides(name, k)
        a_slots = [j for j in range(k) if sides[j] == "A"]
        if with_b:
            used = [j for j in range(k) if sides[j] == "B"] + (r.sample(a_slots, r.randint(0, len(a_slots))) if r.random() < 0.5 else [])
        else:
            used = sorted(r.sample(a_slots, r.randint(1, len(a_slots)))) if r.random() < 0.5 else list(a_slots)
        used = sorted(used)
        side = "B" if with_b else "A"
        life = LIVES[(i // 4) % len(LIVES)]
        # ---- what the modules saw earlier: other rows of the same layout, or some of the stream's own rows in another order
        kpre = r.randint(1, 8)
        if r.random() < 0.6:
            pre = fam.fresh(r, kpre, r.random() < 0.25)
        else:
            pre = rows.take(np.array([r.randrange(n) for _ in range(kpre)]))
        pre_labels = gen.labels(r, len(pre), r.randint(1, 3))
        parts = gen.compositions(r, n)
        steps = [(int(a), int(a + p)) for a, p in zip(np.cumsum([0] + parts[:-1]).tolist(), parts)]
        desc = dict(fam.describe(), rows=rows.tolist(), partition=parts,
                    pretrained=dict(constructor_slots=used, sides=[sides[j] for j in used], life=life, rows=pre.tolist(),
                                    labels=pre_labels.tolist()))

        def earlier_life():
            """-> the module objects for the host's constructor: those in `used` have been trained, the rest are new"""
            import artlib
            old = fam.make()
            mods = _host_modules(name, old)
            where, how = life.split(":")
            cut = max(1, len(pre) // 2)
            if where == "in-same-host":
                if how == "fit":
                    fam.fit(old, pre)
                else:
                    fam.pfit(old, pre.sl(0, cut))
                    if cut < len(pre):
                        fam.pfit(old, pre.sl(cut, len(pre)))
            else:
                for j in used:
                    m, Xj = mods[j], _host_channel(name, pre, j)
                    with quiet():
                        if where == "in-SimpleARTMAP":
                            m = artlib.SimpleARTMAP(m)
                            data = [(Xj, pre_labels)] if how == "fit" else [(Xj[:cut], pre_labels[:cut]), (Xj[cut:], pre_labels[cut:])]
                        else:
                            data = [(Xj,)] if how == "fit" else [(Xj[:cut],), (Xj[cut:],)]
                        for args in data:
                            if len(args[0]):
                                (m.fit if how == "fit" else m.partial_fit)(*args, **fam.kw())
            new = _host_modules(name, fam.make())
            return [mods[j] if j in used else new[j] for j in range(k)], max(len(getattr(mods[j], "W", [])) for j in used)

        def history(pretrained, how):
            if pretrained:
                mods, ncat = earlier_life()
                est = _host_over(name, mods)
            else:
                est, ncat = fam.make(), 0
            if how == "fit":
                fam.fit(est, rows)
            else:
                for (a, b) in steps:
                    fam.pfit(est, rows.sl(a, b))
            return families.strip(fam.snap(est), BOUNDS), ncat
        # ---- the hosts over never-used modules (a failure here is section (a)'s or C04's business)
        try:
            want = {how: history(False, how)[0] for how in ("fit", "partial_fit")}
        except Exception as e:
            cov.hit(f"pretrained:ref-raised:{name}:{exc_enum(e)}")
            continue
        try:
            _, ncat = earlier_life()
        except Exception as e:
            cov.hit(f"pretrained:earlier-life-raised:{name}:{life}:{exc_enum(e)}")
            continue
        cov.case(("pretrained", name, fam.spec, desc["rows"], parts, used, life, desc["pretrained"]["rows"]), n >= 2 and ncat >= 1)
        if ncat >= 1:
            cov.hit("pretrained:module-holds-categories-when-wrapped")
        for how, entry in (("fit", "fit"), ("partial_fit", "first-partial_fit")):
            try:
                got, _ = history(True, how)
            except Exception as e:
                ctx.issue("violation", f"{name}.{entry}:{side}-side-module-pretrained:{exc_enum(e)}",
                          f"{how} of a new {name} whose constructor slots {used} ({side} side) hold modules trained earlier ({life}) raised "
                          f"{e!r} where the same host over never-used modules succeeds", dict(desc, how=how))
                continue
            if not eq_snap(got, want[how]):
                bad = sorted(kk for kk in want[how] if not eq_snap(got.get(kk), want[how][kk]))
                ctx.issue("violation", f"{name}:{entry}:{side}-side-module-pretrained!=never-used-modules",
                          f"a new {name} whose constructor slots {used} (sides {[sides[j] for j in used]}) hold modules trained earlier ({life}, "
                          f"{ncat} categories) and that is then trained by {how} (partition {parts if how != 'fit' else [n]} of {n} samples) "
                          f"differs in {bad} from the same host over never-used modules with the same hyper-parameters", dict(desc, how=how))
            cov.hit(f"pretrained:{entry}-vs-never-used-modules")
        cov.hit(f"pretrained:{name}:{side}-side")
        cov.hit(f"pretrained:life:{life}")
        if len(used) < k:
            cov.hit("pretrained:some-modules-used-some-new")


# ---------------------------------------------------------------- plotting calls inside histories
#
# "Interleaving read-only operations anywhere in the history changes nothing": visualize / plot_cluster_bounds (and the frames
# fit_gif draws) only LOOK at a model.  Oracle, on the implementation alone: (1) the model right after the plotting call is the
# model right before it; (2) the history with the plotting calls ends in the model of the same history without them — for
# partial_fit batches that is one fit on the concatenation —, with the same predictions; (3) a fit after the history gives what
# a fresh estimator gives.  A plotting call that raises is tolerated (several models of the unchanged library cannot be drawn),
# it still must not move the model.


def _mpl():
    try:
        import matplotlib
        matplotlib.use("Agg")
        import matplotlib.pyplot as plt
        return plt
    except Exception:   # noqa
        return None


def _bad_keys(got, want):
    return sorted(kk for kk in want if not eq_snap(got.get(kk), want[kk]))


def plotting_in_flat_histories(ctx):
    """the shared generator (harness/artv/plotpure.py): elementary modules, DualVigilanceART, TopoART, SimpleARTMAP, ARTMAP trained
    by fit / partial_fit / fit_gif(small palette), then drawn.  C06's clauses on the estimator afterwards."""
    from .. import plotpure
    cov = ctx.cov
    for sc in plotpure.scenarios(ctx, "C06", quick=24, thorough=240):
        fam, rows, name = sc.fam, sc.rows, sc.fam.name
        gif = sc.plot.startswith("fit_gif")
        if gif and sc.raised is not None:
            cov.hit("plot:fit_gif-stopped-in-a-frame")      # not a complete training call: nothing to judge
            continue
        desc = dict(sc.desc, trained_by=sc.trained_by, state_changed_by_plot=sc.changed[:12], plot_raised=sc.raised)
        how = "fit" if gif or sc.trained_by == "fit" else "partial_fit"
        try:
            twin = fam.make()
            (fam.fit if how == "fit" else fam.pfit)(twin, rows)
            want = fam.snap(twin)
        except Exception as e:
            cov.hit(f"plot:twin-raised:{name}:{exc_enum(e)}")
            continue
        cov.case(("plot", fam.spec, sc.desc["rows"], sc.plot, sc.trained_by), len(rows) >= 2)
        got = fam.snap(sc.est)
        if not eq_snap(got, want):
            ctx.issue("violation", f"{name}:plotting-call-moves-model:{sc.plot.split(':')[0]}",
                      f"{sc.trained_by} then {sc.plot}: the model differs in {_bad_keys(got, want)} from the model the same training "
                      f"call gives without drawing (snapshot paths changed by the call: {sc.changed[:6]})", desc)
        cov.hit("plot:model-after-plotting-compared")
        # ---- the history goes on: partial_fit of further rows, then a re-fit
        k = 1 + (len(rows) > 2)
        if fam.has_pfit:
            try:
                fam.pfit(twin, rows.sl(0, k))
                want2 = fam.snap(twin)
            except Exception as e:
                want2 = None
                cov.hit(f"plot:twin-continuation-raised:{name}:{exc_enum(e)}")
            if want2 is not None:
                try:
                    fam.pfit(sc.est, rows.sl(0, k))
                    got2 = fam.snap(sc.est)
                    if not eq_snap(got2, want2):
                        ctx.issue("violation", f"{name}:plotting-call-changes-later-training",
                                  f"{sc.trained_by}, {sc.plot}, partial_fit rows 0:{k} differs in {_bad_keys(got2, want2)} from the same "
                                  "history without the plotting call", dict(desc, then_partial_fit_rows=k))
                except Exception as e:
                    ctx.issue("violation", f"{name}.partial_fit:after-plotting-call:{exc_enum(e)}",
                              f"{sc.trained_by}, {sc.plot}, then partial_fit rows 0:{k} raised {e!r} where the same history without the "
                              "plotting call succeeds", dict(desc, then_partial_fit_rows=k))
                cov.hit("plot:continuation-compared")
        if fam.has_fit:
            try:
                fam.fit(twin, rows)
                want3 = fam.snap(twin)
            except Exception as e:
                cov.hit(f"plot:twin-refit-raised:{name}:{exc_enum(e)}")
                continue
            try:
                fam.fit(sc.est, rows)
                if not eq_snap(fam.snap(sc.est), want3):
                    ctx.issue("violation", f"{name}:refit-after-plotting-call!=fresh",
                              f"fit on an estimator whose history holds {sc.plot} differs from the fit of an estimator that was never drawn", desc)
            except Exception as e:
                ctx.issue("violation", f"{name}.refit:after-plotting-call:{exc_enum(e)}",
                          f"fit on an estimator whose history holds {sc.plot} raised {e!r}", desc)
            cov.hit("plot:refit-compared")


HIER_PLOTS = ["visualize:own-labels", "plot_cluster_bounds", "visualize:short-colors", "visualize-twice", "visualize:label-copy"]


def _hier_build(r, name, n, min_modules):
    """-> (fam, rows) with >= min_modules modules; SMART over two (sometimes three) features, so that it can be drawn"""
    import random
    for _ in range(80):
        fam, rows = families.build(random.Random(r.random()), name, n)
        if name == "SMART":
            d = fam.groups[0][1]
            if len(fam.spec["rho_values"]) >= min_modules and (d == 2 or (d == 3 and r.random() < 0.2)):
                return fam, rows
        elif len(fam.spec["modules"]) >= min_modules:
            return fam, rows
    return None


def _hier_draw(plt, r, name, est, rows, upto, how):
    """one plotting call on a hierarchy that has seen rows 0:upto -> (what was drawn, None | exception name).  SMART draws
    itself; DeepARTMAP has no plotting method of its own, what can be drawn are its layers (SimpleARTMAP / ARTMAP objects) and
    its modules, each over its own channel and with its own labels_."""
    if name == "SMART":
        target, what, X = est, "SMART", rows.arrs["X"][:upto]
    else:
        cands = [("layer", j, L) for j, L in enumerate(est.layers)] + [("module", j, m) for j, m in enumerate(est.modules)]
        two = [c for c in cands if rows.arrs["Xs"][est.modules.index(c[2].module_a if c[0] == "layer" else c[2])].shape[1]
               in (2, 4)]
        kind, j, target = r.choice(two if two and r.random() < 0.8 else cands)
        ch = est.modules.index(target.module_a if kind == "layer" else target)
        what, X = f"{kind}[{j}]:{type(target).__name__}", rows.arrs["Xs"][ch][:upto]
    raised = None
    fig, ax = plt.subplots()
    try:
        with quiet():
            y = target.labels_
            if how == "visualize:label-copy":
                y = np.array(y)
            ncat = max([len(getattr(m, "W", [])) for m in est.modules] + [int(np.max(np.asarray(y))) + 1 if len(np.asarray(y)) else 1])
            if how == "plot_cluster_bounds":
                target.plot_cluster_bounds(ax, [(0.1 * (c % 10), 0.5, 0.5, 1.0) for c in range(ncat + 12)])
            elif how == "visualize:short-colors":
                target.visualize(X, y, ax=ax, colors=["r", "g"][: r.randint(1, 2)])
            else:
                target.visualize(X, y, ax=ax)
                if how == "visualize-twice":
                    target.visualize(X, y, ax=ax, colors=[(0.1 * (c % 10), 0.5, 0.5, 1.0) for c in range(ncat + 12)])
    except Exception as e:      # noqa
        raised = exc_enum(e)
    finally:
        plt.close("all")
    return what, raised


def plotting_in_hierarchies(ctx):
    """SMART and DeepARTMAP (with and without class labels) with THREE or more modules (a few with two): partial_fit batches
    with the hierarchy — or one of its layers / modules — drawn between them and after the last one, against one fit on the
    concatenation"""
    plt = _mpl()
    cov = ctx.cov
    if plt is None:
        cov.hit("plot:matplotlib-missing")
        return
    nmax = ctx.scale(12, 30)
    for i in range(ctx.scale(48, 600)):
        r = gen.rng_for(ctx.seed, "C06-plot-hier", i)
        name = ["SMART", "SMART", "DeepARTMAP-unsup", "SMART", "DeepARTMAP-sup"][i % 5]
        b = _hier_build(r, name, r.randint(3, nmax), 2 if i % 8 == 7 else 3)
        if b is None:
            cov.hit(f"plot-hier:no-instance:{name}")
            continue
        fam, rows = b
        n = len(rows)
        parts = gen.compositions(r, n)
        if len(parts) == 1 and n >= 2 and r.random() < 0.8:
            a = r.randint(1, n - 1)
            parts = [a, n - a]
        steps = [(int(a), int(a + p)) for a, p in zip(np.cumsum([0] + parts[:-1]).tolist(), parts)]
        # where the drawing happens: after some batch before the last one (if there is one), and sometimes after others too
        must = r.randrange(len(steps) - 1) if len(steps) >= 2 else 0
        draws = {j: HIER_PLOTS[(i + j) % len(HIER_PLOTS)] for j in range(len(steps)) if j == must or r.random() < 0.3}
        desc = dict(fam.describe(), rows=rows.tolist(), partition=parts,
                    plots=[dict(after_rows=steps[j][1], call=h) for j, h in sorted(draws.items())])

        def observe(est):
            s = fam.snap(est)
            try:
                s["predict"] = [np.asarray(p).copy() for p in fam.predict(est, rows)]
            except Exception as e:      # predict failures are C04/C08 business, but they must be the same on both sides
                s["predict"] = "raised:" + exc_enum(e)
            return s
        try:
            ref = fam.make()
            fam.fit(ref, rows)
            want = observe(ref)
        except Exception as e:
            cov.hit(f"plot-hier:ref-raised:{name}:{exc_enum(e)}")
            continue
        levels = len(ref.modules)
        ncats = [len(m.W) for m in ref.modules]
        # non-trivial: some level above the finest one merges categories (a label map that is not a bijection onto itself)
        cov.case(("plot-hier", name, fam.spec, desc["rows"], parts, sorted(draws.items())), n >= 2 and len(set(ncats)) >= 2)
        est, moved, drawn = fam.make(), None, []
        try:
            for j, (a, b_) in enumerate(steps):
                fam.pfit(est, rows.sl(a, b_))
                if j not in draws:
                    continue
                before = fam.snap(est)
                what, raised = _hier_draw(plt, r, name, est, rows, b_, draws[j])
                drawn.append(dict(after_rows=b_, call=draws[j], drawn=what, raised=raised))
                cov.hit(f"plot-hier:{name}:{draws[j]}" + (f":raised:{raised}" if raised else ""))
                if raised is None:
                    cov.hit(f"plot-hier:drawn:{what.split('[')[0]}:{levels if levels < 4 else '4+'}-modules")
                after = fam.snap(est)
                if moved is None and not eq_snap(before, after):
                    moved = (drawn[-1], _bad_keys(after, before))
        except Exception as e:
            if moved is None:
                # (the partition itself raising is section (a)'s business: look at the same history without the drawing)
                try:
                    twin = fam.make()
                    for (a, b_) in steps:
                        fam.pfit(twin, rows.sl(a, b_))
                except Exception:
                    cov.hit(f"plot-hier:history-raised-without-plots-too:{name}:{exc_enum(e)}")
                    continue
                ctx.issue("violation", f"{name}.partial_fit:after-plotting-call:{exc_enum(e)}",
                          f"{levels} modules, partition {parts}: partial_fit after {drawn[-1:] or 'the plotting calls'} raised {e!r} "
                          "where the same history without the plotting calls succeeds", dict(desc, drawn=drawn))
                continue
        desc = dict(desc, drawn=drawn)
        if moved is not None:
            ctx.issue("violation", f"{name}:plotting-call-moves-model:{moved[0]['call'].split(':')[0]}",
                      f"{levels} modules ({ncats} categories after the whole stream): after partial_fit of rows 0:{moved[0]['after_rows']} "
                      f"the call {moved[0]['call']} on {moved[0]['drawn']} changed {moved[1]} (weights, labels or label maps)", desc)
        try:
            got = observe(est)
        except Exception as e:
            cov.hit(f"plot-hier:observe-raised:{name}:{exc_enum(e)}")
            continue
        if not eq_snap(got, want):
            # partition == fit is section (a)'s statement; here: the same partition without the plotting calls
            try:
                twin = fam.make()
                for (a, b_) in steps:
                    fam.pfit(twin, rows.sl(a, b_))
                want_t = observe(twin)
            except Exception:
                want_t = None
            if want_t is not None and not eq_snap(got, want_t):
                ctx.issue("violation", f"{name}:partial_fit,plot,partial_fit!=fit",
                          f"{levels} modules: partition {parts} of {n} samples with {[d_['call'] + ' on ' + d_['drawn'] for d_ in drawn]} "
                          f"between the batches differs in {_bad_keys(got, want)} from one fit on the concatenation, and from the same "
                          "batches without the plotting calls", desc)
        # ---- fit on the used (and drawn) estimator == fresh
        try:
            fam.fit(est, rows)
            if not eq_snap(observe(est), want):
                ctx.issue("violation", f"{name}:refit-after-plotting-call!=fresh",
                          f"{levels} modules: fit on a hierarchy that was drawn during its earlier history differs from a fresh fit", desc)
        except Exception as e:
            ctx.issue("violation", f"{name}.refit:after-plotting-call:{exc_enum(e)}",
                      f"{levels} modules: fit on a hierarchy that was drawn during its earlier history raised {e!r}", desc)
        cov.hit(f"plot-hier:compared:{name}")
        if len(steps) >= 2:
            cov.hit("plot-hier:partial_fit,plot,partial_fit-vs-fit")
        if levels >= 3:
            cov.hit("plot-hier:three-or-more-modules")


def prepare(ctx):
    """Translator tie (see gen_tie.py): the statements of the BaseART methods are regenerated from the source and the
    theorems about the generated definitions are re-checked"""
    from .gen_tie import gen_prepare
    gen_prepare(ctx, ['Control.partial_fit_spec', 'Control.fit_spec', 'Control.partial_fit_append', 'Control.fit_history_independent', 'Control.fit_one_eq_partial_fit_fresh',
                      'Whole.dual_partial_fit_append', 'Whole.dual_fit_eq_partial_fits', 'Whole.dual_refit_eq_fresh',
                      'Whole.topo_partial_fit_never_prunes'],
                "BaseART.partial_fit / fit (translated statements): batching is irrelevant, fit forgets the earlier model; the same for the "
                "loops re-translated for a DualVigilanceART receiver; for TopoART the generated partial_fit provably never prunes (finding F11)")


def run(ctx):
    cov = ctx.cov
    N = ctx.scale(420, 4000)
    nmax = ctx.scale(14, 40)
    names = families.ALL_FAMILIES
    for i in range(N):
        r = gen.rng_for(ctx.seed, "C06", i)
        name = names[i % len(names)]
        n = r.randint(1, nmax)
        try:
            fam, rows = families.build(r, name, n, floats=r.random() < 0.25)
            n = len(rows)
        except Exception as e:
            ctx.issue("diff", f"harness:build:{name}", repr(e))
            continue
        desc = dict(fam.describe(), rows=rows.tolist())
        parts = gen.compositions(r, n)
        if n <= 5 and r.random() < 0.5:
            allc = list(gen.all_compositions(n))
            parts = allc[r.randrange(len(allc))]
        # ---- reference: one fit (or one partial_fit for families without fit)
        try:
            ref = fam.make()
            if fam.has_fit:
                fam.fit(ref, rows)
            else:
                fam.pfit(ref, rows)
            ref_snap = fam.snap(ref)
        except Exception as e:
            # training failures on valid data are C04's; note and move on
            cov.hit(f"ref-raised:{name}:{exc_enum(e)}")
            cov.case((name, fam.spec, desc["rows"]), False)
            continue
        nontriv = n >= 2
        cov.case((name, fam.spec, desc["rows"], parts), nontriv)
        if i < 3:
            cov.sample({"family": name, "spec": fam.spec, "n": n, "partition": parts})
        # ---- (a) partition into partial_fit batches
        if fam.has_pfit and fam.has_fit:
            try:
                est = fam.make()
                j = 0
                for p in parts:
                    fam.pfit(est, rows.sl(j, j + p))
                    j += p
                if not eq_snap(fam.snap(est), ref_snap):
                    sig = f"{name}:partial_fit!=fit"
                    ctx.issue("violation", sig, f"partition {parts} of {n} samples gives a different model than fit",
                              dict(desc, partition=parts))
                cov.hit("partition-vs-fit")
                # the same partition fed through ONE recycled batch buffer that the caller overwrites with the next
                # batch (and scribbles over at the end): the stream is the same, so is the result
                if len(parts) >= 2 and i % 2 == 0:
                    est = fam.make()
                    bufs = rows.buffers(max(parts))
                    j = 0
                    for p in parts:
                        fam.pfit(est, rows.sl_into(bufs, j, j + p))
                        j += p
                    snap_b = fam.snap(est)
                    for b_ in bufs.values():
                        for t_ in (b_ if isinstance(b_, list) else [b_]):
                            if t_.dtype.kind == "f":
                                t_[...] = 0.5
                    if not eq_snap(snap_b, ref_snap) or not eq_snap(fam.snap(est), ref_snap):
                        ctx.issue("violation", f"{name}:partial_fit-from-recycled-buffer!=fit",
                                  f"partition {parts} of {n} samples handed over through one reused batch buffer gives a different model than "
                                  "fit on the concatenation (the model follows the caller's buffer)", dict(desc, partition=parts))
                    cov.hit("partition-through-recycled-buffer")
            except Exception as e:
                ctx.issue("violation", f"{name}.partial_fit:{exc_enum(e)}",
                          f"partial_fit over partition {parts} raised {e!r} where fit succeeds", dict(desc, partition=parts))
        # ---- (b) re-fit of a used estimator == fresh
        if fam.has_fit:
            try:
                est = fam.make()
                r2 = gen.rng_for(ctx.seed, "C06-pre", i)
                fam2, rows2 = families.build(r2, name, r2.randint(1, nmax))
                # earlier history on *other* data of the same shape is only possible when shapes agree;
                # use a permuted / truncated version of the same stream instead
                idx = list(range(n))
                r.shuffle(idx)
                pre = rows.take(np.array(idx[: max(1, n // 2)]))
                fam.fit(est, pre)
                if fam.has_pfit and r.random() < 0.5:
                    fam.pfit(est, pre)
                fam.fit(est, rows)
                if not eq_snap(fam.snap(est), ref_snap):
                    ctx.issue("violation", f"{name}:refit!=fresh", "fit on a used estimator differs from a fresh fit",
                              dict(desc, pre=pre.tolist()))
                cov.hit("refit-vs-fresh")
            except Exception as e:
                ctx.issue("violation", f"{name}.refit:{exc_enum(e)}", f"re-fit raised {e!r} where a fresh fit succeeds",
                          dict(desc))
        # ---- (b') re-fit after a history on data of another width (elementary modules: the width is
        #      not a hyper-parameter, a fresh estimator accepts any)
        if name in families.ELEM and r.random() < 0.35:
            try:
                est = fam.make()
                rr = gen.rng_for(ctx.seed, "C06-w", i)
                d_other = rows.arrs["X"].shape[1] // (2 if name == "FuzzyART" else 1) + 1
                from .. import specs as _sp
                pre = families.Rows(X=_sp.elem_data(rr, name, 3, d_other))
                ok_pre = True
                try:
                    fam.fit(est, pre)
                except Exception:
                    ok_pre = False   # e.g. ART2A alpha bound / Gaussian sigma_init length depend on the width
                if ok_pre:
                    fam.fit(est, rows)
                    if not eq_snap(fam.snap(est), ref_snap):
                        ctx.issue("violation", "BaseART.refit:other-width", "re-fit after other-width data differs", dict(desc))
                    cov.hit("refit-other-width-ok")
            except AssertionError as e:
                ctx.issue("violation", "BaseART.refit:other-width",
                          f"{name}: fit on an estimator previously fitted on data of another width raises AssertionError "
                          "(dim_ survives fit) where a fresh estimator succeeds", dict(desc, pre=pre.tolist()))
            except Exception as e:
                ctx.issue("violation", f"{name}.refit-other-width:{exc_enum(e)}", repr(e), dict(desc))
        # ---- (c) read-only operations interleaved
        try:
            est = fam.make()
            if fam.has_pfit:
                j = 0
                for p in parts:
                    fam.pfit(est, rows.sl(j, j + p))
                    read_only(fam, est, rows, r)
                    j += p
                want = ref_snap if fam.has_fit or True else None
            else:
                fam.fit(est, rows)
                read_only(fam, est, rows, r)
            got = fam.snap(est)
            if not eq_snap(got, ref_snap):
                # only meaningful where partition == fit already holds; otherwise reported above
                est2 = fam.make()
                if fam.has_pfit:
                    j = 0
                    for p in parts:
                        fam.pfit(est2, rows.sl(j, j + p))
                        j += p
                else:
                    fam.fit(est2, rows)
                if not eq_snap(got, fam.snap(est2)):
                    ctx.issue("violation", f"{name}:read-only-changes-model",
                              "interleaving predict/get_params/deepcopy/pickle changed the trained model",
                              dict(desc, partition=parts))
            cov.hit("read-only-interleaved")
        except Exception as e:
            cov.hit(f"readonly-raised:{name}:{exc_enum(e)}")
        # ---- (d) read-only accessors (cluster centres, bounding boxes, regression predictions) interleaved
        accessors_interleaved(ctx, i, name, fam, rows, parts, desc, ref_snap)
    deep_refits(ctx)
    reconfigured_refits(ctx)
    pretrained_modules(ctx)
    plotting_in_flat_histories(ctx)
    plotting_in_hierarchies(ctx)
    long_streams(ctx)
    # ---- tie: Lean folds vs implementation (fit, partial_fit partitions, re-fit)
    e2e.base_histories(ctx, "C06", ctx.scale(150, 3000), ctx.scale(20, 80), fields=("labels", "W"))
    e2e.smap_histories(ctx, "C06", ctx.scale(120, 2500), ctx.scale(16, 60))


def _n_categories(est) -> int:
    best = 0
    for o in [est] + [getattr(est, a) for a in ("module_a", "base_module", "fusion_art") if a in getattr(est, "__dict__", {})] \
            + list(getattr(est, "__dict__", {}).get("modules", []) or []):
        try:
            best = max(best, len(o.W))
        except Exception:
            pass
    return best


def long_streams(ctx):
    """the statement has no bound on the stream length: streams of several hundred to a few thousand rows (around
    powers of two, where chunked readers, buffers and pre-allocated arrays change regime), one fit against row-by-row
    partial_fit and against an uneven split"""
    cov = ctx.cov
    sizes = [255, 256, 257, 300, 383, 385, 511, 513, 640, 1000, 1025, 2049, 4097]
    for i in range(ctx.scale(6, 60)):
        r = gen.rng_for(ctx.seed, "C06-long", i)
        name = ["FuzzyART", "ART1", "HypersphereART", "SimpleARTMAP", "FusionART", "ART2A"][i % 6]
        n = [257, 300, 383, 513, 600, 255][i % 6] if ctx.tier == "quick" else r.choice(sizes)
        fam, rows = families.build(r, name, 12)
        # few distinct rows, many repeats: the model stays small, the stream is long
        idx = np.array([r.randrange(len(rows)) for _ in range(n)])
        rows = rows.take(idx)
        desc = dict(fam.describe(), n=n, row_index=idx.tolist())
        try:
            ref = fam.make()
            many = False
            for j in range(n):
                fam.pfit(ref, rows.sl(j, j + 1))
                if j == 63 and _n_categories(ref) > 24:
                    many = True           # (a model that keeps creating categories makes a long stream quadratic: not this section's subject)
                    break
            if many:
                cov.hit("long-stream:skipped:model-keeps-growing")
                continue
            ref_snap = fam.snap(ref)
        except Exception as e:
            cov.hit(f"long:ref-raised:{name}:{exc_enum(e)}")
            continue
        for how in ("fit", "split"):
            try:
                est = fam.make()
                if how == "fit":
                    fam.fit(est, rows)
                else:
                    a = r.randint(1, n - 1)
                    fam.pfit(est, rows.sl(0, a))
                    fam.pfit(est, rows.sl(a, n))
                if not eq_snap(fam.snap(est), ref_snap):
                    ctx.issue("violation", f"{name}:long-stream:{how}!=row-by-row",
                              f"{n} rows: {how} gives a different model than presenting the rows one partial_fit call at a time "
                              f"(labels_ {len(np.asarray(getattr(est, 'labels_', [])))} entries)", dict(desc, how=how))
            except Exception as e:
                ctx.issue("violation", f"{name}:long-stream:{how}:{exc_enum(e)}", f"{n} rows: {how} raised {e!r}", dict(desc, how=how))
        cov.hit(f"long-stream:{n}")
        cov.case(("long", name, fam.spec, n, desc["row_index"]), True)
