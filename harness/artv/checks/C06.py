"""C06 — result depends only on hyper-parameters and the ordered stream.
Oracle (implementation alone): fit == any partial_fit partition == re-fit of a
used estimator == the same with read-only operations interleaved.  Tie: the
Lean folds reproduce fit / partial_fit histories end-to-end (exact kernels)."""
from __future__ import annotations

import copy
import pickle

import numpy as np

from .. import gen, families
from ..impl import quiet, exc_enum, eq_snap
from . import e2e

RULE = ("cases = (family, hyper-parameters, stream, partition / earlier history / read-only interleaving); all "
        "compositions for n <= 5, random ones beyond; non-trivial when the stream has >= 2 samples and the trained "
        "model has >= 2 categories or a non-trivial map; distinct by hash of (family spec, stream, partition)")


def read_only(fam, est, rows, r):
    """predict / get_params / deepcopy / pickle — must change nothing"""
    k = r.randrange(4)
    with quiet():
        if k == 0 and fam.has_predict and len(rows):
            try:
                fam.predict(est, rows.sl(0, max(1, len(rows) // 2)))
            except Exception:
                pass  # predict failures are C04/C08 business
        elif k == 1 and hasattr(est, "get_params"):
            est.get_params()
        elif k == 2:
            copy.deepcopy(est)
        else:
            pickle.loads(pickle.dumps(est))


def prepare(ctx):
    """Translator tie (see gen_tie.py): the statements of the BaseART methods are regenerated from the source and the
    theorems about the generated definitions are re-checked"""
    from .gen_tie import gen_prepare
    gen_prepare(ctx, ['Control.partial_fit_spec', 'Control.fit_spec', 'Control.partial_fit_append', 'Control.fit_history_independent', 'Control.fit_one_eq_partial_fit_fresh',
                      'Whole.dual_partial_fit_append', 'Whole.dual_fit_eq_partial_fits', 'Whole.dual_refit_eq_fresh',
                      'Whole.topo_partial_fit_never_prunes'],
                "BaseART.partial_fit / fit (translated statements): batching is irrelevant, fit forgets the earlier model; the same for the "
                "loops re-translated for a DualVigilanceART receiver; for TopoART the generated partial_fit provably never prunes (finding F11)")


def run(ctx):
    cov = ctx.cov
    N = ctx.scale(420, 4000)
    nmax = ctx.scale(14, 40)
    names = families.ALL_FAMILIES
    for i in range(N):
        r = gen.rng_for(ctx.seed, "C06", i)
        name = names[i % len(names)]
        n = r.randint(1, nmax)
        try:
            fam, rows = families.build(r, name, n, floats=r.random() < 0.25)
            n = len(rows)
        except Exception as e:
            ctx.issue("diff", f"harness:build:{name}", repr(e))
            continue
        desc = dict(fam.describe(), rows=rows.tolist())
        parts = gen.compositions(r, n)
        if n <= 5 and r.random() < 0.5:
            allc = list(gen.all_compositions(n))
            parts = allc[r.randrange(len(allc))]
        # ---- reference: one fit (or one partial_fit for families without fit)
        try:
            ref = fam.make()
            if fam.has_fit:
                fam.fit(ref, rows)
            else:
                fam.pfit(ref, rows)
            ref_snap = fam.snap(ref)
        except Exception as e:
            # training failures on valid data are C04's; note and move on
            cov.hit(f"ref-raised:{name}:{exc_enum(e)}")
            cov.case((name, fam.spec, desc["rows"]), False)
            continue
        nontriv = n >= 2
        cov.case((name, fam.spec, desc["rows"], parts), nontriv)
        if i < 3:
            cov.sample({"family": name, "spec": fam.spec, "n": n, "partition": parts})
        # ---- (a) partition into partial_fit batches
        if fam.has_pfit and fam.has_fit:
            try:
                est = fam.make()
                j = 0
                for p in parts:
                    fam.pfit(est, rows.sl(j, j + p))
                    j += p
                if not eq_snap(fam.snap(est), ref_snap):
                    sig = f"{name}:partial_fit!=fit"
                    ctx.issue("violation", sig, f"partition {parts} of {n} samples gives a different model than fit",
                              dict(desc, partition=parts))
                cov.hit("partition-vs-fit")
                # the same partition fed through ONE recycled batch buffer that the caller overwrites with the next
                # batch (and scribbles over at the end): the stream is the same, so is the result
                if len(parts) >= 2 and i % 2 == 0:
                    est = fam.make()
                    bufs = rows.buffers(max(parts))
                    j = 0
                    for p in parts:
                        fam.pfit(est, rows.sl_into(bufs, j, j + p))
                        j += p
                    snap_b = fam.snap(est)
                    for b_ in bufs.values():
                        for t_ in (b_ if isinstance(b_, list) else [b_]):
                            if t_.dtype.kind == "f":
                                t_[...] = 0.5
                    if not eq_snap(snap_b, ref_snap) or not eq_snap(fam.snap(est), ref_snap):
                        ctx.issue("violation", f"{name}:partial_fit-from-recycled-buffer!=fit",
                                  f"partition {parts} of {n} samples handed over through one reused batch buffer gives a different model than "
                                  "fit on the concatenation (the model follows the caller's buffer)", dict(desc, partition=parts))
                    cov.hit("partition-through-recycled-buffer")
            except Exception as e:
                ctx.issue("violation", f"{name}.partial_fit:{exc_enum(e)}",
                          f"partial_fit over partition {parts} raised {e!r} where fit succeeds", dict(desc, partition=parts))
        # ---- (b) re-fit of a used estimator == fresh
        if fam.has_fit:
            try:
                est = fam.make()
                r2 = gen.rng_for(ctx.seed, "C06-pre", i)
                fam2, rows2 = families.build(r2, name, r2.randint(1, nmax))
                # earlier history on *other* data of the same shape is only possible when shapes agree;
                # use a permuted / truncated version of the same stream instead
                idx = list(range(n))
                r.shuffle(idx)
                pre = rows.take(np.array(idx[: max(1, n // 2)]))
                fam.fit(est, pre)
                if fam.has_pfit and r.random() < 0.5:
                    fam.pfit(est, pre)
                fam.fit(est, rows)
                if not eq_snap(fam.snap(est), ref_snap):
                    ctx.issue("violation", f"{name}:refit!=fresh", "fit on a used estimator differs from a fresh fit",
                              dict(desc, pre=pre.tolist()))
                cov.hit("refit-vs-fresh")
            except Exception as e:
                ctx.issue("violation", f"{name}.refit:{exc_enum(e)}", f"re-fit raised {e!r} where a fresh fit succeeds",
                          dict(desc))
        # ---- (b') re-fit after a history on data of another width (elementary modules: the width is
        #      not a hyper-parameter, a fresh estimator accepts any)
        if name in families.ELEM and r.random() < 0.35:
            try:
                est = fam.make()
                rr = gen.rng_for(ctx.seed, "C06-w", i)
                d_other = rows.arrs["X"].shape[1] // (2 if name == "FuzzyART" else 1) + 1
                from .. import specs as _sp
                pre = families.Rows(X=_sp.elem_data(rr, name, 3, d_other))
                ok_pre = True
                try:
                    fam.fit(est, pre)
                except Exception:
                    ok_pre = False   # e.g. ART2A alpha bound / Gaussian sigma_init length depend on the width
                if ok_pre:
                    fam.fit(est, rows)
                    if not eq_snap(fam.snap(est), ref_snap):
                        ctx.issue("violation", "BaseART.refit:other-width", "re-fit after other-width data differs", dict(desc))
                    cov.hit("refit-other-width-ok")
            except AssertionError as e:
                ctx.issue("violation", "BaseART.refit:other-width",
                          f"{name}: fit on an estimator previously fitted on data of another width raises AssertionError "
                          "(dim_ survives fit) where a fresh estimator succeeds", dict(desc, pre=pre.tolist()))
            except Exception as e:
                ctx.issue("violation", f"{name}.refit-other-width:{exc_enum(e)}", repr(e), dict(desc))
        # ---- (c) read-only operations interleaved
        try:
            est = fam.make()
            if fam.has_pfit:
                j = 0
                for p in parts:
                    fam.pfit(est, rows.sl(j, j + p))
                    read_only(fam, est, rows, r)
                    j += p
                want = ref_snap if fam.has_fit or True else None
            else:
                fam.fit(est, rows)
                read_only(fam, est, rows, r)
            got = fam.snap(est)
            if not eq_snap(got, ref_snap):
                # only meaningful where partition == fit already holds; otherwise reported above
                est2 = fam.make()
                if fam.has_pfit:
                    j = 0
                    for p in parts:
                        fam.pfit(est2, rows.sl(j, j + p))
                        j += p
                else:
                    fam.fit(est2, rows)
                if not eq_snap(got, fam.snap(est2)):
                    ctx.issue("violation", f"{name}:read-only-changes-model",
                              "interleaving predict/get_params/deepcopy/pickle changed the trained model",
                              dict(desc, partition=parts))
            cov.hit("read-only-interleaved")
        except Exception as e:
            cov.hit(f"readonly-raised:{name}:{exc_enum(e)}")
    long_streams(ctx)
    # ---- tie: Lean folds vs implementation (fit, partial_fit partitions, re-fit)
    e2e.base_histories(ctx, "C06", ctx.scale(150, 3000), ctx.scale(20, 80), fields=("labels", "W"))
    e2e.smap_histories(ctx, "C06", ctx.scale(120, 2500), ctx.scale(16, 60))


def long_streams(ctx):
    """the statement has no bound on the stream length: streams of several hundred to a few thousand rows (around
    powers of two, where chunked readers, buffers and pre-allocated arrays change regime), one fit against row-by-row
    partial_fit and against an uneven split"""
    cov = ctx.cov
    sizes = [255, 256, 257, 300, 383, 385, 511, 513, 640, 1000, 1025, 2049, 4097]
    for i in range(ctx.scale(6, 60)):
        r = gen.rng_for(ctx.seed, "C06-long", i)
        name = ["FuzzyART", "ART1", "HypersphereART", "SimpleARTMAP", "FusionART", "ART2A"][i % 6]
        n = [257, 300, 383, 513, 600, 255][i % 6] if ctx.tier == "quick" else r.choice(sizes)
        fam, rows = families.build(r, name, 12)
        # few distinct rows, many repeats: the model stays small, the stream is long
        idx = np.array([r.randrange(len(rows)) for _ in range(n)])
        rows = rows.take(idx)
        desc = dict(fam.describe(), n=n, row_index=idx.tolist())
        try:
            ref = fam.make()
            for j in range(n):
                fam.pfit(ref, rows.sl(j, j + 1))
            ref_snap = fam.snap(ref)
        except Exception as e:
            cov.hit(f"long:ref-raised:{name}:{exc_enum(e)}")
            continue
        for how in ("fit", "split"):
            try:
                est = fam.make()
                if how == "fit":
                    fam.fit(est, rows)
                else:
                    a = r.randint(1, n - 1)
                    fam.pfit(est, rows.sl(0, a))
                    fam.pfit(est, rows.sl(a, n))
                if not eq_snap(fam.snap(est), ref_snap):
                    ctx.issue("violation", f"{name}:long-stream:{how}!=row-by-row",
                              f"{n} rows: {how} gives a different model than presenting the rows one partial_fit call at a time "
                              f"(labels_ {len(np.asarray(getattr(est, 'labels_', [])))} entries)", dict(desc, how=how))
            except Exception as e:
                ctx.issue("violation", f"{name}:long-stream:{how}:{exc_enum(e)}", f"{n} rows: {how} raised {e!r}", dict(desc, how=how))
        cov.hit(f"long-stream:{n}")
        cov.case(("long", name, fam.spec, n, desc["row_index"]), True)
