"""C11 — partial-channel inference; channel joins round-trip.

Oracle (implementation alone): on one trained FusionART, for every subset of
skipped channels (written with positive and negative indices), several fillers
that are valid for the skipped modules' validators give the same labels, namely the
first arg-max of the gamma-weighted activations of the remaining channels
(recomputed from the modules); `predict_regression` returns the target-channel
centres of that category for every non-empty target subset;
`join_channel_data` / `split_channel_data` and `prepare_data` / `restore_data`
round-trip on the supplied channels.  `strict_fp_state`: the same filler-independence / arg-max / centre
clauses while numpy's floating-point error handling is strict (errstate / seterr 'raise', RuntimeWarning as
error) and the withheld channel is a narrow GaussianART / BayesianART: no filler may make the call raise.

`out_of_band_edits`: after a prediction the weights of a channel module are changed through the module's public API
(shrink_clusters, W[j] = w, two categories exchanged, set_weight, W = [...]; the host's set_weight), several rounds: model.W
is the concatenation of the channel weights, partial-channel predict is the arg-max over the CURRENT channel weights whatever
the filler, predict_regression the CURRENT target-channel centre of that category.

`container_spellings`: the withheld / target subset handed over as an index container other than a list (numpy index
arrays of every integer dtype, np.flatnonzero / np.where of a channel mask, np.arange, tuples, ranges, sets, dict key views,
lists of numpy integers, 0-d arrays), every subset incl. the one-element set {0} as np.array([0]) (non-empty but falsy):
predict / predict_regression / join / split / prepare / restore give what the list spelling gives (filler independence,
arg-max of the supplied channels, round trips); a non-iterable spelling may be rejected.

Tie: `artdrv fusion hist … # pred X SKIP` (model `predictSkip`), `fusion regr`
(`predictRegression`), `fusion joinsplit` and `fusion restore` (`restoreRow`) on exact
classes and grid data, for every subset of channels (suffixes or not) and every spelling.

The two oracle signatures SIG_RESTORE / SIG_REGR are regression guards for the findings
C11-a / C11-b of this slice, fixed in /repo aea0d0b / f0de10c."""
from __future__ import annotations

import contextlib
import warnings
from fractions import Fraction
from itertools import combinations

import numpy as np

from .. import gen, specs
from ..common import q2s, mat_q, vec_q, run_driver, parse_kv, parse_optnats, parse_mat_q, parse_vec_q
from ..impl import make, quiet, exc_enum
from .e2e import close
from .C10 import gen_channels, fusion_spec, channel_data, chans_str, ints_str, limit_n, EXACT_CH, ambiguous_rows, ActLog, GAMMAS

RULE = ("cases = (trained FusionART: channel classes, widths, gammas, hyper-parameters, training stream; query rows; "
        "subset of skipped / target channels and its spelling with positive / negative indices; fillers); a case is "
        "non-trivial when the model has >= 2 categories and the subset is neither empty nor everything; distinct by "
        "hash of (spec, stream, query, subset spelling)")

SIG_RESTORE = "FusionART.restore_data:skipped-channel-before-kept-channel"
SIG_REGR = "FusionART.predict_regression:multi-target:centres-indexed-by-channel-number"


def subsets(k):
    for m in range(k + 1):
        for s in combinations(range(k), m):
            yield list(s)


def spell(r, S, k):
    """the same channel set written with a random mix of positive and negative indices, shuffled"""
    out = [(j - k) if r.random() < 0.5 else j for j in S]
    r.shuffle(out)
    return out


def valid_filler(r, cls, d, n, floats):
    if cls == "ART1":
        return gen.binary_rows(r, n, d, allow_zero=True)
    if cls == "FuzzyART":
        t = gen.float_rows(r, n, d) if floats else gen.grid_rows(r, n, d)
        return gen.cc(t)
    return gen.float_rows(r, n, d) if floats else gen.grid_rows(r, n, d)


def set_identity_bounds(f, cls, ds):
    with quiet():
        for m, c, d in zip(f.modules, cls, ds):
            m.prepare_data(np.array([[0.0] * d, [1.0] * d]))


GEN_THEOREMS = ['fusion_positions', 'fusion_category_choice', 'fusion_match_criterion_bin', 'fusion_W_get', 'fusion_W_get_model']


def prepare(ctx):
    """Translator tie (see gen_tie.py): FusionART's own methods are regenerated from the source on every run and proved
    equal to the channel-wise definitions the property theorems are stated about"""
    from .gen_tie import gen_prepare, extra_theorems
    from .. import ftrans2
    gen_prepare(ctx, GEN_THEOREMS + extra_theorems("ftrans2"), ftrans2.COVERS + '; FusionART.category_choice / match_criterion_bin with skip_channels, the W property and get_channel_position_tuples (ftrans -> ArtGen/Fusion.lean) = choiceSkip / the conjunction over the channels not skipped / fusedW of ArtModel/Fusion.lean')


def ref_argmax(f, Q, S, off):
    """per query row: the first arg-max of the gamma-weighted activations of the channels not in S, recomputed from the
    modules alone; None where float rounding of the sum could decide (same exclusion as the main oracle)"""
    gam_ = f.params["gamma_values"]
    ncat = len(f.W)
    out = []
    for q in range(Q.shape[0]):
        T, terms = [], []
        with quiet():
            for c in range(ncat):
                tl = [float(m.category_choice(Q[q, off[j]:off[j + 1]], m.W[c], m.params)[0]) * gam_[j]
                      for j, m in enumerate(f.modules) if j not in S]
                terms.append(tl)
                T.append(sum(tl))
        best = sorted(range(ncat), key=lambda c: (-T[c], c))[0]
        close_ = [c for c in range(ncat) if c != best and abs(T[c] - T[best]) < 1e-9 * (1 + abs(T[best]))
                  and terms[c] != terms[best]]
        out.append(None if close_ else best)
    return out


def shared_selectors(ctx, G):
    """One process, several trained FusionART models with *different* channel counts, and ONE selector list object
    (a caller-held `last = [-1]`, or the default `target_channels` of predict_regression) handed to every entry point
    of every model in turn.  The property is per model: each model resolves the selector against its own channel
    count (the withheld columns are the model's own, the regression value is the centre of the model's own target
    channel), whatever other model saw the same list before; and the list the caller holds is still the list it wrote."""
    cov = ctx.cov
    for i in range(G):
        r = gen.rng_for(ctx.seed, "C11-shared", i)
        ks = r.sample([2, 3, 4], r.choice([2, 2, 3]))          # distinct channel counts, in random order
        M = []
        rep = {"channel_counts": ks, "models": []}
        try:
            for k in ks:
                cls, ds, sp, dims, gam = gen_channels(r, k, k)
                n = limit_n(sp, r.randint(4, 12))
                Xc = channel_data(r, cls, ds, n)
                X = np.hstack(Xc)
                spec = fusion_spec(sp, dims, gam)
                f = make(spec)
                set_identity_bounds(f, cls, ds)
                with quiet():
                    f.fit(X)
                nq = r.randint(2, 5)
                Qc = [np.vstack([A[[r.randrange(n)]] if r.random() < 0.5 else B[[j]] for j in range(nq)])
                      for A, B in zip(Xc, channel_data(r, cls, ds, nq))]
                M.append(dict(k=k, cls=cls, ds=ds, dims=dims, spec=spec, f=f, Qc=Qc, Q=np.hstack(Qc), nq=nq,
                              off=np.cumsum([0] + dims), centres=[m.get_cluster_centers() for m in f.modules]))
                rep["models"].append({"spec": spec, "classes": cls, "X": X, "query": np.hstack(Qc)})
        except Exception as e:
            ctx.issue("violation", f"FusionART.fit:{exc_enum(e)}", f"fit raised {e!r}", rep)
            continue
        kmin = min(ks)
        want_neg = r.random() < 0.8
        while True:      # one spelling, meaningful for every model: a proper, duplicate-free subset of each one's channels
            sel = r.sample(range(-kmin, kmin), r.randint(1, kmin - 1))
            if all(len({t + k if t < 0 else t for t in sel}) == len(sel) for k in ks) and \
                    (not want_neg or any(t < 0 for t in sel)):
                break
        orig = list(sel)
        rep["selector"] = orig
        cov.case(("shared", tuple(ks), tuple(orig), tuple(m["Q"].tobytes() for m in M)),
                 any(len(m["f"].W) >= 2 for m in M))
        cov.hit("shared-selector:" + ("negative-index" if any(t < 0 for t in orig) else "positive-only"))
        cov.hit(f"shared-selector:models={len(ks)}")
        rewritten = False

        def after(entry, mi):
            nonlocal rewritten
            if sel != orig and not rewritten:
                rewritten = True
                ctx.issue("violation", f"FusionART.{entry}:caller-selector-list-rewritten",
                          f"the caller's selector list {orig} reads {sel} after {entry}(..., {orig}) of the "
                          f"{ks[mi]}-channel model (model #{mi} of channel counts {ks})", dict(rep, after_entry=entry, model=mi))

        for mi, m in enumerate(M):
            f, k, cls, ds, off, Q, Qc, nq = m["f"], m["k"], m["cls"], m["ds"], m["off"], m["Q"], m["Qc"], m["nq"]
            S = sorted(t + k if t < 0 else t for t in orig)   # what the selector means for THIS model
            rp = dict(rep, model=mi, own_channels=S)
            entries = ["predict", "predict_regression", "join/split", "prepare/restore", "predict_regression(default)"]
            r.shuffle(entries)
            try:
                with quiet():
                    lab = [int(v) for v in f.predict(Q, skip_channels=list(S))]     # fresh list, positive indices
                    lab_last = [int(v) for v in f.predict(Q, skip_channels=[k - 1])]
            except Exception as e:
                ctx.issue("violation", f"FusionART.predict:skip:{exc_enum(e)}", f"predict raised {e!r} with skip {S}", rp)
                continue
            for entry in entries:
                try:
                    if entry == "predict":
                        preds = []
                        for t in range(2):
                            Qf = Q.copy()
                            for j in S:
                                Qf[:, off[j]:off[j + 1]] = ((1.0 if cls[j] == "ART1" else 0.5) if t == 0
                                                            else valid_filler(r, cls[j], ds[j], nq, True))
                            with quiet():
                                preds.append([int(v) for v in f.predict(Qf, skip_channels=sel)])
                            after("predict", mi)
                        ref = ref_argmax(f, Q, S, off)
                        if preds[0] != preds[1]:
                            ctx.issue("violation", "FusionART.predict:shared-selector:depends-on-skipped-columns",
                                      f"selector {orig} (own channels {S} of {k}), used before with models of "
                                      f"{ks[:mi]} channels: labels {preds} for two valid fillers", rp)
                        elif any(b is not None and a != b for a, b in zip(preds[0], ref)):
                            ctx.issue("violation", "FusionART.predict:shared-selector:not-argmax-of-own-remaining-channels",
                                      f"selector {orig} (own channels {S} of {k}), used before with models of "
                                      f"{ks[:mi]} channels: labels {preds[0]}, arg-max of the remaining channels {ref}", rp)
                        else:
                            cov.hit("shared-selector:predict-ok")
                    elif entry in ("predict_regression", "predict_regression(default)"):
                        dflt = entry.endswith("(default)")
                        with quiet():
                            out = f.predict_regression(Q) if dflt else f.predict_regression(Q, target_channels=sel)
                        if not dflt:
                            after("predict_regression", mi)
                        tn = [k - 1] if dflt else [t + k if t < 0 else t for t in orig]
                        labs = lab_last if dflt else lab
                        exp = [np.array([m["centres"][j][c] for c in labs]) for j in tn]
                        if len(tn) == 1:
                            okr = not isinstance(out, list) and np.array_equal(np.asarray(out), exp[0], equal_nan=True)
                        else:
                            okr = isinstance(out, list) and len(out) == len(exp) and all(
                                np.array_equal(np.asarray(a), b, equal_nan=True) for a, b in zip(out, exp))
                        if not okr:
                            ctx.issue("violation", "FusionART.predict_regression:default-target:!=last-channel-centre" if dflt
                                      else "FusionART.predict_regression:shared-selector:!=own-target-centre",
                                      (f"predict_regression(X) of the {k}-channel model (after models of {ks[:mi]} channels, and the models of earlier cases, were "
                                       f"queried the same way)" if dflt else f"targets {orig} (own channels {tn} of {k}), list used "
                                       f"before with models of {ks[:mi]} channels") +
                                      ": values differ from the target-channel centres of the predicted categories", rp)
                        else:
                            cov.hit("shared-selector:regression-default-ok" if dflt else "shared-selector:regression-ok")
                    elif entry == "join/split":
                        data = [Qc[j] for j in range(k) if j not in S]
                        with quiet():
                            J = f.join_channel_data(data, skip_channels=sel)
                        after("join_channel_data", mi)
                        with quiet():
                            back = f.split_channel_data(J, skip_channels=sel)
                        after("split_channel_data", mi)
                        okj = len(back) == len(data) and all(np.array_equal(a, b) for a, b in zip(back, data))
                        okj = okj and J.shape == Q.shape and all(
                            np.all(J[:, off[j]:off[j + 1]] == 0.5) if j in S else np.array_equal(J[:, off[j]:off[j + 1]], Qc[j])
                            for j in range(k))
                        if not okj:
                            ctx.issue("violation", "FusionART.join/split:shared-selector:not-inverse-on-supplied-channels",
                                      f"selector {orig} (own channels {S} of {k}), used before with models of {ks[:mi]} "
                                      f"channels: split(join(data)) != data or the supplied channels are not at their own columns", rp)
                        else:
                            cov.hit("shared-selector:join-split-ok")
                    else:
                        raw = []
                        for j in range(k):
                            if cls[j] == "ART1":
                                base, lo, sc = gen.binary_rows(r, 3, ds[j], allow_zero=True), 0.0, 1.0
                            else:
                                base = gen.grid_rows(r, 3, ds[j], style="uniform")
                                lo, sc = r.choice([0.0, -2.0, 10.0]), r.choice([1.0, 4.0, 0.5])
                            base[0, :] = 0.0
                            base[1, :] = 1.0
                            raw.append(lo + sc * base)
                        g = make(m["spec"])
                        with quiet():
                            P = g.prepare_data([None if j in S else raw[j] for j in range(k)], skip_channels=sel)
                        after("prepare_data", mi)
                        with quiet():
                            R = g.restore_data(P, skip_channels=sel)
                        after("restore_data", mi)
                        kept = [j for j in range(k) if j not in S]
                        okp = len(R) == len(kept) and all(
                            np.shape(a) == raw[j].shape and np.allclose(a, raw[j], rtol=1e-12, atol=1e-12) for a, j in zip(R, kept))
                        if not okp:
                            ctx.issue("violation", "FusionART.prepare/restore:shared-selector:not-inverse-on-supplied-channels",
                                      f"selector {orig} (own channels {S} of {k}), used before with models of {ks[:mi]} "
                                      f"channels: restored data differ from the supplied channels", dict(rp, raw=raw))
                        else:
                            cov.hit("shared-selector:prepare-restore-ok")
                except Exception as e:
                    if entry.endswith("(default)"):
                        ctx.issue("violation", f"FusionART.predict_regression:default-target:{exc_enum(e)}",
                                  f"predict_regression(X) of the {k}-channel model (after models of {ks[:mi]} channels, and the models of earlier cases, were "
                                  f"queried the same way): raised {e!r}", rp)
                    else:
                        ctx.issue("violation", f"FusionART.{entry}:shared-selector:{exc_enum(e)}",
                                  f"selector {orig} (own channels {S} of {k}), the same list object used before with models "
                                  f"of {ks[:mi]} channels: raised {e!r}", rp)
        if not rewritten:
            cov.hit("shared-selector:caller-list-intact")


# ------------------------------------------------------------------ the subset written as an index CONTAINER other than a list

INT_DTYPES = [np.int64, np.int64, np.intp, np.int32, np.int16, np.int8]


def index_spellings(r, S, k):
    """Spellings of the channel subset S (sorted, of k channels) as index containers a caller naturally holds instead of a
    list: numpy index arrays (np.array of any integer dtype, np.flatnonzero / np.where of a channel mask, np.arange),
    tuples, ranges, sets, lists of numpy integers, dict key views; for a one-element subset also the 0-d array.
    Returns [(kind, factory, iterable)]: factory() builds a FRESH object per call; `iterable` False marks the spellings
    that are not iterable containers (0-d arrays), which a library may reject."""
    out = []
    mixed = spell(r, S, k)                                   # positive / negative mix, shuffled
    pos = list(S)
    neg = [j - k for j in S]
    dt = r.choice(INT_DTYPES)
    out.append((f"ndarray[{np.dtype(dt).name}]", lambda v=pos, dt=dt: np.array(v, dtype=dt), True))
    dt2 = r.choice(INT_DTYPES)
    out.append((f"ndarray[{np.dtype(dt2).name}](mixed-signs)", lambda v=mixed, dt=dt2: np.array(v, dtype=dt), True))
    mask = np.array([j in S for j in range(k)])
    more = [("flatnonzero(mask)", lambda m=mask: np.flatnonzero(m), True),
            ("where(mask)[0]", lambda m=mask: np.where(m)[0], True),
            ("tuple", lambda v=mixed: tuple(v), True),
            ("tuple(positive)", lambda v=pos: tuple(v), True),
            ("list-of-np.int64", lambda v=mixed: [np.int64(t) for t in v], True),
            ("ndarray(negative)", lambda v=neg: np.array(v, dtype=np.int64), True),
            ("set", lambda v=mixed: set(v), True),
            ("frozenset", lambda v=pos: frozenset(v), True),
            ("dict-keys", lambda v=mixed: dict.fromkeys(v).keys(), True),
            ("ndarray[uint8]", lambda v=pos: np.array(v, dtype=np.uint8), True)]
    if S and S == list(range(S[0], S[-1] + 1)):              # a run of channels
        more += [("arange", lambda a=S[0], b=S[-1] + 1: np.arange(a, b), True),
                 ("range", lambda a=S[0], b=S[-1] + 1: range(a, b), True),
                 ("arange(negative)", lambda a=S[0] - k, b=S[-1] + 1 - k: np.arange(a, b), True),
                 ("range(negative)", lambda a=S[0] - k, b=S[-1] + 1 - k: range(a, b), True)]
    if not S:
        more += [("range(0)", lambda: range(0), True), ("arange(0)", lambda: np.arange(0), True)]
    if len(S) == 1:
        more += [("0-d-array", lambda v=r.choice([S[0], S[0] - k]): np.array(v), False)]
    out += r.sample(more, min(len(more), 3))
    return out


def container_spellings(ctx, G):
    """The withheld / target channel subset handed over as an index container other than a list (see index_spellings):
    what np.flatnonzero / np.where / np.arange of a channel mask give, a tuple, a range, a set ...  The property
    quantifies over the SUBSET; its spelling is the caller's business.  For every subset of a trained model's channels and
    several spellings of it, with L = the same indices as a plain list of Python ints in the container's own order:
      * predict(X, skip_channels=spelling) is the same for two valid fillers in the withheld columns, equals
        predict(X, skip_channels=L) and the first arg-max of the gamma-weighted activations of the supplied channels;
      * predict_regression(X, target_channels=spelling) is predict_regression(X, target_channels=L): the target-channel
        centres of that category (an array for one target, a list of arrays for several);
      * join_channel_data / split_channel_data with the spelling are mutually inverse on the supplied channels, put the
        supplied channels at their own columns, and are interchangeable with the list spelling;
      * prepare_data / restore_data likewise.
    A spelling that is an iterable container of integers must be accepted wherever the list is; a spelling that is not
    iterable (0-d array) may be rejected with an exception -- then nothing is checked for it -- but when the call returns,
    it must mean the subset."""
    cov = ctx.cov
    for i in range(G):
        r = gen.rng_for(ctx.seed, "C11-container", i)
        cls, ds, sp, dims, gam = gen_channels(r, 2, 4)
        k = len(cls)
        floats = r.random() < 0.3
        n = limit_n(sp, r.randint(4, 12))
        Xc = channel_data(r, cls, ds, n, floats=floats)
        X = np.hstack(Xc)
        spec = fusion_spec(sp, dims, gam)
        off = np.cumsum([0] + dims)
        rep = {"spec": spec, "classes": cls, "X": X}
        try:
            f = make(spec)
            set_identity_bounds(f, cls, ds)
            with quiet():
                f.fit(X)
        except Exception as e:
            ctx.issue("violation", f"FusionART.fit:{exc_enum(e)}", f"fit raised {e!r}", rep)
            continue
        ncat = len(f.W)
        nq = r.randint(2, 5)
        Qc = [np.vstack([A[[r.randrange(n)]] if r.random() < 0.5 else B[[j]] for j in range(nq)])
              for A, B in zip(Xc, channel_data(r, cls, ds, nq, floats=floats))]
        Q = np.hstack(Qc)
        centres = [m.get_cluster_centers() for m in f.modules]
        raw = []
        for j in range(k):
            if cls[j] == "ART1":
                base, lo, sc = gen.binary_rows(r, 3, ds[j], allow_zero=True), 0.0, 1.0
            else:
                base = gen.grid_rows(r, 3, ds[j], style="uniform")
                lo, sc = r.choice([0.0, -2.0, 10.0]), r.choice([1.0, 4.0, 0.5])
            base[0, :] = 0.0
            base[1, :] = 1.0
            raw.append(lo + sc * base)
        for S in sorted(subsets(k), key=lambda S_: (not 0 < len(S_) < k, len(S_))):   # proper non-empty subsets first
            ref = None
            fill = []
            for t in range(2):
                Qf = Q.copy()
                for j in S:
                    Qf[:, off[j]:off[j + 1]] = ((1.0 if cls[j] == "ART1" else 0.5) if t == 0
                                                else valid_filler(r, cls[j], ds[j], nq, True))
                fill.append(Qf)
            kept = [j for j in range(k) if j not in S]
            data = [Qc[j] for j in kept]
            for kind, mk, iterable in index_spellings(r, S, k):
                L = [int(t) for t in mk()] if iterable else [int(mk())]
                rp = dict(rep, query=Q, own_channels=S, spelling={"kind": kind, "repr": repr(mk()), "as_list": L},
                          fillers=fill)
                what = f"channels {S} of {k} given as {kind} {mk()!r} (as a list: {L})"
                cov.case(("container", tuple(cls), str(sp), tuple(dims), tuple(gam), X.tobytes(), Q.tobytes(), tuple(S), kind,
                          tuple(L)), ncat >= 2 and 0 < len(S) < k)
                ckind = kind.split("[")[0].split("(")[0]
                cov.hit(f"index-container:{ckind}")
                try:
                    if len(S) > 0 and not mk():
                        cov.hit("index-container:non-empty-but-falsy")
                except Exception:
                    cov.hit("index-container:truth-value-undefined")
                rejected = False

                def call(entry, fn):
                    """fn() with the container spelling; returns (ok, value).  An exception is a violation for an iterable
                    container of integers (the list spelling of the same call has just succeeded), a rejection otherwise"""
                    nonlocal rejected
                    try:
                        with quiet():
                            return True, fn()
                    except Exception as e:
                        if iterable:
                            ctx.issue("violation", f"FusionART.{entry}:index-container:{exc_enum(e)}",
                                      f"{entry} with {what}: raised {e!r}; the list spelling is accepted", dict(rp, entry=entry))
                        else:
                            rejected = True
                            cov.hit(f"index-container:{ckind}:rejected-by-{entry}({exc_enum(e)})")
                        return False, None

                # ---- predict
                try:
                    with quiet():
                        y_L = [int(v) for v in f.predict(Q, skip_channels=list(L))]
                        reg_L = f.predict_regression(Q, target_channels=list(L)) if S else None
                except Exception:
                    cov.hit("index-container:list-spelling-raises(case-left-out)")
                    continue
                if ref is None:
                    ref = ref_argmax(f, Q, S, off)
                ok0, p0 = call("predict", lambda: [int(v) for v in f.predict(fill[0], skip_channels=mk())])
                ok1, p1 = call("predict", lambda: [int(v) for v in f.predict(fill[1], skip_channels=mk())]) if ok0 else (False, None)
                if ok0 and ok1:
                    if p0 != p1:
                        ctx.issue("violation", "FusionART.predict:index-container:depends-on-skipped-columns",
                                  f"{what}: labels {p0} / {p1} for two valid fillers in the withheld columns "
                                  f"(skip_channels={L}: {y_L})", rp)
                    elif p0 != y_L:
                        ctx.issue("violation", "FusionART.predict:index-container:!=list-spelling",
                                  f"{what}: labels {p0}, with skip_channels={L}: {y_L}", rp)
                    elif any(b is not None and a != b for a, b in zip(p0, ref)):
                        ctx.issue("violation", "FusionART.predict:index-container:not-argmax-of-remaining-channels",
                                  f"{what}: labels {p0}, arg-max of the supplied channels {ref}", rp)
                    else:
                        cov.hit("index-container:predict-ok")
                # ---- predict_regression
                if S:
                    okr_, out = call("predict_regression", lambda: f.predict_regression(fill[1], target_channels=mk()))
                    if okr_:
                        tn = [t + k if t < 0 else t for t in L]
                        exp = [np.array([centres[j][c] for c in y_L]) for j in tn]
                        if len(tn) == 1:
                            good = (not isinstance(out, list) and not isinstance(reg_L, list)
                                    and np.array_equal(np.asarray(out), np.asarray(reg_L), equal_nan=True)
                                    and np.array_equal(np.asarray(out), exp[0], equal_nan=True))
                        else:
                            good = isinstance(out, list) and isinstance(reg_L, list) and len(out) == len(exp) == len(reg_L) and all(
                                np.array_equal(np.asarray(a), b, equal_nan=True) and np.array_equal(np.asarray(a), np.asarray(c), equal_nan=True)
                                for a, b, c in zip(out, exp, reg_L))
                        if not good:
                            ctx.issue("violation", "FusionART.predict_regression:index-container:!=list-spelling-target-centre",
                                      f"targets: {what}: values differ from predict_regression(X, target_channels={L}) / the "
                                      f"target-channel centres of the categories {y_L}", rp)
                        else:
                            cov.hit("index-container:regression-ok")
                if not data:
                    continue
                # ---- join / split
                try:
                    with quiet():
                        J_L = f.join_channel_data(data, skip_channels=list(L))
                except Exception:
                    cov.hit("index-container:list-spelling-raises(case-left-out)")
                    continue
                okj_, J = call("join_channel_data", lambda: f.join_channel_data(data, skip_channels=mk()))
                if okj_:
                    oks_, back = call("split_channel_data", lambda: f.split_channel_data(J, skip_channels=mk()))
                    oks2_, back_L = call("split_channel_data", lambda: f.split_channel_data(J_L, skip_channels=mk())) if oks_ else (False, None)
                    oks3_, J2 = call("join_channel_data", lambda: f.join_channel_data(
                        f.split_channel_data(Q, skip_channels=mk()), skip_channels=mk())) if oks2_ else (False, None)
                    if oks_ and oks2_ and oks3_:
                        J = np.asarray(J)
                        okj = J.shape == Q.shape and np.array_equal(J, np.asarray(J_L)) and all(
                            np.all(J[:, off[j]:off[j + 1]] == 0.5) if j in S else np.array_equal(J[:, off[j]:off[j + 1]], Qc[j])
                            for j in range(k))
                        okj = okj and all(len(b_) == len(data) and all(np.array_equal(a, b) for a, b in zip(b_, data))
                                          for b_ in (back, back_L))
                        okj = okj and np.array_equal(np.asarray(J2), J)
                        if not okj:
                            ctx.issue("violation", "FusionART.join/split:index-container:not-inverse-on-supplied-channels",
                                      f"{what}: join(data) has shape {J.shape} (query {Q.shape}) / differs from the join with "
                                      f"skip_channels={L} / split(join(data)) returns {len(back)} block(s) for {len(data)} supplied "
                                      f"or other values", rp)
                        else:
                            cov.hit("index-container:join-split-ok")
                # ---- prepare / restore (fresh estimators: prepare_data fixes the column bounds)
                g, g_L = make(spec), make(spec)
                chd = [None if j in S else raw[j] for j in range(k)]
                try:
                    with quiet():
                        P_L = g_L.prepare_data(list(chd), skip_channels=list(L))
                        R_L = g_L.restore_data(P_L, skip_channels=list(L))
                except Exception:
                    cov.hit("index-container:list-spelling-raises(case-left-out)")
                    continue
                okp_, P = call("prepare_data", lambda: g.prepare_data(list(chd), skip_channels=mk()))
                okq_, R = call("restore_data", lambda: g.restore_data(P, skip_channels=mk())) if okp_ else (False, None)
                if okp_ and okq_:
                    okp = np.shape(P) == np.shape(P_L) and np.array_equal(np.asarray(P), np.asarray(P_L), equal_nan=True)
                    okp = okp and len(R) == len(kept) == len(R_L) and all(
                        np.shape(a) == raw[j].shape and np.allclose(a, raw[j], rtol=1e-12, atol=1e-12)
                        and np.array_equal(np.asarray(a), np.asarray(b), equal_nan=True) for a, b, j in zip(R, R_L, kept))
                    if not okp:
                        ctx.issue("violation", "FusionART.prepare/restore:index-container:not-inverse-on-supplied-channels",
                                  f"{what}: prepare_data gives shape {np.shape(P)} (with skip_channels={L}: {np.shape(P_L)}) / "
                                  f"restore_data returns {len(R)} block(s) for {len(kept)} supplied channels or other values",
                                  dict(rp, raw=raw))
                    else:
                        cov.hit("index-container:prepare-restore-ok")
                if rejected:
                    cov.hit("index-container:non-iterable-spelling-rejected(nothing-checked)")


# ------------------------------------------------------------------ inference under a strict floating-point error state

DENSITY_CH = ["GaussianART", "BayesianART"]
FP_MODES = ["errstate-raise", "seterr-raise", "runtimewarning-as-error"]


@contextlib.contextmanager
def strict_fp(mode):
    """numpy's floating-point error handling made loud, the way an application hardens (or debugs) its inference code:
    `with np.errstate(all="raise")`, a process-wide `np.seterr(all="raise")`, or the 'warn' state with RuntimeWarning
    turned into an error (`-W error::RuntimeWarning`).  Everything is restored on exit."""
    with warnings.catch_warnings():
        if mode == "errstate-raise":
            with np.errstate(all="raise"):
                yield
        elif mode == "seterr-raise":
            old = np.seterr(all="raise")
            try:
                yield
            finally:
                np.seterr(**old)
        else:
            warnings.simplefilter("error", RuntimeWarning)
            with np.errstate(all="warn"):
                yield


FP_EVENT = (FloatingPointError, RuntimeWarning, ZeroDivisionError)


def narrow_density_spec(r, c, d):
    """a density-type channel whose categories are narrow (a precise target): far from a category's mean the density
    is below the smallest double"""
    if c == "GaussianART":
        s = r.choice([0.02, 0.01, 2.0 ** -6, 2.0 ** -7, 2.0 ** -9])
        return {"cls": c, "rho": r.choice([0.0, 0.0, 0.25, 0.5]), "sigma_init": [s] * d,
                "alpha": r.choice([1e-10, 2.0 ** -10])}
    s = r.choice([2.0 ** -12, 2.0 ** -14, 1e-4, 2.0 ** -18])
    return {"cls": c, "rho": r.choice([0.0625, 0.5, 2.0]), "cov_init": (np.eye(d) * s).tolist()}


def ref_argmax_strict(f, Q, S, off, mode):
    """ref_argmax evaluated under the floating-point error state `mode`, with the library's own arithmetic on the
    module activations (numpy scalars times gamma, summed left to right).  Returns None when the SUPPLIED channels
    themselves signal a floating-point event there (then an exception from predict says nothing about the withheld
    columns and the case is left out)."""
    gam_ = f.params["gamma_values"]
    ncat = len(f.W)
    out = []
    try:
        with quiet(), strict_fp(mode):
            for q in range(Q.shape[0]):
                T, terms = [], []
                for c in range(ncat):
                    tl = [m.category_choice(Q[q, off[j]:off[j + 1]], m.W[c], m.params)[0] * gam_[j]
                          for j, m in enumerate(f.modules) if j not in S]
                    terms.append([float(t) for t in tl])
                    T.append(float(sum(tl)))
                best = sorted(range(ncat), key=lambda c: (-T[c], c))[0]
                close_ = [c for c in range(ncat) if c != best and abs(T[c] - T[best]) < 1e-9 * (1 + abs(T[best]))
                          and terms[c] != terms[best]]
                out.append(None if close_ or T[best] != T[best] else best)
    except FP_EVENT:
        return None
    return out


def strict_fp_state(ctx, G):
    """Partial-channel inference while numpy's floating-point error handling is strict (see strict_fp).  The model has a
    narrow density-type channel (GaussianART / BayesianART with a small sigma: a regression target, say) which is WITHHELD,
    possibly with other channels; its columns carry several fillers that are valid for it (0.5 = join_channel_data's own
    filler, zeros, ones, uniform random, a training value).  The property is the same as under the default state: every
    filler gives the same category -- the arg-max over the supplied channels -- and predict_regression the target-channel
    centre of it; in particular no filler may make the call raise (nothing of the withheld columns is part of the
    result).  Cases whose SUPPLIED channels signal a floating-point event under the strict state are left out."""
    cov = ctx.cov
    for i in range(G):
        r = gen.rng_for(ctx.seed, "C11-strict-fp", i)
        k = r.randint(2, 4)
        narrow = {k - 1} if r.random() < 0.5 else {r.randrange(k)}
        if k >= 3 and r.random() < 0.25:
            narrow.add(r.randrange(k))
        cls, ds, sp = [], [], []
        for j in range(k):
            d = r.randint(1, 2)
            if j in narrow:
                c = r.choice(DENSITY_CH)
                s_ = narrow_density_spec(r, c, d)
            else:
                c = r.choice(EXACT_CH + ["GaussianART"]) if r.random() < 0.15 else r.choice(EXACT_CH)
                s_ = specs.elem_spec(r, c, specs.width(c, d) if c != "FuzzyART" else d)
            cls.append(c), ds.append(d), sp.append(s_)
        dims = [specs.width(c, d) for c, d in zip(cls, ds)]
        gam = list(r.choice(GAMMAS[k]))
        others = [j for j in range(k) if j not in narrow]
        if not others:
            continue
        S = sorted(narrow | set(r.sample(others, r.randint(0, len(others) - 1)) if r.random() < 0.3 else []))
        floats = r.random() < 0.5
        n = limit_n(sp, r.randint(4, 14))
        Xc = channel_data(r, cls, ds, n, floats=floats)
        X = np.hstack(Xc)
        spec = fusion_spec(sp, dims, gam)
        off = np.cumsum([0] + dims)
        rep = {"spec": spec, "classes": cls, "X": X}
        try:
            f = make(spec)
            set_identity_bounds(f, cls, ds)
            with quiet():
                f.fit(X)                                   # training runs under numpy's default error state
        except Exception:
            cov.hit("strict-fp:fit-raised(case-left-out)")
            continue
        ncat = len(f.W)
        nq = r.randint(2, 5)
        Qc = [np.vstack([A[[r.randrange(n)]] if r.random() < 0.5 else B[[j]] for j in range(nq)])
              for A, B in zip(Xc, channel_data(r, cls, ds, nq, floats=floats))]
        Q = np.hstack(Qc)
        Ssp = spell(r, S, k)
        rep = dict(rep, query=Q, skip=Ssp)
        cov.case(("strict-fp", tuple(cls), str(sp), tuple(dims), tuple(gam), X.tobytes(), Q.tobytes(), tuple(Ssp)), ncat >= 2)
        for j in narrow:
            cov.hit(f"strict-fp:withheld-narrow-{cls[j]}")
        # the fillers: each valid for the withheld modules' validators
        try:
            with quiet():
                J = f.join_channel_data([Qc[j] for j in range(k) if j not in S], skip_channels=list(Ssp))
        except Exception as e:
            ctx.issue("violation", f"FusionART.join_channel_data:{exc_enum(e)}", f"skip {Ssp}: raised {e!r}", rep)
            continue
        if np.asarray(J).shape != Q.shape:
            ctx.issue("violation", "FusionART.join_channel_data:strict-fp:shape",
                      f"skip {Ssp}: joined matrix has shape {np.asarray(J).shape}, the channels' widths {dims} give {Q.shape}", rep)
            continue
        fillers = {}
        for name in ("join-filler", "zeros", "ones", "uniform", "training-value"):
            Qf = Q.copy()
            for j in S:
                w = dims[j]
                if name == "join-filler":
                    blk = J[:, off[j]:off[j + 1]] if cls[j] != "ART1" else np.ones((nq, w))
                elif name == "zeros":
                    blk = np.zeros((nq, w)) if cls[j] != "FuzzyART" else gen.cc(np.zeros((nq, ds[j])))
                elif name == "ones":
                    blk = np.ones((nq, w)) if cls[j] != "FuzzyART" else gen.cc(np.ones((nq, ds[j])))
                elif name == "uniform":
                    blk = valid_filler(r, cls[j], ds[j], nq, True)
                else:
                    blk = Xc[j][[r.randrange(n) for _ in range(nq)]]
                Qf[:, off[j]:off[j + 1]] = blk
            fillers[name] = Qf
        centres = [m.get_cluster_centers() for m in f.modules]
        tn = [t + k if t < 0 else t for t in Ssp]
        for mode in FP_MODES:
            ref = ref_argmax_strict(f, Q, S, off, mode)
            if ref is None:
                cov.hit("strict-fp:supplied-channels-signal-an-event(case-left-out)")
                continue
            cov.hit(f"strict-fp:{mode}")
            entries = ["predict", "predict_regression"] + (["predict_regression(default)"] if S == [k - 1] else [])
            for entry in entries:
                got, raised = {}, {}
                for name, Qf in fillers.items():
                    try:
                        with quiet(), strict_fp(mode):
                            if entry == "predict":
                                o = f.predict(Qf.copy(), skip_channels=list(Ssp))
                            elif entry == "predict_regression":
                                o = f.predict_regression(Qf.copy(), target_channels=list(Ssp))
                            else:
                                o = f.predict_regression(Qf.copy())
                        got[name] = o
                    except Exception as e:
                        raised[name] = e
                tag = entry.split("(")[0]
                rp = dict(rep, fp_state=mode, entry=entry, fillers={a: b for a, b in fillers.items()}, own_channels=S)
                if raised:
                    name, e = next(iter(raised.items()))
                    kind_ = "fp-event" if isinstance(e, FP_EVENT) else exc_enum(e)
                    ctx.issue("violation", f"FusionART.{tag}:strict-fp-state:raises-for-a-filler-in-withheld-columns:{kind_}",
                              f"{entry} with channels {Ssp} withheld under {mode}: fillers {sorted(raised)} raise "
                              f"({name}: {e!r}), fillers {sorted(got)} return; the supplied channels alone signal nothing "
                              f"(arg-max over them: {ref})", dict(rp, raising_fillers=sorted(raised)))
                    continue
                if entry == "predict":
                    labs = {a: [int(v) for v in o] for a, o in got.items()}
                    first = labs["join-filler"]
                    if any(v != first for v in labs.values()):
                        ctx.issue("violation", "FusionART.predict:strict-fp-state:depends-on-skipped-columns",
                                  f"skip {Ssp} under {mode}: labels {labs}", rp)
                    elif any(b is not None and a != b for a, b in zip(first, ref)):
                        ctx.issue("violation", "FusionART.predict:strict-fp-state:not-argmax-of-remaining-channels",
                                  f"skip {Ssp} under {mode}: labels {first}, arg-max of the supplied channels {ref}", rp)
                    else:
                        cov.hit("strict-fp:predict-filler-independent-argmax-ok")
                else:
                    tgt = [k - 1] if entry.endswith("(default)") else tn
                    rows = [q for q in range(nq) if ref[q] is not None]
                    bad = None
                    for a, o in got.items():
                        outs_ = [o] if len(tgt) == 1 and not isinstance(o, list) else o
                        okr = isinstance(outs_, list) and len(outs_) == len(tgt) and all(
                            np.shape(u)[0] == nq and all(np.array_equal(np.asarray(u[q]), centres[j][ref[q]], equal_nan=True)
                                                         for q in rows) for u, j in zip(outs_, tgt))
                        if len(tgt) > 1 and not isinstance(o, list):
                            okr = False
                        if not okr:
                            bad = a
                            break
                    if bad is not None:
                        ctx.issue("violation", "FusionART.predict_regression:strict-fp-state:!=target-centre",
                                  f"{entry} targets {Ssp} under {mode}, filler {bad}: values differ from the target-channel "
                                  f"centres of the arg-max over the supplied channels {ref}", rp)
                    else:
                        cov.hit("strict-fp:regression-centre-ok" + ("(default-target)" if entry.endswith("(default)") else ""))


# ------------------------------------------------------------------ channel weights edited between two predictions

WARMUPS = ["predict", "predict(skip)", "predict_regression", "read-W", "none"]
EDIT_KINDS = ["module.shrink_clusters", "module.W[j]=", "module.W[a],W[b]=swap", "module.set_weight", "module.W=list",
              "fusion.set_weight"]


def fused_ref(f):
    """the concatenation of the channel modules' weights, category by category"""
    return [np.concatenate([np.asarray(m.W[c], dtype=float) for m in f.modules]) for c in range(f.modules[0].n_clusters)]


def fresh_weight(r, m, c, x_rows, W_now):
    """a weight that is valid for module `m` (class `c`) and differs from its weights now where possible: the weight a
    module of this class creates for a data row (its public new_weight) or the row learned into an existing weight
    (its public update); None when neither gives a finite vector of the right length"""
    for _ in range(4):
        x = np.array(x_rows[r.randrange(len(x_rows))], dtype=float)
        try:
            with quiet():
                w = m.new_weight(x, m.params) if r.random() < 0.6 else m.update(x, np.array(W_now[r.randrange(len(W_now))]), m.params)
            w = np.asarray(w, dtype=float)
        except Exception:
            continue
        if w.shape != np.shape(W_now[0]) or not np.all(np.isfinite(w)):
            continue
        try:        # the module itself must be able to evaluate it (e.g. not the all-zero FuzzyART weight with alpha = 0)
            with quiet():
                acts = [float(m.category_choice(np.array(x_, dtype=float), w, m.params)[0]) for x_ in x_rows]
        except Exception:
            continue
        if all(a == a and abs(a) != float("inf") for a in acts):
            return w
    return None


def out_of_band_edits(ctx, G):
    """A trained FusionART is used for prediction (so that anything the estimator might remember about its weights has
    been computed), then the weights of one of its channel modules are changed through the module's own public API,
    behind the host's back -- `modules[k].shrink_clusters(ratio)`, `modules[k].W[j] = w`, two categories' weights of one
    channel exchanged, `modules[k].set_weight(j, w)`, `modules[k].W = [...]` -- or through the host's `set_weight`; the
    category count never changes and every new weight is one the module's class produces itself (new_weight / update of a
    valid row, or another category's weight).  Then partial-channel inference again, several such rounds on one model.
    The property speaks about the model as it is NOW: `model.W` is the concatenation of the channel weights, every valid
    filler gives the first arg-max of the gamma-weighted activations of the supplied channels under the CURRENT channel
    weights, and predict_regression the CURRENT target-channel centre of that category."""
    cov = ctx.cov
    for i in range(G):
        r = gen.rng_for(ctx.seed, "C11-oob", i)
        cls, ds, sp, dims, gam = gen_channels(r, 2, 4)
        k = len(cls)
        floats = r.random() < 0.4
        n = limit_n(sp, r.randint(4, 14))
        Xc = channel_data(r, cls, ds, n, floats=floats)
        X = np.hstack(Xc)
        spec = fusion_spec(sp, dims, gam)
        off = np.cumsum([0] + dims)
        rep = {"spec": spec, "classes": cls, "X": X}
        try:
            f = make(spec)
            set_identity_bounds(f, cls, ds)
            with quiet():
                f.fit(X)
        except Exception as e:
            ctx.issue("violation", f"FusionART.fit:{exc_enum(e)}", f"fit raised {e!r}", rep)
            continue
        ncat = len(f.W)
        nq = r.randint(3, 7)
        Qc = [np.vstack([A[[r.randrange(n)]] if r.random() < 0.6 else B[[j]] for j in range(nq)])
              for A, B in zip(Xc, channel_data(r, cls, ds, nq, floats=floats))]
        Q = np.hstack(Qc)
        warm = r.choice(WARMUPS)
        S0 = sorted(r.sample(range(k), r.randint(1, k - 1)))
        rep = dict(rep, query=Q, warm_up=warm, warm_up_skip=S0, edits=[])
        cov.case(("oob", tuple(cls), str(sp), tuple(dims), tuple(gam), X.tobytes(), Q.tobytes(), warm), ncat >= 2)
        try:
            with quiet():
                if warm == "predict":
                    f.predict(Q)
                elif warm == "predict(skip)":
                    f.predict(Q, skip_channels=list(S0))
                elif warm == "predict_regression":
                    f.predict_regression(Q, target_channels=list(S0))
                elif warm == "read-W":
                    f.W
        except Exception as e:
            ctx.issue("violation", f"FusionART.predict:skip:{exc_enum(e)}", f"warm-up {warm} (skip {S0}) raised {e!r}", rep)
            continue
        cov.hit(f"edit-between-predictions:warm-up={warm}")
        edits = []
        for rnd in range(r.randint(1, 3)):
            S = sorted(r.sample(range(k), r.randint(1, k - 1)))
            Ssp = spell(r, S, k)
            supplied = [j for j in range(k) if j not in S]
            kk = r.choice(supplied) if r.random() < 0.8 else r.randrange(k)     # mostly a channel the answer depends on
            m = f.modules[kk]
            kind = r.choice(EDIT_KINDS)
            if kind == "module.shrink_clusters" and cls[kk] != "FuzzyART":
                fz = [j for j in supplied if cls[j] == "FuzzyART"] or [j for j in range(k) if cls[j] == "FuzzyART"]
                if fz:
                    kk = r.choice(fz)
                    m = f.modules[kk]
                elif r.random() < 0.7:
                    kind = r.choice(EDIT_KINDS[1:])     # a no-op for the other classes: kept now and then
            if kind == "module.W[a],W[b]=swap" and ncat < 2:
                kind = "module.W[j]="
            W_before = [np.array(w, dtype=float) for w in m.W]
            ed = {"round": rnd, "kind": kind, "channel": kk}
            try:
                with quiet():
                    if kind == "module.shrink_clusters":
                        ed["ratio"] = r.choice([0.1, 0.25, 0.45, 0.5])
                        m.shrink_clusters(ed["ratio"])
                    elif kind == "module.W[a],W[b]=swap":
                        a, b = r.sample(range(ncat), 2)
                        ed["a"], ed["b"] = a, b
                        m.W[a], m.W[b] = m.W[b], m.W[a]
                    elif kind == "module.W=list":
                        perm = list(range(ncat))
                        r.shuffle(perm)
                        new = [np.array(W_before[p]) for p in perm]
                        w = fresh_weight(r, m, cls[kk], list(Xc[kk]) + list(Qc[kk]), W_before)
                        if w is not None:
                            new[r.randrange(ncat)] = w
                        ed["W"] = [v.tolist() for v in new]
                        m.W = new
                    elif kind == "fusion.set_weight":
                        j = r.randrange(ncat)
                        parts = []
                        for t, mt in enumerate(f.modules):
                            wt = fresh_weight(r, mt, cls[t], list(Xc[t]) + list(Qc[t]), [np.array(v, dtype=float) for v in mt.W]) \
                                if (t == kk or r.random() < 0.3) else None
                            parts.append(np.array(mt.W[j], dtype=float) if wt is None else wt)
                        ed["j"], ed["w"] = j, np.concatenate(parts).tolist()
                        f.set_weight(j, np.concatenate(parts))
                    else:
                        j = r.randrange(ncat)
                        w = fresh_weight(r, m, cls[kk], list(Xc[kk]) + list(Qc[kk]), W_before)
                        if w is None or (ncat >= 2 and r.random() < 0.3):
                            w = np.array(W_before[r.choice([c for c in range(ncat) if c != j] or [j])])
                        ed["j"], ed["w"] = j, w.tolist()
                        if kind == "module.W[j]=":
                            m.W[j] = w
                        else:
                            m.set_weight(j, w)
            except Exception as e:      # the library may refuse an edit; the clauses below then speak about the weights as they are
                ed["raised"] = repr(e)
                cov.hit(f"edit-between-predictions:{kind}:refused({exc_enum(e)})")
            edits.append(ed)
            rp = dict(rep, edits=list(edits), skip=Ssp, own_channels=S)
            changed = len(m.W) != len(W_before) or any(not np.array_equal(np.asarray(a, dtype=float), b) for a, b in zip(m.W, W_before))
            if any(len(mt.W) != ncat for mt in f.modules):
                cov.hit("edit-between-predictions:category-counts-differ(case-left-out)")
                break
            cov.hit(f"edit-between-predictions:{kind}:" + ("weights-changed" if changed else "no-change"))
            cov.hit("edit-between-predictions:edited-channel-" + ("supplied" if kk not in S else "withheld"))
            # ---- model.W is the concatenation of the channel weights
            try:
                with quiet():
                    Wf = [np.asarray(w, dtype=float) for w in f.W]
                Wr = fused_ref(f)
                if len(Wf) != len(Wr) or any(not np.array_equal(a, b) for a, b in zip(Wf, Wr)):
                    c_ = next((c for c in range(min(len(Wf), len(Wr))) if not np.array_equal(Wf[c], Wr[c])), None)
                    ctx.issue("violation", "FusionART.W:after-channel-weight-edit:!=concatenation-of-channel-weights",
                              f"after {kind} on channel {kk} (warm-up {warm}): model.W has {len(Wf)} rows, the channel modules "
                              f"{len(Wr)}; first differing category {c_}: model.W {None if c_ is None else Wf[c_].tolist()}, "
                              f"concatenated channel weights {None if c_ is None else Wr[c_].tolist()}", rp)
                else:
                    cov.hit("edit-between-predictions:W=concatenation-ok")
            except Exception as e:
                ctx.issue("violation", f"FusionART.W:after-channel-weight-edit:{exc_enum(e)}",
                          f"after {kind} on channel {kk}: reading model.W raised {e!r}", rp)
            # ---- partial-channel predict = arg-max over the CURRENT channel weights, whatever the filler
            try:
                ref = ref_argmax(f, Q, S, off)
            except Exception as e:     # a channel module cannot evaluate its own weights: nothing to compare with
                cov.hit(f"edit-between-predictions:module-activation-raises({exc_enum(e)})(case-left-out)")
                break
            preds = []
            try:
                for t in range(2):
                    Qf = Q.copy()
                    for j in S:
                        Qf[:, off[j]:off[j + 1]] = ((1.0 if cls[j] == "ART1" else 0.5) if t == 0
                                                    else valid_filler(r, cls[j], ds[j], nq, True))
                    with quiet():
                        preds.append([int(v) for v in f.predict(Qf, skip_channels=list(Ssp))])
            except Exception as e:
                ctx.issue("violation", f"FusionART.predict:after-channel-weight-edit:{exc_enum(e)}",
                          f"after {kind} on channel {kk}: predict with skip {Ssp} raised {e!r}", rp)
                break
            if preds[0] != preds[1]:
                ctx.issue("violation", "FusionART.predict:after-channel-weight-edit:depends-on-skipped-columns",
                          f"after {kind} on channel {kk}, skip {Ssp}: labels {preds} for two valid fillers", rp)
            elif any(b is not None and a != b for a, b in zip(preds[0], ref)):
                ctx.issue("violation", "FusionART.predict:after-channel-weight-edit:not-argmax-over-current-weights",
                          f"after {kind} on channel {kk} (warm-up {warm}), skip {Ssp}: labels {preds[0]}, arg-max of the "
                          f"supplied channels under the channel modules' current weights {ref}", rp)
            else:
                cov.hit("edit-between-predictions:predict-argmax-over-current-weights-ok")
            # ---- predict_regression = the CURRENT target-channel centre of that category
            tn = [t + k if t < 0 else t for t in Ssp]
            try:
                with quiet():
                    out = f.predict_regression(Q, target_channels=list(Ssp))
                    centres = [mt.get_cluster_centers() for mt in f.modules]
            except Exception as e:
                ctx.issue("violation", f"FusionART.predict_regression:after-channel-weight-edit:{exc_enum(e)}",
                          f"after {kind} on channel {kk}: predict_regression with targets {Ssp} raised {e!r}", rp)
                break
            rows = [q for q in range(nq) if ref[q] is not None]
            outs_ = [out] if len(tn) == 1 and not isinstance(out, list) else out
            okr = isinstance(outs_, list) and len(outs_) == len(tn) and (len(tn) == 1 or isinstance(out, list)) and all(
                np.shape(u)[0] == nq and all(np.array_equal(np.asarray(u[q]), centres[j][ref[q]], equal_nan=True) for q in rows)
                for u, j in zip(outs_, tn))
            if not okr:
                ctx.issue("violation", "FusionART.predict_regression:after-channel-weight-edit:!=current-target-centre",
                          f"after {kind} on channel {kk} (warm-up {warm}), targets {Ssp}: values differ from the target "
                          f"channels' current centres of the arg-max categories {ref}", rp)
            else:
                cov.hit("edit-between-predictions:regression-current-centre-ok")


def run(ctx):
    cov = ctx.cov
    ctx.assumptions += [
        "fillers for skipped columns are valid for the skipped module's validate_data (predict validates all columns)",
        "float rounding of the gamma-weighted sum is not modelled: rows whose two best remaining-channel activations "
        "differ by < 1e-9 without being term-wise identical are excluded from the arg-max comparison",
        "column bounds of the modules are the identity for the centre / regression clauses",
        "strict floating-point error state (np.errstate / np.seterr 'raise', RuntimeWarning as error): training runs under "
        "numpy's default state; a case whose SUPPLIED channels signal a floating-point event under the strict state is left out",
        "channel weights edited between predictions: the category count is unchanged and every new weight is one the module's "
        "class produces itself (new_weight / update of a valid row, another category's weight, shrink_clusters) and can "
        "evaluate (finite category_choice); an edit the library refuses leaves the clauses to the weights as they are",
        "index containers other than a list: a re-iterable container of integers (ndarray, tuple, range, set, dict keys) names "
        "the subset of its elements and must be accepted wherever the list of the same integers is; a spelling that is not "
        "iterable (0-d array) may be rejected with an exception (then nothing is checked for it)",
    ]
    N = ctx.scale(300, 3000)
    nmax = ctx.scale(12, 40)
    lines, metas = [], []
    for i in range(N):
        r = gen.rng_for(ctx.seed, "C11", i)
        cls, ds, sp, dims, gam = gen_channels(r, 1, 4)
        k = len(cls)
        floats = r.random() < 0.3
        n = limit_n(sp, r.randint(2, nmax))
        Xc = channel_data(r, cls, ds, n, floats=floats)
        X = np.hstack(Xc)
        spec = fusion_spec(sp, dims, gam)
        off = np.cumsum([0] + dims)
        rep = {"spec": spec, "classes": cls, "X": X}
        try:
            f = make(spec)
            log = ActLog(f)
            set_identity_bounds(f, cls, ds)
            with quiet():
                f.fit(X)
        except Exception as e:
            ctx.issue("violation", f"FusionART.fit:{exc_enum(e)}", f"fit raised {e!r}", rep)
            continue
        ncat = len(f.W)
        nq = r.randint(1, 6)
        Qc = [np.vstack([A[[r.randrange(n)]] if r.random() < 0.5 else B[[j]] for j in range(nq)])
              for A, B in zip(Xc, channel_data(r, cls, ds, nq, floats=floats))]
        Q = np.hstack(Qc)
        gam_ = f.params["gamma_values"]
        hist_calls = []
        for S in subsets(k):
            Ssp = spell(r, S, k)
            key = (cls, sp, dims, gam, X.tolist(), Q.tolist(), Ssp)
            rp = dict(rep, query=Q, skip=Ssp)
            cov.case(key, ncat >= 2 and 0 < len(S) < k)
            cov.hit(f"skip-size={len(S)}/{k}")
            if any(t < 0 for t in Ssp):
                cov.hit("negative-index")
            # ---- several fillers in the skipped columns
            preds = []
            try:
                for t in range(3):
                    Qf = Q.copy()
                    for j in S:
                        Qf[:, off[j]:off[j + 1]] = ((1.0 if cls[j] == "ART1" else 0.5) if t == 0
                                                    else valid_filler(r, cls[j], ds[j], nq, floats or t == 2))
                    with quiet():
                        preds.append([int(v) for v in f.predict(Qf, skip_channels=list(Ssp))])
                with quiet():
                    p_pos = [int(v) for v in f.predict(Q, skip_channels=list(S))]
            except Exception as e:
                ctx.issue("violation", f"FusionART.predict:skip:{exc_enum(e)}", f"predict raised {e!r} with skip {Ssp}", rp)
                continue
            if any(p != preds[0] for p in preds[1:]):
                ctx.issue("violation", "FusionART.predict:depends-on-skipped-columns",
                          f"skip {Ssp}: labels {preds} for different valid fillers", rp)
                continue
            if p_pos != preds[0]:
                ctx.issue("violation", "FusionART.predict:negative-skip-index-not-normalised",
                          f"skip {Ssp} gives {preds[0]}, skip {S} gives {p_pos}", rp)
                continue
            cov.hit("filler-independent")
            # ---- arg-max of the remaining channels, recomputed from the modules
            ambiguous = False
            for q in range(nq):
                T, terms = [], []
                with quiet():
                    for c in range(ncat):
                        tl = [float(m.category_choice(Q[q, off[j]:off[j + 1]], m.W[c], m.params)[0]) * gam_[j]
                              for j, m in enumerate(f.modules) if j not in S]
                        terms.append(tl)
                        T.append(sum(tl))
                order = sorted(range(ncat), key=lambda c: (-T[c], c))
                best = order[0]
                close_ = [c for c in range(ncat) if c != best and abs(T[c] - T[best]) < 1e-9 * (1 + abs(T[best]))
                          and terms[c] != terms[best]]
                if close_:
                    ambiguous = True
                    cov.hit("argmax-float-ambiguous(skipped)")
                    continue
                if preds[0][q] != best:
                    ctx.issue("violation", "FusionART.predict:skip:not-argmax-of-remaining-channels",
                              f"skip {Ssp} row {q}: predicted {preds[0][q]}, remaining-channel activations {T}", rp)
                    break
                cov.hit("argmax-of-rest")
                if len(set(T)) < len(T):
                    cov.hit("tie-in-remaining-activation")
            # ---- tie: model prediction with this spelling (exact classes, grid data)
            if not floats and not ambiguous and log.min_gap >= 1e-9 and not ambiguous_rows(f, Q, S):
                hist_calls.append((Ssp, preds[0]))
            # ---- predict_regression with these targets
            if S:
                centres = [m.get_cluster_centers() for m in f.modules]
                try:
                    with quiet():
                        out = f.predict_regression(Q, target_channels=list(Ssp))
                    err = None
                except Exception as e:
                    out, err = None, e
                tn = [t + k if t < 0 else t for t in Ssp]
                exp = [np.array([centres[j][c] for c in preds[0]]) for j in tn]
                if len(tn) == 1:
                    okr = err is None and not isinstance(out, list) and np.array_equal(np.asarray(out), exp[0], equal_nan=True)
                else:
                    okr = err is None and isinstance(out, list) and len(out) == len(exp) and all(
                        np.array_equal(np.asarray(a), b, equal_nan=True) for a, b in zip(out, exp))
                if not okr:
                    multi_defect = len(tn) > 1 and tn != list(range(len(tn)))
                    ctx.issue("violation", SIG_REGR if multi_defect else "FusionART.predict_regression:!=target-centre",
                              f"targets {Ssp}: " + (f"raised {err!r}" if err is not None else "values differ from the "
                              "target-channel centres of the predicted categories"), rp)
                else:
                    cov.hit("regression-single" if len(tn) == 1 else "regression-multi-ok")
                    if len(tn) > 1 and tn != list(range(len(tn))):
                        cov.hit("regression-multi-targets-not-at-own-position-ok")
                if not floats and not ambiguous_rows(f, Q, S):
                    W = [np.asarray(w, dtype=float) for w in f.W]
                    lines.append(f"fusion regr {chans_str(cls, sp, dims, gam)} {ints_str(Ssp)} {mat_q(W)} {mat_q(Q)}")
                    metas.append(("regr", i, (out, err, len(tn)), dict(rp, W=W)))
            # ---- join / split
            data = [Qc[j] for j in range(k) if j not in S]
            if data:
                with quiet():
                    J = f.join_channel_data(data, skip_channels=list(Ssp))
                    back = f.split_channel_data(J, skip_channels=list(Ssp))
                    J2 = f.join_channel_data(f.split_channel_data(Q, skip_channels=list(Ssp)), skip_channels=list(Ssp))
                okj = len(back) == len(data) and all(np.array_equal(a, b) for a, b in zip(back, data))
                okj = okj and J.shape == Q.shape and all(
                    np.all(J[:, off[j]:off[j + 1]] == 0.5) if j in S else np.array_equal(J[:, off[j]:off[j + 1]], Qc[j])
                    for j in range(k))
                okj = okj and np.array_equal(J2, J)
                if not okj:
                    ctx.issue("violation", "FusionART.join/split:not-inverse-on-supplied-channels",
                              f"skip {Ssp}: split(join(data)) != data or join(split(X)) differs from X on supplied channels", rp)
                else:
                    cov.hit("join-split-roundtrip")
                # the supplied arrays need not share a dtype (a one-hot / flag block of ints or bools, a float32 block
                # next to float64 readings): the values of every supplied channel must come back unchanged
                if len(data) >= 2 and i % 2 == 0:
                    dt0 = r.choice([np.float32, np.int64, bool, np.int8])
                    first = data[0]
                    as0 = (np.round(first) if dt0 is not np.float32 else first).astype(dt0)
                    mixed = [as0] + [np.asarray(d_, dtype=np.float64) for d_ in data[1:]]
                    try:
                        with quiet():
                            Jm = f.join_channel_data(mixed, skip_channels=list(Ssp))
                            bm = f.split_channel_data(Jm, skip_channels=list(Ssp))
                        okm = len(bm) == len(mixed) and all(
                            np.array_equal(np.asarray(a, dtype=np.float64), np.asarray(b, dtype=np.float64)) for a, b in zip(bm, mixed))
                        okm = okm and all(np.all(np.asarray(Jm)[:, off[j]:off[j + 1]] == 0.5) for j in S)
                        if not okm:
                            ctx.issue("violation", "FusionART.join/split:mixed-dtypes:values-changed",
                                      f"skip {Ssp}: first supplied channel of dtype {np.dtype(dt0).name}, the others float64: split(join(data)) "
                                      f"does not return the supplied values (or the filler is not 0.5); joined dtype {np.asarray(Jm).dtype}",
                                      dict(rp, first_channel_dtype=np.dtype(dt0).name))
                        else:
                            cov.hit(f"join-split-mixed-dtypes:{np.dtype(dt0).name}")
                    except Exception as e:
                        ctx.issue("violation", f"FusionART.join/split:mixed-dtypes:{exc_enum(e)}",
                                  f"skip {Ssp}: first supplied channel of dtype {np.dtype(dt0).name}: raised {e!r}", rp)
                if not floats and i % 3 == 0:
                    lines.append(f"fusion joinsplit {ints_str(dims)} {ints_str(Ssp)} {mat_q([d_[0] for d_ in data])} {vec_q(Q[0])}")
                    metas.append(("js", i, (J[0], [b[0] for b in f.split_channel_data(Q, skip_channels=list(Ssp))]), rp))
            # ---- tie: restore_data on a prepared row (this estimator has identity bounds)
            if data and not floats:
                try:
                    with quiet():
                        R0 = f.restore_data(Q[:1], skip_channels=list(Ssp))
                    lines.append(f"fusion restore {chans_str(cls, sp, dims, gam)} {ints_str(Ssp)} {vec_q(Q[0])}")
                    metas.append(("restore", i, [np.asarray(a, dtype=float)[0] for a in R0], rp))
                except Exception as e:
                    ctx.issue("violation", SIG_RESTORE if not (all(j in S for j in range(min(S), k)) if S else True)
                              else f"FusionART.restore_data:{exc_enum(e)}", f"skip {Ssp}: raised {e!r}", rp)
            # ---- prepare / restore on raw data (fresh estimator: prepare_data fixes the column bounds)
            if data and r.random() < 0.5:
                lo = [r.choice([0.0, -2.0, 1.0, 10.0]) for _ in range(k)]
                sc = [r.choice([1.0, 4.0, 0.5]) for _ in range(k)]
                raw = []
                for j in range(k):
                    if cls[j] == "ART1":      # binary data; its normalisation is the identity
                        base = gen.binary_rows(r, max(3, nq), ds[j], allow_zero=True)
                        lo[j], sc[j] = 0.0, 1.0
                    else:
                        base = gen.grid_rows(r, max(3, nq), ds[j], style="uniform")
                    base[0, :] = 0.0
                    base[1, :] = 1.0
                    raw.append(lo[j] + sc[j] * base)
                g = make(spec)
                try:
                    with quiet():
                        P = g.prepare_data([None if j in S else raw[j] for j in range(k)], skip_channels=list(Ssp))
                        if all(cls[j] != "ART1" for j in S):   # the 0.5 filler is not binary: see the final report
                            g.validate_data(P)
                        else:
                            cov.hit("join-filler-invalid-for-skipped-ART1(observed)")
                        R = g.restore_data(P, skip_channels=list(Ssp))
                    okp = len(R) == k - len(S) and all(
                        np.allclose(a, raw[j], rtol=1e-12, atol=1e-12) for a, j in zip(R, [j for j in range(k) if j not in S]))
                    errp = None
                except Exception as e:
                    okp, errp = False, e
                suffix = all(j in S for j in range(min(S), k)) if S else True
                if not okp:
                    ctx.issue("violation", SIG_RESTORE if not suffix else
                              "FusionART.prepare/restore:not-inverse-on-supplied-channels",
                              f"skip {Ssp}: " + (f"raised {errp!r}" if errp is not None else "restored data differ"),
                              dict(rp, raw=raw))
                else:
                    cov.hit("prepare-restore-roundtrip" + ("-with-skip" if S else ""))
                    if not suffix:
                        cov.hit("prepare-restore-roundtrip-skip-not-suffix-ok")
        if hist_calls:
            hdr = f"fusion hist MT+ 0 - {chans_str(cls, sp, dims, gam)} # fit {mat_q(X)}"
            cs = " # ".join(f"pred {mat_q(Q)} {ints_str(Ssp)}" for Ssp, _ in hist_calls)
            lines.append(hdr + " # " + cs)
            metas.append(("hist", i, hist_calls, dict(rep, query=Q)))
        if i < 2:
            cov.sample({"classes": cls, "dims": dims, "gamma": gam, "ncat": ncat, "query_rows": nq})
    shared_selectors(ctx, ctx.scale(60, 600))
    container_spellings(ctx, ctx.scale(30, 300))
    strict_fp_state(ctx, ctx.scale(60, 600))
    out_of_band_edits(ctx, ctx.scale(300, 3000))
    outs = run_driver(lines)
    for line, out, (kind, i, exp, rp) in zip(lines, outs, metas):
        rp = dict(rp, line=line, model=out)
        if out == "bad-op":
            ctx.issue("diff", f"fusion-{kind}:protocol", f"case {i}: bad-op", rp)
            continue
        if kind == "hist":
            got = out.split(" # ")[1:]
            if len(got) != len(exp):
                ctx.issue("diff", "fusion-hist:protocol", f"case {i}: {out[:80]}", rp)
                continue
            for g, (Ssp, p) in zip(got, exp):
                mp = parse_optnats(g[len("pred="):])
                if mp != p:
                    ctx.issue("diff", "fusion-hist:predict-skip", f"case {i} skip {Ssp}: impl {p} model {mp}", rp)
                    break
                cov.hit("model-pred-skip-ok")
            cov.traces += 1
        elif kind == "regr":
            o, err, nt = exp
            body = out[len("regr="):]
            rows = body.split("|")
            if err is not None:
                if not (isinstance(err, IndexError) and all(t == "err" for t in rows)):
                    ctx.issue("diff", "fusion-regr:error", f"case {i}: impl raised {err!r}, model {body[:80]}", rp)
                else:
                    cov.hit("model-regr-indexerror-ok")
                    cov.traces += 1
                continue
            if any(t == "err" for t in rows):
                ctx.issue("diff", "fusion-regr:error", f"case {i}: impl returned values, model {body[:80]}", rp)
                continue
            mo = [[parse_vec_q(v) for v in t.split(";")] for t in rows]       # row -> target -> vector
            io = [np.asarray(o)] if nt == 1 else [np.asarray(a) for a in o]  # target -> row -> vector
            good = all(len(mo[q]) == len(io) and all(
                len(mo[q][t]) == len(io[t][q]) and all(close(float(a), b) for a, b in zip(io[t][q], mo[q][t]))
                for t in range(len(io))) for q in range(len(mo)))
            if not good:
                ctx.issue("diff", "fusion-regr:values", f"case {i}: impl {[a.tolist() for a in io]} model {body[:120]}", rp)
            else:
                cov.hit("model-regr-ok")
                cov.traces += 1
        elif kind == "restore":
            body = out[len("restore="):]
            mm = None if body == "err" else parse_mat_q(body)
            if mm is None or len(mm) != len(exp) or any(
                    len(a) != len(b) or not all(close(float(u), v) for u, v in zip(a, b)) for a, b in zip(exp, mm)):
                ctx.issue("diff", "fusion-restore", f"case {i}: impl {[list(a) for a in exp]} model {body[:120]}", rp)
            else:
                cov.hit("model-restore-ok")
                cov.traces += 1
        else:
            J0, sp0 = exp
            kv = parse_kv(out)
            mj = parse_vec_q(kv["join"]) if kv["join"] != "err" else None
            ms = parse_mat_q(kv["split"])
            if mj is None or len(mj) != len(J0) or any(Fraction(float(a)) != b for a, b in zip(J0, mj)) or \
                    len(ms) != len(sp0) or any([Fraction(float(a)) for a in u] != v for u, v in zip(sp0, ms)):
                ctx.issue("diff", "fusion-joinsplit", f"case {i}: impl join {list(J0)} split {[list(u) for u in sp0]} model {out[:120]}", rp)
            else:
                cov.hit("model-joinsplit-ok")
                cov.traces += 1
