"""Whole-call translator: `BaseART.fit`, `partial_fit` and `predict` (artlib/common/BaseART.py) **as executed on a
`DualVigilanceART` and on a `TopoART` receiver**  ->  Lean 4 definitions in `lean/ArtGen/Whole.lean` (namespaces
`Art.Gen.DualFit`, `Art.Gen.TopoFit`).

The two wrappers inherit the training / prediction loops from BaseART but override what the loops reach through
`self.`: `step_fit`, `step_pred`, (TopoART) `post_step_fit`, and the attributes `W`, `labels_`,
`weight_sample_counter_` (properties that delegate to `base_module`).  The sibling slices translated those methods
(`dtrans` -> ArtGen/Dual.lean, `ttrans` -> ArtGen/Topo.lean, `ttrans2` -> ArtGen/TopoStep.lean); this module
re-translates the *inherited loop bodies* for each receiver — every `self.<name>` is resolved the way Python resolves
it on an instance of the receiver class (the class itself first, then BaseART) — and emits calls of the definitions
those slices generate.  `lean/ArtGenProofs/WholeSpec.lean` composes their proofs into
`generated fit / partial_fit / predict = dualFit / dualPartialFit / dualPredict, topoFit / topoPartialFit / topoPredict`.

It is a further *profile* of the control-flow translator `ctrans.py` (which is not edited): while `generate` runs the
profile tables of ctrans and its two dispatchers `ext` / `tr_block` are swapped for wrappers that try the rules below
first and otherwise call the original; everything is restored in a `finally`.

The translation is syntax-directed.  Rules inherited from ctrans (see its docstring and DESIGN §12.1):
  x = e ; self.a = e ; self.a = [] ; v[i] = e ; self.<nested>.<field> = e ; self.<nested>.<field>[i] = e     ->  let …
  if / else (join of the re-bound variables) ; return e / return self ; len(e) ; e.shape[0] ; i + j ; not e ;
  enumerate(X) -> List.zipIdx ; range(n) -> List.range ; tqdm(it, …) -> it ; hasattr(self, "W") -> the flag self_hasW ;
  self.m(args) with m a hook NOT overridden by the receiver (pre_step_fit / post_step_fit / post_fit on a
      DualVigilanceART): the translated body of BaseART.m, inlined ;
  guard calls, `is_fitted_`, `from tqdm import tqdm`, docstrings: dropped (see DROPPED).
Rules of this module:
  self.a        (load, store, subscript store)  where the receiver class defines a *property* `a` whose getter is
                exactly `return self.<nested>.<f>` and whose setter is exactly `self.<nested>.<f> = <parameter>`
                                                ->  the same construct on `self.<nested>.<f>` (property inlining;
                                                    DualVigilanceART: W, labels_, weight_sample_counter_ -> the
                                                    record field `self_base.W / .labels / .cnt`; TopoART: W -> the
                                                    state variable `self_W`, which holds base_module.W)
                any other property of the receiver reached by the loop bodies                ->  Unsupported
  hasattr(self, "a")   (a such a property)      ->  hasattr(self.<nested>, "f")  ->  `self_base.hasW` / `self_hasW`
  c = self.m(args) / self.m(args)   where the table CALLS of the receiver names the generated definition of m:
                the class that defines m for the receiver (method lookup: receiver class, then BaseART) must be the
                one the table expects — otherwise Unsupported;  arguments follow the callee's own signature as
                read from its source (keywords resolved, no defaults substituted, callbacks passed through)
       no view:    let r_ := <generated m> E [fuel] ⟨self attributes⟩ args ; re-bind every attribute from r_.1 ; let c := r_.2
       view V:     let r_ := <generated m> E.toTopoExt|E [fuel] (Art.ImpWhole.TopoSelf.toV ⟨self attributes⟩) args
                   let self_ := Art.ImpWhole.TopoSelf.ofV ⟨self attributes⟩ r_.1 ; re-bind every attribute from self_
       fuel = `len(W)` of the receiver (the bound the step proofs show sufficient for the `while` loop of step_fit)
  for t in it: B ; rest                         ->  match forEach (fun vars t => B) it vars with | .ret r => r | .next vars => rest
       (ctrans' rule, re-emitted here because the helper definitions are typed over the receiver's `Ext`)
  np.zeros((n,), dtype=int) / np.pad(v, [(0, n)], mode="constant")   on a receiver whose labels may be negative (TopoART)
                                                ->  List.replicate n (0 : Int)  /  v ++ List.replicate n (0 : Int)
       (DualVigilanceART: ctrans' rendering over Nat)
Anything else raises `Unsupported`: the translator fails closed.
"""
from __future__ import annotations

import ast
import copy
import os
import sys
from contextlib import contextmanager
from pathlib import Path

from . import ctrans as C
from .ktrans import Unsupported, find_function

VERIF = Path(__file__).resolve().parents[2]
BASE_FILE = C.BASE
FILES = {"BaseART": BASE_FILE, "DualVigilanceART": "artlib/topological/DualVigilanceART.py",
         "TopoART": "artlib/topological/TopoART.py"}
METHODS = ["predict", "partial_fit", "fit"]
HOOKS = {"pre_step_fit", "post_step_fit", "post_fit"}

COVERS = ("BaseART.fit / partial_fit / predict (artlib/common/BaseART.py) are re-translated as executed on a "
          "DualVigilanceART and on a TopoART receiver (method and property lookup along the MRO; the W / labels_ / "
          "weight_sample_counter_ properties of the wrappers are inlined from their getters and setters) and proved equal "
          "to dualFit (= dualPartialFit ∘ dualReset), dualPartialFit, dualPredict of ArtModel/DualVig.lean and to topoFit "
          "(every tau samples: prune with labels_ re-indexing), topoPartialFit (never prunes, F11), topoPredict of "
          "ArtModel/Topo.lean, for every max_iter (epoch folds; max_iter = 1 is the model's fit); self.step_fit / step_pred / "
          "post_step_fit / pre_step_fit / post_fit are calls of the definitions generated by dtrans / ttrans / ttrans2 "
          "(ArtGen/Dual.lean, Topo.lean, TopoStep.lean), whose proofs are composed; the base module's kernel methods stay "
          "fields of Art.Imp.DualExt / Art.ImpTopoStep.Ext under the contracts of DualSpec / TopoStepSpec / TopoSpec; "
          "validate_data / check_dimensions / check_is_fitted are dropped; sklearn's ClusterMixin.fit_predict "
          "(fit, then read labels_) is outside /repo and not translated.")

THEOREMS = [
    "Whole.dualFitEpochs_one", "Whole.topoFitEpochs_one",
    "Whole.dual_partial_fit_spec", "Whole.dual_fit_spec", "Whole.dual_fit_one", "Whole.dual_predict_spec",
    "Whole.dual_predict_model", "Whole.dual_fit_restores", "Whole.dual_partial_fit_append",
    "Whole.dual_fit_eq_partial_fits", "Whole.dual_refit_eq_fresh", "Whole.dual_partial_fit_map_total",
    "Whole.dual_fit_map_total", "Whole.dual_scalar_fit",
    "Whole.topo_fit_spec", "Whole.topo_fit_one", "Whole.topo_partial_fit_spec", "Whole.topo_predict_spec",
    "Whole.topo_predict_model", "Whole.topo_fit_shape", "Whole.topo_fit_labels", "Whole.topo_partial_fit_never_prunes",
    "Whole.topo_scalar_fit",
]

DROPPED = {
    "docstrings, type annotations, `from tqdm import tqdm`": "ctrans.strip_doc / tr_block: no effect on the state",
    "self.validate_data(X), self.check_dimensions(X), check_is_fitted(self)":
        "ctrans rule GUARDS / GUARD_FUNCS (also when the receiver overrides them: both wrappers only forward to the base "
        "module's guards): they raise on invalid data or record the data width; the theorems are about calls on valid "
        "data (validation is C18's subject)",
    "self.is_fitted_ = True": "ctrans rule WRITE_ONLY: a flag none of the translated code reads",
    "tqdm(it, total=…)": "ctrans: a progress bar is the identity on the iterator",
    "the unused parameter y of fit": "ctrans IGNORED_PARAMS (sklearn compatibility; BaseART never reads it)",
    "parameter defaults": "never substituted: every call site of a generated method must supply every argument",
    "BaseART.__setattr__ / __getattr__": "attribute stores go to the instance unless the name is a key of `params`; "
        "the state attributes (W, labels_, weight_sample_counter_, sample_counter_) are assumed not to be "
        "hyper-parameter names; hasattr(self, 'W') on a receiver whose W is a property is hasattr(base_module, 'W') "
        "(the property getter raises AttributeError exactly when the base module has no W, and 'W' is not a params key)",
    "np.zeros dtype / array aliasing": "labels_ is a fresh list; `self.labels_[i] = c` through the property getter "
        "mutates the base module's array in place, which is the record update of the nested field",
    "ClusterMixin.fit_predict": "defined by scikit-learn, not in /repo: fit(X) followed by a read of labels_",
}

A = ("opt", "α")
_BASE_PT = dict(C.PROFILES["BaseART"]["PARAM_TYPES"])

# per receiver: the ctrans profile + what this module adds
RECEIVERS = {
    "DualVigilanceART": dict(
        NAMESPACE="Art.Gen.DualFit",
        EXT_TY="Art.Imp.DualExt Xt Wt P C α",
        HEADER_CLASSES="{Xt Wt P C α : Type} [LT α] [DecidableRel (α := α) (· < ·)] [Zero α] [Inhabited Wt] [Inhabited C]",
        SELF_TY="Art.Imp.DualSelf Wt P α",
        SELF_FIELDS={"base_module": ("self_base", "base"), "map": ("self_map", "map"), "sample_counter_": ("self_n", "n"),
                     "rho_lower_bound": ("self_rho_lb", "rho_lower_bound")},
        SELF_TYPES={"base_module": "Art.Imp.Self Wt P", "map": "dict", "sample_counter_": "Nat", "rho_lower_bound": "α"},
        NESTED={"base_module": "BaseART"},
        FLATTEN={},                          # (nested, field) -> plain attribute that holds it
        HAS_FLAGS={},
        INT="Nat",                           # element type of labels_ / predictions
        # method -> (class expected to define it for this receiver, generated definition, view, fuel, result type)
        CALLS={"step_fit": ("DualVigilanceART", "Art.Gen.DualVigilanceART.step_fit", None, "(self_base.W).length", "Nat"),
               "step_pred": ("DualVigilanceART", "Art.Gen.DualVigilanceART.step_pred", None, None, "Nat")},
        E_OF={None: "E"},
        IMPORT_NOTE="DualVigilanceART.step_fit / step_pred: ArtGen/Dual.lean (dtrans)",
    ),
    "TopoART": dict(
        NAMESPACE="Art.Gen.TopoFit",
        EXT_TY="Art.ImpTopoStep.Ext Xt Wt P C α",
        HEADER_CLASSES="{Xt Wt P C α : Type} [LT α] [DecidableRel (α := α) (· < ·)] [Inhabited Wt] [Inhabited C]",
        SELF_TY="Art.ImpWhole.TopoSelf Wt P",
        SELF_FIELDS={"W": ("self_W", "W"), "weight_sample_counter_": ("self_cnt", "cnt"), "adjacency": ("self_adj", "adj"),
                     "_permanent_mask": ("self_perm", "perm"), "labels_": ("self_labels", "labels"),
                     "sample_counter_": ("self_n", "n"), "params": ("self_params", "params"),
                     "__bparams": ("self_bparams", "bparams"), "phi": ("self_phi", "phi"), "tau": ("self_tau", "tau"),
                     "__hasW": ("self_hasW", "hasW")},
        SELF_TYPES={"W": ("list", "Wt"), "weight_sample_counter_": ("list", "Nat"), "adjacency": ("list", ("list", "Nat")),
                    "_permanent_mask": ("list", "Bool"), "labels_": ("list", "Int"), "sample_counter_": "Nat", "params": "P",
                    "__bparams": "P", "phi": "Nat", "tau": "Nat", "__hasW": "Bool"},
        NESTED={},
        FLATTEN={("base_module", "W"): "W"},
        HAS_FLAGS={"W": "__hasW"},
        INT="Int",
        CALLS={"step_fit": ("TopoART", "Art.Gen.TopoARTStep.step_fit", "Step", "(self_W).length", "Int"),
               "step_pred": ("TopoART", "Art.Gen.TopoART.step_pred", "Topo", None, "Int"),
               "post_step_fit": ("TopoART", "Art.Gen.TopoART.post_step_fit", "Topo", None, "Unit"),
               "pre_step_fit": ("BaseART", "Art.Gen.TopoART.pre_step_fit", "Topo", None, "Unit"),
               "post_fit": ("BaseART", "Art.Gen.TopoART.post_fit", "Topo", None, "Unit")},
        E_OF={"Step": "E", "Topo": "E.toTopoExt"},
        IMPORT_NOTE="TopoART.step_fit: ArtGen/TopoStep.lean (ttrans2); post_step_fit / prune / step_pred / hooks: ArtGen/Topo.lean (ttrans)",
    ),
}

_ORIG = {}
_CUR = {}          # the receiver being translated: name, its table, the module ASTs


# ------------------------------------------------------------------------------------- class / property lookup

def class_node(tree, cls: str) -> ast.ClassDef:
    nodes = [n for n in tree.body if isinstance(n, ast.ClassDef) and n.name == cls]
    if len(nodes) != 1:
        raise Unsupported(f"class {cls} not found (once)")
    return nodes[0]


def defs_of(cls: str, name: str) -> list[ast.FunctionDef]:
    return [f for f in class_node(_CUR["trees"][cls], cls).body if isinstance(f, ast.FunctionDef) and f.name == name]


def mro_owner(name: str) -> str:
    """the class that defines method `name` for an instance of the receiver: the receiver class, then BaseART"""
    for cls in (_CUR["name"], "BaseART"):
        d = defs_of(cls, name)
        if len(d) > 1:
            raise Unsupported(f"{cls}.{name} is defined {len(d)} times")
        if d:
            if d[0].decorator_list:
                raise Unsupported(f"{cls}.{name}: decorators {[ast.unparse(x) for x in d[0].decorator_list]}")
            return cls
    raise Unsupported(f"{name} is defined neither by {_CUR['name']} nor by BaseART")


def check_receiver(cls: str):
    node = class_node(_CUR["trees"][cls], cls)
    if [ast.unparse(b) for b in node.bases] != ["BaseART"]:
        raise Unsupported(f"{cls} does not derive from BaseART alone: method lookup would differ")
    for m in METHODS + ["fit_predict"]:
        if defs_of(cls, m):
            raise Unsupported(f"{cls} now overrides {m}: the inherited body is not what runs")
    for f in class_node(_CUR["trees"]["BaseART"], "BaseART").body:
        if isinstance(f, ast.FunctionDef) and f.name in ("__getattribute__",):
            raise Unsupported("BaseART.__getattribute__")
    for f in node.body:
        if isinstance(f, ast.FunctionDef) and f.name in ("__getattr__", "__setattr__", "__getattribute__"):
            raise Unsupported(f"{cls} defines {f.name}: attribute access is no longer BaseART's")


def properties(cls: str) -> tuple[dict, set]:
    """(aliases, all property names) of class `cls`.  aliases: name -> (nested attribute, field, has a setter) for the
    properties whose getter is `return self.<nested>.<field>` and whose setter (if any) stores into the same place"""
    getters, setters, names = {}, {}, set()
    for f in class_node(_CUR["trees"][cls], cls).body:
        if not isinstance(f, ast.FunctionDef):
            continue
        decos = [ast.unparse(d) for d in f.decorator_list]
        if decos == ["property"]:
            if f.name in getters:
                raise Unsupported(f"property {cls}.{f.name} defined twice")
            getters[f.name] = f
            names.add(f.name)
        elif len(decos) == 1 and decos[0].endswith(".setter"):
            if decos[0] != f.name + ".setter" or f.name in setters:
                raise Unsupported(f"setter {decos[0]} on {cls}.{f.name}")
            setters[f.name] = f
        elif decos and any(d.endswith((".deleter", ".getter")) for d in decos):
            raise Unsupported(f"{cls}.{f.name}: decorator {decos}")
    for s in setters:
        if s not in getters:
            raise Unsupported(f"setter without property: {cls}.{s}")
    aliases = {}
    for name, g in getters.items():
        body = C.strip_doc(g.body)
        if not (len(body) == 1 and isinstance(body[0], ast.Return) and isinstance(body[0].value, ast.Attribute)
                and C.is_self_attr(body[0].value.value) is not None and len(g.args.args) == 1):
            continue
        nested, fld = C.is_self_attr(body[0].value.value), body[0].value.attr
        has_setter = False
        if name in setters:
            sf = setters[name]
            sb = C.strip_doc(sf.body)
            if len(sf.args.args) != 2:
                continue
            p = sf.args.args[1].arg
            if not (len(sb) == 1 and isinstance(sb[0], ast.Assign) and len(sb[0].targets) == 1
                    and ast.unparse(sb[0].targets[0]) == f"self.{nested}.{fld}" and isinstance(sb[0].value, ast.Name)
                    and sb[0].value.id == p):
                continue                      # getter and setter disagree: not an alias (a use fails closed below)
            has_setter = True
        aliases[name] = (nested, fld, has_setter)
    return aliases, names


class InlineProperties(ast.NodeTransformer):
    """rule `property inlining`: self.a -> self.<nested>.<f> for the alias properties of the receiver"""

    def __init__(self, cls):
        self.cls = cls
        self.aliases, self.props = properties(cls)
        self.flatten = _CUR["tab"]["FLATTEN"]

    def target(self, a, ctx, store):
        nested, fld, has_setter = self.aliases[a]
        if store and not has_setter:
            raise Unsupported(f"store into the read-only property {self.cls}.{a}")
        if (nested, fld) in self.flatten:
            return ast.Attribute(value=ast.Name(id="self", ctx=ast.Load()), attr=self.flatten[(nested, fld)], ctx=ctx)
        if nested not in _CUR["tab"]["NESTED"]:
            raise Unsupported(f"property {self.cls}.{a} aliases self.{nested}.{fld}, which the profile does not hold")
        return ast.Attribute(value=ast.Attribute(value=ast.Name(id="self", ctx=ast.Load()), attr=nested, ctx=ast.Load()),
                             attr=fld, ctx=ctx)

    def visit_Attribute(self, node):
        self.generic_visit(node)
        a = C.is_self_attr(node)
        if a is None:
            return node
        if a in self.aliases:
            return ast.copy_location(self.target(a, node.ctx, isinstance(node.ctx, (ast.Store, ast.Del))), node)
        if a in self.props:
            raise Unsupported(f"self.{a} is a property of {self.cls} that is not a plain alias of a nested attribute")
        return node

    # `self.a[i] = e` reads the property (its getter: the Attribute node has Load context) and stores into the object
    # it returns: covered by visit_Attribute

    def visit_Call(self, node):
        if isinstance(node.func, ast.Name) and node.func.id == "hasattr" and len(node.args) == 2 and not node.keywords \
                and isinstance(node.args[0], ast.Name) and node.args[0].id == "self" and isinstance(node.args[1], ast.Constant):
            a = node.args[1].value
            if a in self.aliases:
                nested, fld, _ = self.aliases[a]
                if (nested, fld) in self.flatten:
                    return ast.copy_location(ast.Call(func=node.func, args=[node.args[0], ast.Constant(self.flatten[(nested, fld)])],
                                                      keywords=[]), node)
                if nested not in _CUR["tab"]["NESTED"]:
                    raise Unsupported(f"hasattr(self, {a!r}): alias of self.{nested}.{fld}")
                obj = ast.Attribute(value=ast.Name(id="self", ctx=ast.Load()), attr=nested, ctx=ast.Load())
                return ast.copy_location(ast.Call(func=node.func, args=[obj, ast.Constant(fld)], keywords=[]), node)
            if a in self.props:
                raise Unsupported(f"hasattr(self, {a!r}): a property that is not a plain alias")
            return node
        return self.generic_visit(node)


# ---------------------------------------------------------------------------------------------- expressions

def w_ext(e: ast.AST, env):
    tab = _CUR["tab"]
    # hasattr(self.<nested>, "W")
    if isinstance(e, ast.Call) and isinstance(e.func, ast.Name) and e.func.id == "hasattr" and len(e.args) == 2 \
            and not e.keywords and C.is_self_attr(e.args[0]) in tab["NESTED"] and isinstance(e.args[1], ast.Constant):
        if e.args[1].value != "W":
            raise Unsupported(f"hasattr of the nested attribute {e.args[1].value!r}")
        return f"{tab['SELF_FIELDS'][C.is_self_attr(e.args[0])][0]}.hasW", "Bool"
    if tab["INT"] == "Int" and isinstance(e, ast.Call):
        fn = ast.unparse(e.func)
        if fn == "np.zeros" and len(e.args) == 1 and isinstance(e.args[0], ast.Tuple) and len(e.args[0].elts) == 1 \
                and [ast.unparse(k_) for k_ in e.keywords] == ["dtype=int"]:
            n_, nty = C.ext(e.args[0].elts[0], env)
            if nty != "Nat":
                raise Unsupported("np.zeros length")
            return f"(List.replicate {n_} (0 : Int))", ("list", "Int")
        if fn == "np.pad" and len(e.args) == 2 and [ast.unparse(k_) for k_ in e.keywords] == ["mode='constant'"] \
                and isinstance(e.args[1], ast.List) and len(e.args[1].elts) == 1 and isinstance(e.args[1].elts[0], ast.Tuple) \
                and len(e.args[1].elts[0].elts) == 2 and ast.unparse(e.args[1].elts[0].elts[0]) == "0":
            bt, bty = C.ext(e.args[0], env)
            n_, nty = C.ext(e.args[1].elts[0].elts[1], env)
            if bty != ("list", "Int") or nty != "Nat":
                raise Unsupported("np.pad of something that is not a label vector")
            return f"({bt} ++ List.replicate {n_} (0 : Int))", ("list", "Int")
    return _ORIG["ext"](e, env)


# ----------------------------------------------------------------------------------------------- statements

def call_generated(m: str, call: ast.Call, env, target) -> list[str]:
    """`[target =] self.m(args)` for a method whose generated definition the table CALLS names"""
    tab = _CUR["tab"]
    want_owner, lname, view, fuel, rty = tab["CALLS"][m]
    owner = mro_owner(m)
    if owner != want_owner:
        raise Unsupported(f"{_CUR['name']}: self.{m} now resolves to {owner}.{m}; the generated definition {lname} "
                          f"was translated from {want_owner}.{m}")
    f = defs_of(owner, m)[0]
    a = f.args
    if a.vararg or a.kwarg or a.kwonlyargs or a.posonlyargs:
        raise Unsupported(f"{owner}.{m}: signature")
    names = [x.arg for x in a.args[1:]]
    if len(call.args) > len(names):
        raise Unsupported(f"{m}: too many arguments")
    given = dict(zip(names, call.args))
    for kw in call.keywords:
        if kw.arg is None or kw.arg in given or kw.arg not in names:
            raise Unsupported(f"{m}: keyword {kw.arg}")
        given[kw.arg] = kw.value
    args = []
    for n_ in names:
        if n_ not in given:
            raise Unsupported(f"{m}: argument {n_} not supplied at the call (defaults are not translated)")
        a_ = given[n_]
        if n_ in C.CALLBACKS:
            if not (isinstance(a_, ast.Name) and a_.id in env.callbacks):
                raise Unsupported(f"{m}: {n_} must be passed through")
            args += [env.names[a_.id] + "_is_none", env.names[a_.id]]
            continue
        if n_ not in C.PARAM_TYPES:
            raise Unsupported(f"{m}: parameter {n_} unknown")
        ty_ = C.ext(a_, env)[1]
        if ty_ != C.PARAM_TYPES[n_]:
            raise Unsupported(f"{m}: argument {n_} has type {ty_}, expected {C.PARAM_TYPES[n_]}")
        args.append(C.arg(a_, env))
    pack = C.self_pack()
    e_ = tab["E_OF"][view]
    fuel_ = fuel + " " if fuel else ""
    if view is None:
        lines = [f"let r_ := {lname} {e_} {fuel_}{pack} " + " ".join(args)]
        lines += C.self_unpack("r_.1", env)
    else:
        lines = [f"let r_ := {lname} {e_} {fuel_}(Art.ImpWhole.TopoSelf.to{view} {pack}) " + " ".join(args),
                 f"let self_ := Art.ImpWhole.TopoSelf.of{view} {pack} r_.1"]
        lines += C.self_unpack("self_", env)
    if target is not None:
        v = env.bind(target, rty)
        lines.append(f"let {v} := r_.2")
    elif rty != "Unit":
        raise Unsupported(f"the value of self.{m}(…) is discarded")
    return lines


def w_tr_block(stmts, env, k):
    stmts = C.strip_doc(stmts)
    if not stmts:
        return k.fall(env)
    s, rest = stmts[0], stmts[1:]
    tab = _CUR["tab"]
    if isinstance(s, ast.Expr) and C.self_call(s.value) and C.self_call(s.value)[0] not in C.GUARDS:
        m, call = C.self_call(s.value)
        if m in tab["CALLS"]:
            return call_generated(m, call, env, None) + C.tr_block(rest, env, k)
        owner = mro_owner(m)
        if owner == "BaseART" and m in HOOKS:
            return _ORIG["tr_block"](stmts, env, k)            # ctrans' INLINE rule on BaseART's own body
        raise Unsupported(f"call of self.{m} (resolves to {owner}.{m}): no generated definition in the table")
    if isinstance(s, ast.Assign) and len(s.targets) == 1 and C.self_call(s.value):
        m, call = C.self_call(s.value)
        if not isinstance(s.targets[0], ast.Name):
            raise Unsupported(f"target of self.{m}(…)")
        if m not in tab["CALLS"]:
            raise Unsupported(f"value of self.{m}(…): no generated definition in the table")
        return call_generated(m, call, env, s.targets[0].id) + C.tr_block(rest, env, k)
    if isinstance(s, ast.While):
        raise Unsupported("while loop (the inherited whole-call bodies have none)")
    if isinstance(s, ast.For):
        return for_stmt(s, rest, env, k)
    return _ORIG["tr_block"](stmts, env, k)


def for_stmt(s: ast.For, rest, env, k) -> list[str]:
    """ctrans' `for` rule; the helper definitions take `E` of the receiver's Ext type"""
    tab = _CUR["tab"]
    if s.orelse:
        raise Unsupported("for/else")
    it, ity = C.ext(s.iter, env)
    before = env.defined()

    def bind_target(e_):
        if isinstance(s.target, ast.Name):
            if isinstance(ity, tuple) and ity[0] == "enum":
                raise Unsupported("enumerate needs two loop variables")
            nm = s.target.id if s.target.id != "_" else "it_"
            return e_.bind(nm, C.elem_ty(ity, "for"))
        if isinstance(s.target, ast.Tuple) and len(s.target.elts) == 2 and all(isinstance(t_, ast.Name) for t_ in s.target.elts) \
                and isinstance(ity, tuple) and ity[0] == "enum":
            i_ = e_.bind(s.target.elts[0].id, "Nat")
            v_ = e_.bind(s.target.elts[1].id, ity[1])
            return f"({v_}, {i_})"          # List.zipIdx yields (value, index)
        raise Unsupported(f"for target {ast.unparse(s.target)}")
    d = env.copy()
    d.rec, d.helpers, d.loopn = [], [], [0]
    bind_target(d)
    d.rec = []
    C.tr_block(s.body, d, C.K(lambda e_: [], lambda t_: ""))
    carried = [v for v in d.rec if v in before]
    if not carried:
        raise Unsupported("for loop that changes nothing")
    tup = C.tuple_pat(carried)
    state_ty = C.lean_ty(("prod", [env.types[v] for v in carried])) if len(carried) > 1 else C.lean_ty(env.types[carried[0]])
    elem_lean = C.lean_ty(("prod", [ity[1], "Nat"])) if ity[0] == "enum" else C.lean_ty(C.elem_ty(ity, "for"))
    be = env.copy()
    be.in_loop = True
    pat = bind_target(be)
    body = C.tr_block(s.body, be, C.K(lambda e_: [f".next {tup}"], lambda t_: f".ret {t_}"))
    env.loopn[0] += 1
    k_ = env.loopn[0]
    bname = f"{env.fn}_loop{k_}_body"
    own = set(__import__("re").findall(r"[A-Za-z_][A-Za-z_0-9]*", pat))
    bfv = C.free_vars("\n".join(body), env, exclude=list(carried) + list(own))
    env.helpers.append("\n".join(
        [f"/-- loop {k_} of `BaseART.{env.fn}` on a {_CUR['name']}: one iteration of `for {ast.unparse(s.target)} in {ast.unparse(s.iter)}` -/",
         f"def {bname} {tab['HEADER_CLASSES']}",
         f"    (E : {tab['EXT_TY']}) " + " ".join(C.param_decl(v, env) for v in bfv) + " :",
         f"    {state_ty} → {elem_lean} → Art.Imp.Flow ({C.ret_type(env)}) ({state_ty}) :=",
         f"  fun {tup} {pat} =>"] + C.ind(body, 4)) + "\n")
    for v in carried:
        env._mark(v)
    after = C.tr_block(rest, env, k)
    return ([f"match Art.Imp.forEach ({bname} E {' '.join(bfv)}) {it} {tup} with",
             f"| .ret r_ => {k.ret('r_')}", f"| .next {tup} =>"] + C.ind(after))


def translate_method(name: str) -> str:
    tab, cls = _CUR["tab"], _CUR["name"]
    if mro_owner(name) != "BaseART":
        raise Unsupported(f"{cls} overrides {name}")
    f = copy.deepcopy(find_function(_CUR["trees"]["BaseART"], "BaseART", name))
    f = ast.fix_missing_locations(InlineProperties(cls).visit(f))
    env = C.Env(_CUR["trees"]["BaseART"], "BaseART")
    env.trees = _CUR["trees"]
    env.fn = name
    env.ret_ty = C.METHOD_RET[name]
    params = []
    a = f.args
    if a.vararg or a.kwarg or a.kwonlyargs or a.posonlyargs:
        raise Unsupported(f"{name}: signature")
    for x in a.args[1:]:
        if x.arg in C.IGNORED_PARAMS:
            continue
        if x.arg in C.CALLBACKS:
            env.callbacks.add(x.arg)
            env.names[x.arg] = x.arg
            params += [f"({x.arg}_is_none : Bool)", f"({x.arg} : {C.CALLBACK_TYPE[x.arg]})"]
        elif x.arg in C.PARAM_TYPES:
            env.names[x.arg] = x.arg
            env.types[x.arg] = C.PARAM_TYPES[x.arg]
            params.append(f"({x.arg} : {C.lean_ty(C.PARAM_TYPES[x.arg])})")
        else:
            raise Unsupported(f"{name}: parameter {x.arg}")

    def no_fall(e_):
        raise Unsupported(f"{name}: a path ends without return")
    body = C.tr_block(f.body, env, C.K(no_fall, lambda t_: t_))
    head = [f"/-- generated from `BaseART.{name}` as executed on a `{cls}` instance -/",
            f"def {name} {tab['HEADER_CLASSES']}",
            f"    (E : {tab['EXT_TY']}) (self : {tab['SELF_TY']}) " + " ".join(params) + " :",
            f"    {C.ret_type(env)} :="]
    pre = [f"let {v} := self.{fld}" for v, fld in C.SELF_FIELDS.values()]
    return "\n".join(env.helpers) + ("\n" if env.helpers else "") + "\n".join(head + C.ind(pre + body)) + "\n"


@contextmanager
def _profile(cls: str, trees):
    """install the receiver's profile and the two wrappers into ctrans; restore everything afterwards"""
    tab = RECEIVERS[cls]
    prof = dict(
        SELF_FIELDS=tab["SELF_FIELDS"], SELF_TYPES=tab["SELF_TYPES"], SELF_TY=tab["SELF_TY"],
        METHOD_RET={"fit": "Unit", "partial_fit": "Unit", "predict": ("list", tab["INT"])},
        TRANSLATED=[], INLINE=set(HOOKS), PURE_INLINE=set(), NESTED=tab["NESTED"], NAMESPACE=tab["NAMESPACE"],
        FILE=BASE_FILE, PARAM_TYPES=_BASE_PT, IGNORED_PARAMS={"y"}, WRITE_ONLY={"is_fitted_"}, HAS_FLAGS=tab["HAS_FLAGS"],
        EXTERNAL={}, GUARDS={"validate_data", "check_dimensions"}, GUARD_FUNCS={"check_is_fitted"},
        HEADER_CLASSES=tab["HEADER_CLASSES"],
    )
    keys = list(prof) + ["ext", "tr_block"]
    saved = {key: getattr(C, key) for key in keys if hasattr(C, key)}
    missing = [key for key in keys if not hasattr(C, key)]
    _ORIG["ext"], _ORIG["tr_block"] = C.ext, C.tr_block
    _CUR.update(name=cls, tab=tab, trees=trees)
    try:
        for key, val in prof.items():
            setattr(C, key, val)
        C.ext, C.tr_block = w_ext, w_tr_block
        yield
    finally:
        for key, val in saved.items():
            setattr(C, key, val)
        for key in missing:
            if hasattr(C, key):
                delattr(C, key)
        _ORIG.clear()
        _CUR.clear()


def generate(repo: Path) -> str:
    repo = Path(repo)
    trees = {c: ast.parse((repo / f).read_text()) for c, f in FILES.items()}
    chunks = ["/-",
              "GENERATED by harness/artv/wtrans.py from artlib/common/BaseART.py (fit, partial_fit, predict) as executed on",
              "a DualVigilanceART and on a TopoART receiver (artlib/topological/DualVigilanceART.py, TopoART.py: method and",
              "property lookup) — do not edit.  Regenerated on every run of the checks that name it;",
              "`ArtGenProofs/WholeSpec.lean` proves the definitions equal to the model's dualFit / dualPartialFit / dualPredict",
              "(ArtModel/DualVig.lean) and topoFit / topoPartialFit / topoPredict (ArtModel/Topo.lean) for all arguments.",
              "-/",
              "import ArtModel.ImpWhole",
              "import ArtGen.Dual",
              "import ArtGen.Topo",
              "import ArtGen.TopoStep",
              "",
              "set_option linter.unusedVariables false",
              ""]
    for cls in ("DualVigilanceART", "TopoART"):
        tab = RECEIVERS[cls]
        with _profile(cls, trees):
            check_receiver(cls)
            chunks += [f"/-! ### receiver `{cls}`  ({tab['IMPORT_NOTE']}) -/", "", f"namespace {tab['NAMESPACE']}", ""]
            for m in METHODS:
                chunks.append(translate_method(m))
            chunks += [f"end {tab['NAMESPACE']}", ""]
    return "\n".join(chunks)


def write(repo: Path = None) -> tuple[bool, str]:
    repo = Path(repo or os.environ.get("VERIF_REPO", "/repo"))
    out = VERIF / "lean" / "ArtGen" / "Whole.lean"
    try:
        text = generate(repo)
    except (Unsupported, SyntaxError, OSError, KeyError, AttributeError, TypeError, IndexError) as e:
        return False, f"whole-call translator failed closed: {type(e).__name__}: {e}"
    if not out.exists() or out.read_text() != text:
        tmp = out.with_suffix(".lean.tmp")
        tmp.write_text(text)
        os.replace(tmp, out)
    return True, "generated"


if __name__ == "__main__":
    ok, msg = write(Path(sys.argv[1]) if len(sys.argv) > 1 else None)
    print(msg)
    sys.exit(0 if ok else 1)
