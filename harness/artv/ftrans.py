"""FusionART translator: the Python AST of `artlib/fusion/FusionART.py`'s channel plumbing  ->  Lean 4 definitions.

`ktrans.py` translates numeric kernels, `ctrans.py` the training loops of BaseART / SimpleARTMAP.  FusionART's own
code is of a third kind: list comprehensions over `range(self.n)` that cut the sample with `self._channel_indices[k]`,
the fused weight with `self._weight_indices[k]`, hand the pieces to `self.modules[k].<method>` and re-assemble the
answers (`zip(*[...])`, `sum`, `all`, `np.concatenate`, `{k: c for k, c in enumerate(caches)}`), `for` loops that write
through `self.modules[k].add_weight / set_weight / _match_tracking`, and the helper `get_channel_position_tuples`.
This module translates exactly that sub-language, syntax-directed, into `lean/ArtGen/Fusion.lean`;
`lean/ArtGenProofs/FusionSpec.lean` proves each generated definition equal to the definition of `ArtModel/Fusion.lean`
that the property theorems (C10, C11) are stated about.

The translation (everything runs in the `Option` monad: `none` = the Python code raises):
  xs[k]        (xs a list)        ->  (← xs[k]?)            an index out of range raises
  t[0], t[1]   (t a pair)         ->  t.1, t.2
  v[a:b]                          ->  Imp.pySlice v a b      (= (v.take b).drop a, Python's clipping slice)
  [E for t in it]                 ->  (← it.mapM (fun t => do pure E))
  A if c else B                   ->  (← if c then (do pure A) else (do pure B))          (lazy, like Python)
  zip(*[E for …]) unpacked a, b   ->  let r ← …; let a := r.map (·.1); let b := r.map (·.2)
  {k: v for k, v in enumerate(xs)}->  xs                      (a dict keyed by position = the list)
  sum([...]) of activations       ->  Imp.optSum [...]        (left to right from 0; none = NaN propagates)
  a * g  (a an activation)        ->  Imp.optMul a g
  all(xs) / len(xs) / range(n)    ->  xs.all id / xs.length / List.range n
  np.concatenate(xs)              ->  xs.flatten
  k not in skip                   ->  !(skip.contains k)
  if x is None: raise / assert x is not None   ->  let x ← x
  for t in it: body  (no return)  ->  let (vars) ← it.foldlM (fun (vars) t => do body; pure (vars)) (vars)
  if c: A else: B    (no return)  ->  let (vars) ← if c then (do A; pure (vars)) else (do B; pure (vars))
  xs.append(v)                    ->  let xs := xs ++ [v]
  self.modules[k].m(args)         ->  ops.m (← modules[k]?) args          (the nested estimator is abstract: `ModOps`)
  self.modules[k].add_weight(v) / set_weight(i, v)
                                  ->  let modules := modules.set k (ops.add_weight (← modules[k]?) v)
  b = self.modules[k]._match_tracking(c, eps, p, method)
                                  ->  let (b, m') := ops.match_tracking …; let modules := modules.set k m'
  self._weight_indices = e        ->  let wIdx := e   and wIdx is returned next to the result
  dict() / {"match_criterion": np.inf}  ->  the opaque constants dictEmpty / dictSkip (values of the cache type)
Anything else raises `Unsupported`: the translator fails closed.
"""
from __future__ import annotations

import ast
import os
from pathlib import Path

from .ktrans import Unsupported

VERIF = Path(__file__).resolve().parents[2]
FILE = "artlib/fusion/FusionART.py"

# --- types: "nat" "num" "onum" "bool" "M" "C" "P" "Op" "MT" ("list", t) ("prod", [t…]) ("opt", t)
VEC = ("list", "num")
PAIR = ("prod", ["nat", "nat"])


def lty(t) -> str:
    if isinstance(t, str):
        return {"nat": "Nat", "num": "α", "onum": "Option α", "bool": "Bool", "M": "M", "C": "C", "P": "P", "Op": "Op",
                "MT": "Art.MT"}[t]
    if t[0] == "list":
        return f"List ({lty(t[1])})" if not isinstance(t[1], str) else f"List {lty(t[1])}" if " " not in lty(t[1]) else f"List ({lty(t[1])})"
    if t[0] == "opt":
        return f"Option ({lty(t[1])})"
    if t[0] == "prod":
        return " × ".join(f"({lty(x)})" if not isinstance(x, str) or " " in lty(x) else lty(x) for x in t[1])
    raise Unsupported(f"type {t}")


# methods of a nested module (fields of ModOps): name -> (field, arg types, return type, writes module state)
MOD_METHODS = {
    "category_choice": ("category_choice", [VEC, VEC, "P"], ("prod", ["onum", "C"]), False),
    "match_criterion_bin": ("match_criterion_bin", [VEC, VEC, "P", "C", "Op"], ("prod", ["bool", "C"]), False),
    "update": ("update", [VEC, VEC, "P", "C"], VEC, False),
    "new_weight": ("new_weight", [VEC, "P"], VEC, False),
    "_match_tracking": ("match_tracking", ["C", "num", "P", "MT"], "bool", True),
    "add_weight": ("add_weight", [VEC], None, True),
    "set_weight": ("set_weight", ["nat", VEC], None, True),
}
MOD_ATTRS = {"params": ("params", "P"), "W": ("W", ("list", VEC)), "n_clusters": ("n_clusters", "nat")}
CACHE_KEYS = {"match_criterion_bin": ("cache_match_criterion_bin", "bool")}
SELF_ATTRS = {"modules": ("modules", ("list", "M")), "n": ("n", "nat"), "_channel_indices": ("chIdx", ("list", PAIR)),
              "_weight_indices": ("wIdx", ("list", PAIR))}
DICT_CONSTS = {"dict()": "dictEmpty", "{'match_criterion': np.inf}": "dictSkip"}
KEYWORDS = {"end": "«end»", "from": "«from»", "at": "«at»", "open": "«open»", "in": "«in»"}

# what is translated: name -> (parameters with types, return type, self attributes written)
METHODS = {
    "category_choice": ([("i", VEC), ("w", VEC), ("params", None), ("skip_channels", ("list", "nat"))],
                        ("prod", ["onum", ("list", "C")])),
    "match_criterion_bin": ([("i", VEC), ("w", VEC), ("params", None), ("cache", ("opt", ("list", "C"))), ("op", "Op"),
                             ("skip_channels", ("list", "nat"))], ("prod", ["bool", ("list", "C")])),
    "update": ([("i", VEC), ("w", VEC), ("params", None), ("cache", ("opt", ("list", "C")))], VEC),
    "new_weight": ([("i", VEC), ("params", None)], VEC),
    "_match_tracking": ([("cache", ("list", "C")), ("epsilon", "num"), ("params", None), ("method", "MT")], "bool"),
    "add_weight": ([("new_w", VEC)], None),
    "set_weight": ([("idx", "nat"), ("new_w", VEC)], None),
    "W": ([], ("list", VEC)),
}


def nm(s: str) -> str:
    return KEYWORDS.get(s, s)


class Ctx:
    def __init__(self):
        self.vars: dict[str, object] = {}      # python local -> type
        self.used: set[str] = set()            # free parameters of the generated definition (self attributes, constants)
        self.written: list[str] = []           # self state written: "modules", "wIdx"

    def copy(self):
        c = Ctx()
        c.vars, c.used, c.written = dict(self.vars), self.used, self.written
        return c


def src(e) -> str:
    return ast.unparse(e)


def coerce(text, t, want):
    if t == want:
        return text
    if t == "num" and want == "onum":
        return f"(some {text})"
    if isinstance(t, tuple) and isinstance(want, tuple) and t[0] == want[0] == "prod" and len(t[1]) == len(want[1]):
        raise Unsupported("coercion of a pair expression (only literal tuples are coerced)")
    raise Unsupported(f"type mismatch: {t} where {want} is needed ({text})")


def unify_tuple(e: ast.AST, cx: Ctx, want):
    """translate `e` at the wanted type, coercing float literals inside literal tuples"""
    if isinstance(e, ast.Tuple) and isinstance(want, tuple) and want[0] == "prod" and len(e.elts) == len(want[1]):
        parts = [unify_tuple(x, cx, w) for x, w in zip(e.elts, want[1])]
        return "(" + ", ".join(parts) + ")"
    t_, ty = ex(e, cx)
    return coerce(t_, ty, want)


def self_attr(e):
    if isinstance(e, ast.Attribute) and isinstance(e.value, ast.Name) and e.value.id == "self":
        return e.attr
    return None


def ex(e: ast.AST, cx: Ctx):
    """expression -> (Lean text, type); the text may contain nested actions `(← …)`"""
    if isinstance(e, ast.Name):
        if e.id not in cx.vars:
            raise Unsupported(f"unknown name {e.id}")
        return nm(e.id), cx.vars[e.id]
    if isinstance(e, ast.Constant):
        if isinstance(e.value, bool):
            return ("true" if e.value else "false"), "bool"
        if isinstance(e.value, int):
            return str(e.value), "nat"
        if isinstance(e.value, float) and e.value == int(e.value) and e.value >= 0:
            return f"({int(e.value)} : α)", "num"
        raise Unsupported(f"constant {e.value!r}")
    a = self_attr(e)
    if a is not None:
        if a not in SELF_ATTRS:
            raise Unsupported(f"self.{a}")
        v, t = SELF_ATTRS[a]
        cx.used.add(v)
        return v, t
    if isinstance(e, ast.Attribute):
        bt, bty = ex(e.value, cx)
        if bty == "M" and e.attr in MOD_ATTRS:
            f, t = MOD_ATTRS[e.attr]
            return f"(ops.{f} {bt})", t
        raise Unsupported(f"attribute .{e.attr} of {bty}")
    if isinstance(e, ast.Tuple):
        parts = [ex(x, cx) for x in e.elts]
        return "(" + ", ".join(p[0] for p in parts) + ")", ("prod", [p[1] for p in parts])
    if isinstance(e, ast.Subscript):
        # self.params["gamma_values"]
        if self_attr(e.value) == "params" and isinstance(e.slice, ast.Constant) and e.slice.value == "gamma_values":
            cx.used.add("gamma_values")
            return "gamma_values", ("list", "num")
        bt, bty = ex(e.value, cx)
        if isinstance(e.slice, ast.Slice):
            if e.slice.step is not None or e.slice.lower is None or e.slice.upper is None:
                raise Unsupported("slice without both bounds / with a step")
            lo, lot = ex(e.slice.lower, cx)
            hi, hit = ex(e.slice.upper, cx)
            if lot != "nat" or hit != "nat" or not (isinstance(bty, tuple) and bty[0] == "list"):
                raise Unsupported(f"slice of {bty} by {lot}:{hit}")
            return f"(Art.Imp.pySlice {bt} {lo} {hi})", bty
        if isinstance(bty, tuple) and bty[0] == "prod":
            if isinstance(e.slice, ast.Constant) and e.slice.value in (0, 1) and len(bty[1]) == 2:
                return f"{bt}.{e.slice.value + 1}", bty[1][e.slice.value]
            raise Unsupported("tuple index")
        if isinstance(bty, tuple) and bty[0] == "list":
            it, ity = ex(e.slice, cx)
            if ity != "nat":
                raise Unsupported(f"list index of type {ity}")
            return f"(← {bt}[{it}]?)", bty[1]
        if bty == "C" and isinstance(e.slice, ast.Constant) and e.slice.value in CACHE_KEYS:
            f, t = CACHE_KEYS[e.slice.value]
            return f"(ops.{f} {bt})", t
        raise Unsupported(f"subscript of {bty}: {src(e)}")
    if isinstance(e, ast.IfExp):
        c, ct = ex(e.test, cx)
        if ct != "bool":
            raise Unsupported("condition is not boolean")
        a_, at = ex(e.body, cx)
        want = at
        try:
            b_ = unify_tuple(e.orelse, cx, want)
        except Unsupported:
            b_, want = ex(e.orelse, cx)
            a_ = unify_tuple(e.body, cx, want)
        return f"(← if {c} then (do pure {a_}) else (do pure {b_}))", want
    if isinstance(e, ast.Compare) and len(e.ops) == 1:
        l, lt = ex(e.left, cx)
        r, rt = ex(e.comparators[0], cx)
        if isinstance(e.ops[0], ast.NotIn) and rt == ("list", lt):
            return f"(!({r}.contains {l}))", "bool"
        if isinstance(e.ops[0], ast.In) and rt == ("list", lt):
            return f"({r}.contains {l})", "bool"
        raise Unsupported(f"comparison {src(e)}")
    if isinstance(e, ast.BinOp):
        l, lt = ex(e.left, cx)
        r, rt = ex(e.right, cx)
        if isinstance(e.op, ast.Mult) and lt == "onum" and rt == "num":
            return f"(Art.Imp.optMul {l} {r})", "onum"
        if isinstance(e.op, ast.Add) and lt == rt == "nat":
            return f"({l} + {r})", "nat"
        raise Unsupported(f"operator in {src(e)} on {lt}, {rt}")
    if isinstance(e, ast.ListComp):
        return listcomp(e, cx)
    if isinstance(e, ast.DictComp):
        # {k: v for k, v in enumerate(xs)}  =  xs  (a dict keyed by position)
        g = e.generators[0]
        if (len(e.generators) == 1 and not g.ifs and isinstance(g.iter, ast.Call) and isinstance(g.iter.func, ast.Name)
                and g.iter.func.id == "enumerate" and isinstance(g.target, ast.Tuple) and len(g.target.elts) == 2
                and all(isinstance(x, ast.Name) for x in g.target.elts) and isinstance(e.key, ast.Name)
                and isinstance(e.value, ast.Name) and e.key.id == g.target.elts[0].id and e.value.id == g.target.elts[1].id):
            return ex(g.iter.args[0], cx)
        raise Unsupported(f"dict comprehension {src(e)}")
    if isinstance(e, ast.Dict) or (isinstance(e, ast.Call) and isinstance(e.func, ast.Name) and e.func.id == "dict"):
        key = src(e)
        if key not in DICT_CONSTS:
            raise Unsupported(f"dict literal {key}")
        cx.used.add(DICT_CONSTS[key])
        return DICT_CONSTS[key], "C"
    if isinstance(e, ast.Call):
        return call(e, cx)
    raise Unsupported(f"expression {type(e).__name__}: {src(e)}")


def listcomp(e: ast.ListComp, cx: Ctx):
    if len(e.generators) != 1 or e.generators[0].ifs or e.generators[0].is_async:
        raise Unsupported("comprehension with several generators or a filter")
    g = e.generators[0]
    inner = cx.copy()
    if isinstance(g.iter, ast.Call) and isinstance(g.iter.func, ast.Name) and g.iter.func.id == "enumerate":
        it, ity = ex(g.iter.args[0], cx)
        if not (isinstance(ity, tuple) and ity[0] == "list") or not (isinstance(g.target, ast.Tuple) and len(g.target.elts) == 2):
            raise Unsupported("enumerate target")
        k, a = g.target.elts
        inner.vars[k.id], inner.vars[a.id] = "nat", ity[1]
        it, pat = f"{it}.zipIdx", f"({nm(a.id)}, {nm(k.id)})"
    else:
        it, ity = ex(g.iter, cx)
        if not (isinstance(ity, tuple) and ity[0] == "list") or not isinstance(g.target, ast.Name):
            raise Unsupported("comprehension over a non-list / with a pattern target")
        inner.vars[g.target.id] = ity[1]
        pat = nm(g.target.id)
    b, bt = ex(e.elt, inner)
    return f"(← ({it}).mapM (fun {pat} => do pure {b}))", ("list", bt)


def call(e: ast.Call, cx: Ctx):
    f = e.func
    if e.keywords:
        raise Unsupported(f"keyword arguments in {src(e)}")
    if isinstance(f, ast.Name):
        if f.id == "range" and len(e.args) == 1:
            a, t = ex(e.args[0], cx)
            if t != "nat":
                raise Unsupported("range of a non-integer")
            return f"(List.range {a})", ("list", "nat")
        if f.id == "len" and len(e.args) == 1:
            a, t = ex(e.args[0], cx)
            if not (isinstance(t, tuple) and t[0] == "list"):
                raise Unsupported("len of a non-list")
            return f"{a}.length", "nat"
        if f.id == "sum" and len(e.args) == 1:
            a, t = ex(e.args[0], cx)
            if t == ("list", "onum"):
                return f"(Art.Imp.optSum {a})", "onum"
            raise Unsupported(f"sum over {t}")
        if f.id == "all" and len(e.args) == 1:
            a, t = ex(e.args[0], cx)
            if t == ("list", "bool"):
                return f"({a}.all id)", "bool"
            raise Unsupported(f"all over {t}")
        if f.id == "get_channel_position_tuples" and len(e.args) == 1:
            a, t = ex(e.args[0], cx)
            if t != ("list", "nat"):
                raise Unsupported("get_channel_position_tuples of a non-integer list")
            return f"(get_channel_position_tuples {a})", ("list", PAIR)
        raise Unsupported(f"function {f.id}")
    if isinstance(f, ast.Attribute):
        if isinstance(f.value, ast.Name) and f.value.id == "np" and f.attr == "concatenate" and len(e.args) == 1:
            a, t = ex(e.args[0], cx)
            if t == ("list", VEC):
                return f"{a}.flatten", VEC
            raise Unsupported(f"np.concatenate of {t}")
        bt, bty = ex(f.value, cx)
        if bty == "M" and f.attr in MOD_METHODS:
            fld, atys, rty, writes = MOD_METHODS[f.attr]
            if writes:
                raise Unsupported(f"state-writing nested call {f.attr} in expression position")
            if len(e.args) != len(atys):
                raise Unsupported(f"{f.attr} called with {len(e.args)} arguments, {len(atys)} expected")
            args = [coerce(*ex(a, cx), t) for a, t in zip(e.args, atys)]
            return f"(ops.{fld} {bt} " + " ".join(args) + ")", rty
        raise Unsupported(f"method call {src(e)}")
    raise Unsupported(f"call {src(e)}")


# ---------------------------------------------------------------- statements


def assigned(stmts) -> list[str]:
    out = []
    for s in stmts:
        for n in ast.walk(s):
            if isinstance(n, ast.Assign):
                for t in n.targets:
                    for x in ([t] if isinstance(t, ast.Name) else t.elts if isinstance(t, ast.Tuple) else []):
                        if isinstance(x, ast.Name) and x.id not in out:
                            out.append(x.id)
            if isinstance(n, ast.Expr) and isinstance(n.value, ast.Call) and isinstance(n.value.func, ast.Attribute):
                f = n.value.func
                if f.attr == "append" and isinstance(f.value, ast.Name) and f.value.id not in out:
                    out.append(f.value.id)
    return out


def writes_modules(stmts) -> bool:
    for s in stmts:
        for n in ast.walk(s):
            if isinstance(n, ast.Call) and isinstance(n.func, ast.Attribute) and n.func.attr in MOD_METHODS \
                    and MOD_METHODS[n.func.attr][3]:
                return True
    return False


def module_target(e, cx):
    """`self.modules[k]` -> (list text, index text)"""
    if isinstance(e, ast.Subscript) and self_attr(e.value) == "modules":
        cx.used.add("modules")
        k, kt = ex(e.slice, cx)
        if kt != "nat":
            raise Unsupported("module index")
        return k
    raise Unsupported(f"state-writing call on {src(e)}")


def carried(body, cx: Ctx) -> list[str]:
    vs = [v for v in assigned(body) if v in cx.vars]
    if writes_modules(body):
        vs.append("modules")
    return vs


def pack(vs):
    return "()" if not vs else nm(vs[0]) if len(vs) == 1 else "(" + ", ".join(nm(v) for v in vs) + ")"


def block(stmts, cx: Ctx, ret_ty, I="  ") -> list[str]:
    out = []
    for idx, s in enumerate(stmts):
        if isinstance(s, ast.Expr) and isinstance(s.value, ast.Constant) and isinstance(s.value.value, str):
            continue
        if isinstance(s, ast.Return):
            if idx != len(stmts) - 1:
                raise Unsupported("code after return")
            v = unify_tuple(s.value, cx, ret_ty) if ret_ty is not None else "()"
            st = [w for w in cx.written]
            out.append(I + "pure " + ("(" + ", ".join(st + [v]) + ")" if st else v))
            return out
        if isinstance(s, ast.If) and isinstance(s.test, ast.Compare) and len(s.test.ops) == 1 and isinstance(s.test.ops[0], ast.Is) \
                and isinstance(s.test.comparators[0], ast.Constant) and s.test.comparators[0].value is None \
                and len(s.body) == 1 and isinstance(s.body[0], ast.Raise) and not s.orelse and isinstance(s.test.left, ast.Name):
            x = s.test.left.id
            if not (isinstance(cx.vars.get(x), tuple) and cx.vars[x][0] == "opt"):
                raise Unsupported(f"`{x} is None` on a value that is not optional")
            out.append(I + f"let {nm(x)} ← {nm(x)}")
            cx.vars[x] = cx.vars[x][1]
            continue
        if isinstance(s, ast.Assert) and isinstance(s.test, ast.Compare) and len(s.test.ops) == 1 and isinstance(s.test.ops[0], ast.IsNot) \
                and isinstance(s.test.comparators[0], ast.Constant) and s.test.comparators[0].value is None and isinstance(s.test.left, ast.Name):
            x = s.test.left.id
            if not (isinstance(cx.vars.get(x), tuple) and cx.vars[x][0] == "opt"):
                raise Unsupported(f"`assert {x} is not None` on a value that is not optional")
            out.append(I + f"let {nm(x)} ← {nm(x)}")
            cx.vars[x] = cx.vars[x][1]
            continue
        if isinstance(s, ast.Assign) and len(s.targets) == 1:
            t = s.targets[0]
            # a, b = zip(*[ ... ])
            if (isinstance(t, ast.Tuple) and isinstance(s.value, ast.Call) and isinstance(s.value.func, ast.Name)
                    and s.value.func.id == "zip" and len(s.value.args) == 1 and isinstance(s.value.args[0], ast.Starred)):
                r, rt = ex(s.value.args[0].value, cx)
                if not (rt[0] == "list" and isinstance(rt[1], tuple) and rt[1][0] == "prod" and len(rt[1][1]) == len(t.elts)):
                    raise Unsupported("zip(*…) of a list that does not hold tuples of the unpacked arity")
                if not (r.startswith("(← ") and r.endswith(")")):
                    raise Unsupported("zip(*…) of something that is not a comprehension")
                out.append(I + f"let zipped__ ← {r[3:-1]}")
                for j, x in enumerate(t.elts):
                    out.append(I + f"let {nm(x.id)} := zipped__.map (·.{j + 1})")
                    cx.vars[x.id] = ("list", rt[1][1][j])
                continue
            # b = self.modules[k]._match_tracking(...)
            if (isinstance(t, ast.Name) and isinstance(s.value, ast.Call) and isinstance(s.value.func, ast.Attribute)
                    and s.value.func.attr in MOD_METHODS and MOD_METHODS[s.value.func.attr][3]):
                fld, atys, rty, _ = MOD_METHODS[s.value.func.attr]
                k = module_target(s.value.func.value, cx)
                if len(s.value.args) != len(atys) or s.value.keywords:
                    raise Unsupported(f"arguments of {s.value.func.attr}")
                args = [coerce(*ex(a, cx), ty) for a, ty in zip(s.value.args, atys)]
                out.append(I + f"let ({nm(t.id)}, mod__) := ops.{fld} (← modules[{k}]?) " + " ".join(args))
                out.append(I + f"let modules := modules.set {k} mod__")
                cx.vars[t.id] = rty
                continue
            if isinstance(t, ast.Name):
                if isinstance(s.value, ast.List) and not s.value.elts:
                    # `xs = []`: the element type comes from the first append
                    cx.vars[t.id] = ("list", None)
                    out.append((I + f"let {nm(t.id)} := []", t.id))
                    continue
                v, vt = ex(s.value, cx)
                out.append(I + f"let {nm(t.id)} := {v}")
                cx.vars[t.id] = vt
                continue
            a = self_attr(t)
            if a == "_weight_indices":
                v, vt = ex(s.value, cx)
                if vt != ("list", PAIR):
                    raise Unsupported("_weight_indices of another type")
                out.append(I + f"let wIdx := {v}")
                if "wIdx" not in cx.written:
                    cx.written.append("wIdx")
                continue
            raise Unsupported(f"assignment target {src(t)}")
        if isinstance(s, ast.Expr) and isinstance(s.value, ast.Call) and isinstance(s.value.func, ast.Attribute):
            f = s.value.func
            if f.attr == "append" and isinstance(f.value, ast.Name) and len(s.value.args) == 1:
                x = f.value.id
                lt = cx.vars.get(x)
                if not (isinstance(lt, tuple) and lt[0] == "list"):
                    raise Unsupported(f"append to {x}")
                if lt[1] is None:
                    v, vt = ex(s.value.args[0], cx)
                    cx.vars[x] = ("list", vt)
                else:
                    v = unify_tuple(s.value.args[0], cx, lt[1])
                out.append(I + f"let {nm(x)} := {nm(x)} ++ [{v}]")
                continue
            if f.attr in MOD_METHODS and MOD_METHODS[f.attr][3] and MOD_METHODS[f.attr][2] is None:
                fld, atys, _, _ = MOD_METHODS[f.attr]
                k = module_target(f.value, cx)
                if len(s.value.args) != len(atys) or s.value.keywords:
                    raise Unsupported(f"arguments of {f.attr}")
                args = [coerce(*ex(a, cx), ty) for a, ty in zip(s.value.args, atys)]
                out.append(I + f"let modules := modules.set {k} (ops.{fld} (← modules[{k}]?) " + " ".join(args) + ")")
                if "modules" not in cx.written:
                    cx.written.append("modules")
                continue
            raise Unsupported(f"statement {src(s)}")
        if isinstance(s, ast.For) and not s.orelse:
            if any(isinstance(n, (ast.Return, ast.Break, ast.Continue)) for b in s.body for n in ast.walk(b)):
                raise Unsupported("return / break / continue inside a for loop")
            it, ity = ex(s.iter, cx)
            if not (isinstance(ity, tuple) and ity[0] == "list") or not isinstance(s.target, ast.Name):
                raise Unsupported("for over a non-list / with a pattern target")
            vs = carried(s.body, cx)
            if "modules" in vs:
                cx.used.add("modules")
                if "modules" not in cx.written:
                    cx.written.append("modules")
            inner = cx.copy()
            inner.vars[s.target.id] = ity[1]
            body = block(s.body, inner, None, I + "    ")
            for v in vs:                      # element types discovered inside the loop (first append)
                if v != "modules":
                    cx.vars[v] = inner.vars[v]
            out.append(I + f"let {pack(vs)} ← ({it}).foldlM (fun {pack(vs)} {nm(s.target.id)} => do")
            out += body
            out.append(I + f"    pure {pack(vs)}) {pack(vs)}")
            continue
        if isinstance(s, ast.If):
            if any(isinstance(n, ast.Return) for b in s.body + s.orelse for n in ast.walk(b)):
                raise Unsupported("return inside if")
            c, ct = ex(s.test, cx)
            if ct != "bool":
                raise Unsupported("condition is not boolean")
            vs = list(dict.fromkeys(carried(s.body, cx) + carried(s.orelse, cx)))
            if "modules" in vs and "modules" not in cx.written:
                cx.used.add("modules")
                cx.written.append("modules")
            c1, c2 = cx.copy(), cx.copy()
            b1 = block(s.body, c1, None, I + "    ")
            b2 = block(s.orelse, c2, None, I + "    ")
            for v in vs:
                if v == "modules":
                    continue
                t1, t2 = c1.vars.get(v), c2.vars.get(v)
                if t1 != t2:
                    raise Unsupported(f"{v} has type {t1} in one branch and {t2} in the other")
                cx.vars[v] = t1
            out.append(I + f"let {pack(vs)} ← if {c} then (do")
            out += b1
            out.append(I + f"    pure {pack(vs)})")
            out.append(I + "  else (do")
            out += b2
            out.append(I + f"    pure {pack(vs)})")
            continue
        raise Unsupported(f"statement {type(s).__name__}: {src(s)[:80]}")
    if ret_ty is None:
        return out
    raise Unsupported("method falls off its end")


def finish_empty_lists(lines, cx: Ctx):
    """`xs = []` was emitted before the element type was known: add the ascription"""
    out = []
    for ln in lines:
        if isinstance(ln, tuple):
            text, x = ln
            t = cx.vars.get(x)
            if not (isinstance(t, tuple) and t[0] == "list" and t[1] is not None):
                raise Unsupported(f"element type of the empty list {x} is never determined")
            out.append(text.replace(":= []", f":= ([] : {lty(t)})"))
        else:
            out.append(ln)
    return out


PARAM_TYPES = {"modules": "List M", "n": "Nat", "chIdx": "List (Nat × Nat)", "wIdx": "List (Nat × Nat)",
               "gamma_values": "List α", "dictEmpty": "C", "dictSkip": "C"}
PARAM_ORDER = ["modules", "n", "chIdx", "wIdx", "gamma_values", "dictEmpty", "dictSkip"]
HEADER = "{M P C Op α : Type} [Add α] [Mul α] [Zero α] [One α]"


def find_method(tree, cls, name, prop_getter=False):
    for n in tree.body:
        if isinstance(n, ast.ClassDef) and n.name == cls:
            for f in n.body:
                if isinstance(f, ast.FunctionDef) and f.name == name:
                    decos = [src(d) for d in f.decorator_list]
                    if prop_getter and "property" not in decos:
                        continue
                    if not prop_getter and any(d.endswith(".setter") for d in decos):
                        continue
                    return f
    raise Unsupported(f"{cls}.{name} not found")


def translate_function(tree) -> str:
    """the module-level helper get_channel_position_tuples"""
    f = [n for n in tree.body if isinstance(n, ast.FunctionDef) and n.name == "get_channel_position_tuples"]
    if not f:
        raise Unsupported("get_channel_position_tuples not found")
    f = f[0]
    args = [a.arg for a in f.args.args]
    if args != ["channel_dims"]:
        raise Unsupported(f"get_channel_position_tuples{args}")
    cx = Ctx()
    cx.vars["channel_dims"] = ("list", "nat")
    body = block([s for s in f.body], cx, ("list", PAIR), "  ")
    body = finish_empty_lists(body, cx)
    return ("/-- `get_channel_position_tuples(channel_dims)` -/\n"
            "def get_channel_position_tuples (channel_dims : List Nat) : List (Nat × Nat) :=\n"
            "  Id.run (do\n" + "\n".join("  " + l for l in body) + ")\n")


def translate_method(tree, name: str) -> str:
    params, rty = METHODS[name]
    f = find_method(tree, "FusionART", name, prop_getter=(name == "W"))
    got = [a.arg for a in f.args.args[1:]]
    if got != [p for p, _ in params]:
        raise Unsupported(f"FusionART.{name} has parameters {got}, the translator knows {[p for p, _ in params]}")
    cx = Ctx()
    for p, t in params:
        if t is not None:
            cx.vars[p] = t
    stmts = list(f.body)
    if rty is None:  # procedures: add the implicit return
        body = block(stmts, cx, None, "  ")
        st = cx.written
        body.append("  pure " + ("(" + ", ".join(st) + ")" if len(st) > 1 else st[0] if st else "()"))
        rt = " × ".join(PARAM_TYPES[w] if " " not in PARAM_TYPES[w] else f"({PARAM_TYPES[w]})" for w in st) or "Unit"
    else:
        body = block(stmts, cx, rty, "  ")
        st = cx.written
        rt = " × ".join([PARAM_TYPES[w] if " " not in PARAM_TYPES[w] else f"({PARAM_TYPES[w]})" for w in st] + [f"({lty(rty)})" if " " in lty(rty) else lty(rty)])
    body = finish_empty_lists(body, cx)
    used = [p for p in PARAM_ORDER if p in cx.used or p in cx.written]
    text = "\n".join(body)
    needs_ops = "ops." in text
    decl = " ".join(f"({p} : {PARAM_TYPES[p]})" for p in used)
    pdecl = " ".join(f"({nm(p)} : {lty(t)})" for p, t in params if t is not None)
    lname = "W_get" if name == "W" else name.lstrip("_") if name.startswith("_") else name
    return (f"/-- `FusionART.{name}` -/\n"
            f"def {lname} " + ("(ops : ModOps M α P C Op) " if needs_ops else "") + decl + (" " if decl else "") + pdecl +
            f" :\n    Option ({rt}) := do\n" + text + "\n")


PRELUDE = '''/-
GENERATED by harness/artv/ftrans.py from {file} — do not edit.
Regenerated on every run of the checks that name it; ArtGenProofs/FusionSpec.lean proves these definitions equal
to the FusionART model of ArtModel/Fusion.lean.
-/
import ArtModel.Imp

set_option linter.unusedVariables false

namespace Art.Gen.FusionART
open Art

/-- a nested estimator `self.modules[k]` as FusionART's own code uses it: an abstract object `M` with these methods
(state-writing methods return the new object) -/
structure ModOps (M α P C Op : Type) where
  category_choice : M → List α → List α → P → Option α × C
  match_criterion_bin : M → List α → List α → P → C → Op → Bool × C
  update : M → List α → List α → P → C → List α
  new_weight : M → List α → P → List α
  /-- `_match_tracking(cache, epsilon, params, method)`: returns `keep_searching`, writes the module's params -/
  match_tracking : M → C → α → P → Art.MT → Bool × M
  add_weight : M → List α → M
  set_weight : M → Nat → List α → M
  params : M → P
  W : M → List (List α)
  n_clusters : M → Nat
  /-- `cache["match_criterion_bin"]` -/
  cache_match_criterion_bin : C → Bool

section
variable {HEADER}

'''


def generate(repo: Path) -> str:
    tree = ast.parse((Path(repo) / FILE).read_text())
    parts = [PRELUDE.replace("{file}", FILE).replace("{HEADER}", HEADER)]
    parts.append(translate_function(tree))
    for m in ["category_choice", "match_criterion_bin", "update", "new_weight", "_match_tracking", "add_weight", "set_weight", "W"]:
        parts.append(translate_method(tree, m))
    parts.append("end\n\nend Art.Gen.FusionART\n")
    return "\n".join(parts)


def write(repo: Path = None) -> tuple[bool, str]:
    repo = Path(repo or os.environ.get("VERIF_REPO", "/repo"))
    out = VERIF / "lean" / "ArtGen" / "Fusion.lean"
    try:
        text = generate(repo)
    except (Unsupported, SyntaxError, KeyError, AttributeError, TypeError, IndexError) as e:
        return False, f"{type(e).__name__}: {e}"
    if not out.exists() or out.read_text() != text:
        out.write_text(text)
    return True, "generated"


if __name__ == "__main__":
    import sys
    ok, msg = write(sys.argv[1] if len(sys.argv) > 1 else None)
    print(msg)
    sys.exit(0 if ok else 1)
