"""Second kernel translator: BayesianART / QuadraticNeuronART kernels and the geometry accessors  ->  Lean 4.

Run by hand: `python -m artv.k2trans [repo]`.  Reads the *source files* (never imports artlib) of
`artlib/elementary/{BayesianART,QuadraticNeuronART,FuzzyART,ART1,ART2,HypersphereART,EllipsoidART,GaussianART}.py`,
translates

  BayesianART         category_choice, update, match_criterion, new_weight, get_cluster_centers, class constant `pi2`
  QuadraticNeuronART  category_choice, match_criterion, update, new_weight, get_cluster_centers
  FuzzyART            module function get_bounding_box, get_bounding_boxes, get_cluster_centers, shrink_clusters
  ART1, ART2A, HypersphereART, EllipsoidART, GaussianART     get_cluster_centers

into Lean definitions over an ordered field (namespace `Art.Gen2.<Class>`) and writes `lean/ArtGen/Kernels2.lean`;
`lean/ArtGenProofs/Kernels2Spec.lean` proves each definition equal, for ALL arguments, to the published rule of
`ArtModel/Kernels2.lean` (Bayesian, quadratic neuron) or to the accessor definitions of `ArtModel/Kernels.lean`
(`fuzzyBBox`, `fuzzyShrink`, `fuzzyCentre`, `sphCentre`, `ellCentre`, `gaussMean`).
(`BayesianART.match_criterion_bin` and `_match_tracking` are translated by `ktrans.py`.)

Scalar / vector expressions are translated by **ktrans' own `tr_expr` / `tr_cond`** (the code object is re-used with
its recursive calls bound to the extended translator below — open recursion, `ktrans.py` is not edited), so every
construct of the ktrans table has the same rendering here.  This module adds matrices and statements:

Types: S scalar α · V vector `List α` · M matrix `List (List α)` · L list of weight vectors (`self.W`) · N `Nat` ·
       ON `Optional[int]` · C / R a vector viewed as a column / row (`reshape((-1,1))` / `reshape((1,-1))`) ·
       P pair of vectors · LP list of pairs

  Python construct                                    Lean rendering
  --------------------------------------------------  ------------------------------------------------------------
  v.reshape((a, b))            (V, a b : N)           Art.Mat.reshape a b v                                   : M
  v.reshape((-1, 1)) / v.reshape((1, -1))  (V)        v, typed C / R   (as a matrix argument: rows [t] / the row [v])
  m.reshape((-1,))  /  m.flatten()   (M)              List.flatten m                                          : V
  c * r                        (C, R)                 Art.Mat.outer c r                                       : M
  np.outer(u, v)               (V, V)                 Art.Mat.outer u v                                       : M
  s * m                        (S, M)                 Art.Mat.smul s m                                        : M
  a + b                        (M, M)                 Art.Mat.add a b                                         : M
  np.matmul(m, v) / np.dot     (M, V)                 Art.Mat.mulVec m v                                      : V
  v.T                          (V)                    v   (transposing a rank-1 array is the identity; DROPPED)
  np.linalg.inv(m) / np.linalg.det(m)                 inv m / det m      — binders `inv`, `det` (not translated)
  np.pi                                               binder `pi : α`
  np.identity(n)               (N)                    Art.Mat.identity n                                      : M
  self.<const>  (class-level `<const> = e`)           (<const> <its binders>): the assignment is translated to a def
  a ** n                       (S, N)                 a ^ n
  len(v), len(self.W[0])                              List.length v, List.length (List.headD allW [])         : N
  int(len(w) / k), a // k      (N, literal k > 0)     a / k  (natural division: truncation of a non-negative quotient)
  i + n, a * b                 (N, N)                 i + n, a * b
  w[i]                         (V, N)                 List.getD w i 0         (in range under the function's assert)
  self.W                                              binder `allW`                                           : L
  [e for w in self.W] / list(map(lambda w: e, self.W))   List.map (fun w_ => e) allW
  params["cov_init"]                                  binder `p_cov_init : List (List α)`
  cache["k"]                                          binder `c_k`, typed as the entry that category_choice writes
  self.update(i, w, params, cache)                    (update <binders of the generated update>)
  self.restore_data(x)                                restore_data x  — binder (translated by ptrans.py: Gen.Prep.FuzzyART.restore_data)
  get_bounding_box(w, n=n)                            (get_bounding_box w_ n_)   the translated module function
  statements
  x = e                                               let x_ := e
  x = []                                              let x_ := []
  x.append(e)           (x a local list)              let x_ := x_ ++ [e]
  cache = {"k": e, …}  /  cache["k"] = e              one definition `<fn>_cache_k` per entry (same binders, same lets)
  if "k" in cache: return cache["k"]                  match c_k with | some v__ => v__ | none => <rest>   (c_k : Option _)
  if n is None: n = e        (n : ON)                 let n_ := match n_ with | some v__ => v__ | none => e
  for v in range(n) / for w in self.W: body           let (carried) := List.foldl (fun (carried) v_ => body; (carried)) (carried) (List.range n / allW)
  y = np.copy(x)                                      let y_ := x_          — and y is marked *fresh*
  y[a:b] += e / y[:b] += e / y[a:] += e  (y fresh)    let y_ := Art.Mat.sliceAdd y_ a (some b) e   (… 0 (some b) … / … a none …)
  self.W = e ; return self   (only in a MUTATOR)      the function returns e: the new value of `self.W`
  return e  /  return e, cache  /  return a, b        e  /  e  /  (a, b)

Binder names are part of the statement: a hyper-parameter `params["k"]` is the binder `p_k`, a cache entry `cache["k"]` the
binder `c_k`, and the spec passes them **by name** — reading another key renames the binder and breaks the proof.

Purity is part of the shape: in every function that is not listed in MUTATORS a store to `self.<attr>` and, in every
function, an in-place write (`x[...] = e`, `x[...] += e`, `x += e`, `x.append(e)`) into an argument, into `self.W[...]`,
into `params[...]` or into a local that merely *aliases* one (`cov = w[...]`; only `np.copy` makes a local fresh) raises
`Unsupported`.  The one exception is the scratch dictionary `cache`, whose entries are outputs of the kernel.
"""
from __future__ import annotations

import ast
import os
import sys
import types as _types
from pathlib import Path

from . import ktrans
from .ktrans import Unsupported, VERIF, find_function, lean_name, is_none_test

FILES = {
    "BayesianART": "artlib/elementary/BayesianART.py",
    "QuadraticNeuronART": "artlib/elementary/QuadraticNeuronART.py",
    "FuzzyART": "artlib/elementary/FuzzyART.py",
    "ART1": "artlib/elementary/ART1.py",
    "ART2A": "artlib/elementary/ART2.py",
    "HypersphereART": "artlib/elementary/HypersphereART.py",
    "EllipsoidART": "artlib/elementary/EllipsoidART.py",
    "GaussianART": "artlib/elementary/GaussianART.py",
}
# translated in this order (a callee before its caller)
FUNCS = {
    "BayesianART": ["category_choice", "update", "match_criterion", "new_weight", "get_cluster_centers"],
    "QuadraticNeuronART": ["category_choice", "match_criterion", "update", "new_weight", "get_cluster_centers"],
    "FuzzyART": ["get_bounding_boxes", "get_cluster_centers", "shrink_clusters"],
    "ART1": ["get_cluster_centers"],
    "ART2A": ["get_cluster_centers"],
    "HypersphereART": ["get_cluster_centers"],
    "EllipsoidART": ["get_cluster_centers"],
    "GaussianART": ["get_cluster_centers"],
}
MODULE_FUNCS = {"FuzzyART": ["get_bounding_box"]}     # module-level functions, translated before the class
MUTATORS = {("FuzzyART", "shrink_clusters")}           # the only functions that may store to `self.W`

DROPPED = {
    "docstrings": "a string expression statement has no effect",
    "assert statements": "`assert cache is not None`, `assert n <= n_`: they guard the contract; the theorems carry the "
                         "contract as a hypothesis where it matters (bounding box: n ≤ len(w)/2)",
    "`if cache is None: raise …`": "the None cache is outside the kernels' contract (same rule as ktrans)",
    "the second component of `return value, cache`": "the cache entries are separate definitions `<fn>_cache_<key>`",
    "v.T of a rank-1 array": "numpy: transposing a one-dimensional array returns it unchanged",
    "np.copy(x)": "arrays are values in the target language; the copy only marks the local as fresh (in-place writes allowed)",
    "list(...) around map(...)": "a list is a list",
    "type annotations, default values of `cache` / `op`": "not part of what the function computes",
    "float rounding": "arithmetic is exact in the target (ordered field); IEEE rounding is measured by the C03 check, not proved",
    "IndexError of self.W[0] on an empty W, of w[i] out of range": "total renderings (`headD … []`, `getD … 0`); outside the contract",
}

ARG_TYPES = {"i": "V", "w": "V", "n": "ON", "shrink_ratio": "S"}
SKIP_ARGS = {"self", "params", "cache"}
MATRIX_PARAMS = {"cov_init"}
LEAN_TY = {"S": "α", "V": "List α", "M": "List (List α)", "L": "List (List α)", "N": "Nat", "ON": "Option Nat",
           "P": "List α × List α", "LP": "List (List α × List α)"}
ENV_ORDER = ["sqrt", "exp", "det", "inv", "pi", "restore_data", "allW", "dim", "dimOriginal"]
ENV_TY = {"sqrt": "α → α", "exp": "α → α", "det": "List (List α) → α", "inv": "List (List α) → List (List α)", "pi": "α",
          "restore_data": "List (List α) → List (List α)", "allW": "List (List α)", "dim": "Nat", "dimOriginal": "Nat"}


class Ctx(ktrans.Ctx):
    def __init__(self, cls, fn, tree, cache_types, sigs, consts):
        super().__init__(cls, fn)
        self.tree = tree
        self.cache_types: dict[str, str] = cache_types     # entries written by category_choice / match_criterion of the class
        self.sigs = sigs                                   # generated functions of the class: name -> (binders, python params, type)
        self.consts = consts                               # class constants already translated: name -> binders
        self.env: list[str] = []                           # det / inv / pi / restore_data
        self.mat_params: list[str] = []
        self.cache_typed: dict[str, str] = {}              # cache keys read, with type
        self.cache_opt: dict[str, str | None] = {}         # keys tested with `"k" in cache`
        self.cache_store: dict[str, tuple[str, str, list[str]]] = {}
        self.fresh: set[str] = set()                       # locals bound by np.copy
        self.aliases: set[str] = set()                     # locals that may alias an argument (bound to a view)
        self.locals: set[str] = set()
        self.args: list[str] = []
        self.straight = True                               # no match / loop emitted so far
        self.const_defs: list[str] = []

    def use(self, b):
        if b not in self.env:
            self.env.append(b)


# --------------------------------------------------------------------------- ktrans' translator with open recursion

def _rebind(fn):
    g = dict(ktrans.__dict__)
    g["tr_expr"] = lambda e, c: tr_expr(e, c)
    g["tr_cond"] = lambda e, c: tr_cond(e, c)
    return _types.FunctionType(fn.__code__, g, fn.__name__, fn.__defaults__, fn.__closure__)


_kt_expr = _rebind(ktrans.tr_expr)
_kt_cond = _rebind(ktrans.tr_cond)


def tr_cond(e, c):
    return _kt_cond(e, c)


def _is_int(e, v=None):
    return isinstance(e, ast.Constant) and isinstance(e.value, int) and not isinstance(e.value, bool) and (v is None or e.value == v)


def _is_neg1(e):
    return isinstance(e, ast.UnaryOp) and isinstance(e.op, ast.USub) and _is_int(e.operand, 1)


def as_mat(t, ty):
    if ty in ("M", "L"):
        return t
    if ty == "R":
        return f"[{t}]"
    if ty == "C":
        return f"(List.map (fun t__ => [t__]) {t})"
    raise Unsupported(f"a matrix is required, got type {ty}")


def nat_expr(e, c) -> str | None:
    """natural-number expressions that ktrans does not have: len(…), int(len(w) / k), a // k, i + n (both N)"""
    if isinstance(e, ast.Call) and ast.unparse(e.func) == "len" and len(e.args) == 1 and not e.keywords:
        t, ty = tr_expr(e.args[0], c)
        if ty not in ("V", "L"):
            raise Unsupported("len of a non-list")
        return f"(List.length {t})"
    if isinstance(e, ast.Call) and ast.unparse(e.func) == "int" and len(e.args) == 1 and not e.keywords:
        a = e.args[0]
        if isinstance(a, ast.BinOp) and isinstance(a.op, ast.Div) and _is_int(a.right) and a.right.value > 0:
            l = nat_expr(a.left, c)
            if l is not None:
                return f"({l} / {a.right.value})"
        raise Unsupported(f"int(…) of {ast.unparse(a)}")
    if isinstance(e, ast.BinOp) and isinstance(e.op, ast.FloorDiv) and _is_int(e.right) and e.right.value > 0:
        l = nat_expr(e.left, c)
        if l is None:
            t, ty = tr_expr(e.left, c)
            l = t if ty == "N" else None
        if l is None:
            raise Unsupported("// on a non-natural")
        return f"({l} / {e.right.value})"
    if isinstance(e, ast.BinOp) and isinstance(e.op, (ast.Add, ast.Mult)) and not isinstance(e.left, ast.Constant) \
            and not isinstance(e.right, ast.Constant):
        try:
            (a, ta), (b, tb) = tr_expr(e.left, c), tr_expr(e.right, c)
        except Unsupported:
            return None
        if ta == "N" and tb == "N":
            return f"({a} {'+' if isinstance(e.op, ast.Add) else '*'} {b})"
    return None


def tr_expr(e: ast.AST, c: Ctx) -> tuple[str, str]:
    n = nat_expr(e, c)
    if n is not None:
        return n, "N"
    if isinstance(e, ast.Attribute):
        u = ast.unparse(e)
        if u == "np.pi":
            c.use("pi")
            return "pi", "S"
        if u == "self.W":
            c.uses_allW = True
            return "allW", "L"
        if isinstance(e.value, ast.Name) and e.value.id == "self" and e.attr not in ("dim_", "dim_original"):
            return class_const(e.attr, c), "S"
        if e.attr == "T":
            t, ty = tr_expr(e.value, c)
            if ty != "V":
                raise Unsupported(".T of a non-vector")
            return t, "V"
        return _kt_expr(e, c)
    if isinstance(e, ast.Subscript):
        base = e.value
        if isinstance(base, ast.Name) and base.id == "params" and isinstance(e.slice, ast.Constant) and e.slice.value in MATRIX_PARAMS:
            k = e.slice.value
            if k not in c.mat_params:
                c.mat_params.append(k)
            return lean_name(k), "M"
        if isinstance(base, ast.Name) and base.id == "cache":
            k = e.slice.value if isinstance(e.slice, ast.Constant) else None
            if not isinstance(k, str):
                raise Unsupported("cache subscript")
            if k not in c.cache_types:
                raise Unsupported(f"cache['{k}'] is read but {c.cls}.category_choice does not write it")
            c.cache_typed[k] = c.cache_types[k]
            return "c_" + k, c.cache_types[k]
        if isinstance(base, ast.Name) and base.id == "params":
            return _kt_expr(e, c)
        if not isinstance(e.slice, (ast.Slice, ast.UnaryOp)):
            v, tv = tr_expr(base, c)
            if tv == "L" and _is_int(e.slice, 0):
                return f"(List.headD {v} [])", "V"
            i, ti = tr_expr(e.slice, c)
            if tv == "V" and ti == "N":
                return f"(List.getD {v} {i} 0)", "S"
            raise Unsupported(f"index form {ast.unparse(e)}")
        return _kt_expr(e, c)
    if isinstance(e, ast.BinOp):
        (a, ta), (b, tb) = tr_expr(e.left, c), tr_expr(e.right, c)
        if isinstance(e.op, ast.Pow) and ta == "S" and tb == "N":
            return f"({a} ^ {b})", "S"
        if {ta, tb} & {"M", "C", "R", "L"}:
            if isinstance(e.op, ast.Mult) and (ta, tb) == ("C", "R"):
                return f"(Art.Mat.outer {a} {b})", "M"
            if isinstance(e.op, ast.Mult) and (ta, tb) == ("S", "M"):
                return f"(Art.Mat.smul {a} {b})", "M"
            if isinstance(e.op, ast.Add) and (ta, tb) == ("M", "M"):
                return f"(Art.Mat.add {a} {b})", "M"
            raise Unsupported(f"operator {type(e.op).__name__} on types {ta}, {tb}")
        return _kt_expr(e, c)
    if isinstance(e, ast.ListComp):
        if len(e.generators) != 1 or e.generators[0].ifs or not isinstance(e.generators[0].target, ast.Name):
            raise Unsupported("comprehension form")
        return tr_map(e.generators[0].target.id, e.elt, e.generators[0].iter, c)
    if isinstance(e, ast.List) and not e.elts:
        return "[]", "E"
    if isinstance(e, ast.Call):
        f = ast.unparse(e.func)
        if isinstance(e.func, ast.Attribute) and e.func.attr == "reshape":
            if len(e.args) != 1 or e.keywords or not isinstance(e.args[0], ast.Tuple):
                raise Unsupported("reshape form")
            t, ty = tr_expr(e.func.value, c)
            sh = e.args[0].elts
            if ty == "V" and len(sh) == 2 and _is_neg1(sh[0]) and _is_int(sh[1], 1):
                return t, "C"
            if ty == "V" and len(sh) == 2 and _is_int(sh[0], 1) and _is_neg1(sh[1]):
                return t, "R"
            if ty in ("M", "L") and len(sh) == 1 and _is_neg1(sh[0]):
                return f"(List.flatten {t})", "V"
            if ty == "V" and len(sh) == 2:
                (a, ta), (b, tb) = tr_expr(sh[0], c), tr_expr(sh[1], c)
                if ta == "N" and tb == "N":
                    return f"(Art.Mat.reshape {a} {b} {t})", "M"
            raise Unsupported(f"reshape {ast.unparse(e)}")
        if isinstance(e.func, ast.Attribute) and e.func.attr == "flatten":
            if e.args or e.keywords:
                raise Unsupported("flatten arguments")
            t, ty = tr_expr(e.func.value, c)
            if ty != "M":
                raise Unsupported("flatten of a non-matrix")
            return f"(List.flatten {t})", "V"
        if f in ("np.matmul", "np.dot") and len(e.args) == 2 and not e.keywords:
            (a, ta), (b, tb) = tr_expr(e.args[0], c), tr_expr(e.args[1], c)
            if (ta, tb) == ("M", "V"):
                return f"(Art.Mat.mulVec {a} {b})", "V"
            return _kt_expr(e, c)
        if f in ("np.linalg.inv", "np.linalg.det", "np.outer", "np.identity"):
            if e.keywords:
                raise Unsupported(f"{f} keywords")
            args = [tr_expr(a, c) for a in e.args]
            tys = [t for _, t in args]
            if f == "np.linalg.inv" and tys == ["M"]:
                c.use("inv")
                return f"(inv {args[0][0]})", "M"
            if f == "np.linalg.det" and tys == ["M"]:
                c.use("det")
                return f"(det {args[0][0]})", "S"
            if f == "np.outer" and tys == ["V", "V"]:
                return f"(Art.Mat.outer {args[0][0]} {args[1][0]})", "M"
            if f == "np.identity" and tys == ["N"]:
                return f"(Art.Mat.identity {args[0][0]})", "M"
            raise Unsupported(f"{f} on types {tys}")
        if f == "np.copy" and len(e.args) == 1 and not e.keywords:
            return tr_expr(e.args[0], c)
        if f == "self.restore_data":
            if len(e.args) != 1 or e.keywords:
                raise Unsupported("restore_data form")
            t, ty = tr_expr(e.args[0], c)
            c.use("restore_data")
            return f"(restore_data {as_mat(t, ty)})", "M"
        if isinstance(e.func, ast.Attribute) and isinstance(e.func.value, ast.Name) and e.func.value.id == "self" \
                and e.func.attr in c.sigs:
            return call_generated(e.func.attr, e, c, method=True)
        if isinstance(e.func, ast.Name) and e.func.id in c.sigs:
            return call_generated(e.func.id, e, c, method=False)
        if f == "list" and len(e.args) == 1 and not e.keywords:
            t, ty = tr_expr(e.args[0], c)
            if ty not in ("L", "LP"):
                raise Unsupported("list(…) of a non-list")
            return t, ty
        if f == "map" and len(e.args) == 2 and not e.keywords and isinstance(e.args[0], ast.Lambda):
            lam = e.args[0]
            if len(lam.args.args) != 1 or lam.args.defaults or lam.args.kwonlyargs or lam.args.vararg or lam.args.kwarg:
                raise Unsupported("lambda form")
            return tr_map(lam.args.args[0].arg, lam.body, e.args[1], c)
        return _kt_expr(e, c)
    return _kt_expr(e, c)


def tr_map(var: str, elt: ast.AST, it: ast.AST, c: Ctx) -> tuple[str, str]:
    xs, tx = tr_expr(it, c)
    if tx != "L":
        raise Unsupported("iteration over something that is not self.W")
    saved = c.types.get(var)
    c.types[var] = "V"
    el, tel = tr_expr(elt, c)
    if saved is None:
        del c.types[var]
    else:
        c.types[var] = saved
    out = {"V": "L", "P": "LP"}.get(tel)
    if out is None:
        raise Unsupported(f"list of elements of type {tel}")
    return f"(List.map (fun {var}_ => {el}) {xs})", out


def class_const(name: str, c: Ctx) -> str:
    """`self.<name>` where the class body has `<name> = <expression>`: the assignment becomes a definition"""
    if name not in c.consts:
        val = None
        for node in c.tree.body:
            if isinstance(node, ast.ClassDef) and node.name == c.cls:
                for s in node.body:
                    if isinstance(s, ast.Assign) and len(s.targets) == 1 and isinstance(s.targets[0], ast.Name) \
                            and s.targets[0].id == name:
                        if val is not None:
                            raise Unsupported(f"class constant {name} assigned twice")
                        val = s.value
        if val is None:
            raise Unsupported(f"attribute self.{name}")
        cc = Ctx(c.cls, name, c.tree, {}, {}, c.consts)
        t, ty = tr_expr(val, cc)
        if ty != "S" or cc.params or cc.uses_dim or cc.uses_allW or cc.uses_sqrt or cc.uses_exp:
            raise Unsupported(f"class constant {name}")
        c.consts[name] = list(cc.env)
        sig = " ".join(f"({b} : {ENV_TY[b]})" for b in cc.env)
        c.const_defs.append(f"/-- generated from the class constant `{c.cls}.{name} = {ast.unparse(val)}` -/\n"
                            f"def {name} {sig} : α :=\n  {t}\n")
    for b in c.consts[name]:
        c.use(b)
    return "(" + " ".join([name] + c.consts[name]) + ")"


def call_generated(name: str, e: ast.Call, c: Ctx, method: bool) -> tuple[str, str]:
    binders, pyparams, rty = c.sigs[name]
    # positional arguments must be the caller's own variables of the same names; keywords `k=k` likewise
    given = {}
    for p, a in zip(pyparams, e.args):
        given[p] = a
    for kw in e.keywords:
        if kw.arg is None or kw.arg in given or kw.arg not in pyparams:
            raise Unsupported(f"call of {name}: keyword {kw.arg}")
        given[kw.arg] = kw.value
    if len(e.args) > len(pyparams) or set(given) != set(pyparams):
        raise Unsupported(f"call of {name}: arguments {sorted(given)} for parameters {pyparams}")
    out = []
    for b, kind, ty in binders:
        if kind == "arg":
            a = given[b[:-1]]
            t, ta = tr_expr(a, c)
            if ta != ty:
                raise Unsupported(f"call of {name}: argument {b[:-1]} has type {ta}, expected {ty}")
            out.append(t)
        elif kind == "env":
            if b in ("allW",):
                c.uses_allW = True
            elif b == "dim":
                c.uses_dim = True
            elif b == "dimOriginal":
                c.uses_dim_original = True
            elif b == "sqrt":
                c.uses_sqrt = True
            elif b == "exp":
                c.uses_exp = True
            else:
                c.use(b)
            out.append(b)
        elif kind == "param":
            if b[2:] not in c.params:
                c.params.append(b[2:])
            out.append(b)
        elif kind == "matparam":
            if b[2:] not in c.mat_params:
                c.mat_params.append(b[2:])
            out.append(b)
        elif kind == "cache":
            c.cache_typed[b[2:]] = ty
            out.append(b)
        elif kind == "cacheopt":
            c.cache_opt[b[2:]] = ty
            out.append(b)
        else:
            raise Unsupported(f"binder kind {kind}")
    for p in pyparams:
        if p in ("params", "cache"):
            a = given[p]
            if not (isinstance(a, ast.Name) and a.id == p):
                raise Unsupported(f"call of {name}: `{p}` must be passed through unchanged")
    return "(" + " ".join([name] + out) + ")", rty


# --------------------------------------------------------------------------- statements

def _purity(c: Ctx, what: str):
    raise Unsupported(f"{c.cls}.{c.fn}: {what} — the kernel functions and accessors must not modify the model or their arguments")


def _root(e: ast.AST):
    while isinstance(e, (ast.Subscript, ast.Attribute)):
        e = e.value
    return e


class Block:
    def __init__(self, indent="  "):
        self.lines: list[str] = []
        self.indent = indent

    def add(self, s):
        self.lines.append(s)

    def text(self, result):
        return ("\n" + self.indent).join(self.lines + [result])


def assigned_names(stmts) -> list[str]:
    out = []
    for s in stmts:
        for n in ast.walk(s):
            t = None
            if isinstance(n, ast.Assign) and len(n.targets) == 1:
                t = n.targets[0]
            elif isinstance(n, ast.AugAssign):
                t = n.target
            elif isinstance(n, ast.Expr) and isinstance(n.value, ast.Call) and isinstance(n.value.func, ast.Attribute) \
                    and n.value.func.attr == "append":
                t = n.value.func.value
            if t is not None:
                r = _root(t)
                if isinstance(r, ast.Name) and r.id not in out:
                    out.append(r.id)
    return out


def tr_stmts(stmts: list[ast.stmt], c: Ctx, b: Block, in_loop=False):
    """appends the lets of `stmts` to `b`; returns (result text, type) at a `return`, None when the block falls through"""
    for k, s in enumerate(stmts):
        rest = stmts[k + 1:]
        if isinstance(s, ast.Expr) and isinstance(s.value, ast.Constant) and isinstance(s.value.value, str):
            continue                                                  # docstring
        if isinstance(s, ast.Assert):
            continue                                                  # DROPPED
        if isinstance(s, ast.If) and is_none_test(s.test):
            if len(s.body) == 1 and isinstance(s.body[0], ast.Raise) and not s.orelse:
                continue                                              # DROPPED
            nm = s.test.left
            if (isinstance(nm, ast.Name) and c.types.get(nm.id) == "ON" and len(s.body) == 1 and not s.orelse
                    and isinstance(s.body[0], ast.Assign) and len(s.body[0].targets) == 1
                    and isinstance(s.body[0].targets[0], ast.Name) and s.body[0].targets[0].id == nm.id):
                v, tv = tr_expr(s.body[0].value, c)
                if tv != "N":
                    raise Unsupported("default of an Optional[int]")
                b.add(f"let {nm.id}_ := (match {nm.id}_ with | some v__ => v__ | none => {v})")
                c.types[nm.id] = "N"
                c.locals.add(nm.id)
                continue
            raise Unsupported(f"`is None` form: {ast.unparse(s)[:60]}")
        if isinstance(s, ast.If):
            t = s.test
            if (isinstance(t, ast.Compare) and len(t.ops) == 1 and isinstance(t.ops[0], ast.In) and isinstance(t.left, ast.Constant)
                    and isinstance(t.left.value, str) and isinstance(t.comparators[0], ast.Name) and t.comparators[0].id == "cache"
                    and not s.orelse and len(s.body) == 1 and isinstance(s.body[0], ast.Return)
                    and ast.unparse(s.body[0].value) == f"cache[{t.left.value!r}]" and not in_loop):
                key = t.left.value
                c.straight = False
                inner = Block(b.indent + "  ")
                r = tr_stmts(rest, c, inner)
                if r is None:
                    raise Unsupported("block without return")
                c.cache_opt[key] = r[1]
                return (f"match c_{key} with\n{b.indent}| some v__ => v__\n{b.indent}| none =>\n{inner.indent}" + inner.text(r[0])), r[1]
            raise Unsupported(f"if form: {ast.unparse(s.test)}")
        if isinstance(s, ast.Assign):
            if len(s.targets) != 1:
                raise Unsupported("multiple assignment targets")
            tgt = s.targets[0]
            if isinstance(tgt, ast.Attribute):
                if ast.unparse(tgt) == "self.W" and (c.cls, c.fn) in MUTATORS and not in_loop:
                    if not (len(rest) == 1 and isinstance(rest[0], ast.Return) and ast.unparse(rest[0].value) == "self"):
                        raise Unsupported(f"{c.cls}.{c.fn}: `self.W = …` must be followed by `return self`")
                    v, tv = tr_expr(s.value, c)
                    if tv != "L":
                        raise Unsupported("self.W = a non-list")
                    return v, "L"
                _purity(c, f"store to `{ast.unparse(tgt)}`")
            if isinstance(tgt, ast.Subscript):
                if isinstance(tgt.value, ast.Name) and tgt.value.id == "cache" and isinstance(tgt.slice, ast.Constant) \
                        and isinstance(tgt.slice.value, str) and not in_loop:
                    if not c.straight:
                        raise Unsupported("cache store after a branch")
                    v, tv = tr_expr(s.value, c)
                    c.cache_store[tgt.slice.value] = (v, tv, list(b.lines))
                    continue
                _purity(c, f"in-place write `{ast.unparse(tgt)} = …`")
            if not isinstance(tgt, ast.Name):
                raise Unsupported("assignment target")
            name = tgt.id
            if name in c.args or name in ("params", "self"):
                raise Unsupported(f"re-binding of the argument {name}")
            if name == "cache":
                if not (isinstance(s.value, ast.Dict) and c.straight and not in_loop):
                    raise Unsupported("cache = <not a dict literal>")
                for kk, vv in zip(s.value.keys, s.value.values):
                    if not (isinstance(kk, ast.Constant) and isinstance(kk.value, str)):
                        raise Unsupported("cache key")
                    v, tv = tr_expr(vv, c)
                    c.cache_store[kk.value] = (v, tv, list(b.lines))
                continue
            v, tv = tr_expr(s.value, c)
            if tv in ("C", "R"):
                raise Unsupported("a column / row view bound to a name")
            c.types[name] = tv
            c.locals.add(name)
            c.fresh.discard(name)
            if isinstance(s.value, ast.Call) and ast.unparse(s.value.func) == "np.copy":
                c.fresh.add(name)
            if isinstance(s.value, ast.List) and not s.value.elts:
                c.fresh.add(name)                                     # a new empty list
            b.add(f"let {name}_ := {v}")
            continue
        if isinstance(s, ast.AugAssign):
            tgt = s.target
            r = _root(tgt)
            if not (isinstance(r, ast.Name) and r.id in c.fresh and r.id in c.locals):
                _purity(c, f"in-place `{ast.unparse(tgt)} {type(s.op).__name__}= …` on something that is not a fresh local copy")
            if not (isinstance(tgt, ast.Subscript) and isinstance(tgt.value, ast.Name) and isinstance(tgt.slice, ast.Slice)
                    and tgt.slice.step is None and isinstance(s.op, ast.Add) and c.types.get(r.id) == "V"):
                raise Unsupported(f"augmented assignment form {ast.unparse(s)[:60]}")
            lo, hi = "0", "none"
            if tgt.slice.lower is not None:
                lo, tl = tr_expr(tgt.slice.lower, c)
                if tl != "N":
                    raise Unsupported("slice bound")
            if tgt.slice.upper is not None:
                h, th = tr_expr(tgt.slice.upper, c)
                if th != "N":
                    raise Unsupported("slice bound")
                hi = f"(some {h})"
            v, tv = tr_expr(s.value, c)
            if tv != "V":
                raise Unsupported("slice += non-vector")
            b.add(f"let {r.id}_ := (Art.Mat.sliceAdd {r.id}_ {lo} {hi} {v})")
            continue
        if isinstance(s, ast.Expr):
            call = s.value
            if (isinstance(call, ast.Call) and isinstance(call.func, ast.Attribute) and call.func.attr == "append"
                    and len(call.args) == 1 and not call.keywords):
                r = call.func.value
                if not (isinstance(r, ast.Name) and r.id in c.fresh and r.id in c.locals):
                    _purity(c, f"`{ast.unparse(call.func)}(…)` on something that is not a list created in the function")
                v, tv = tr_expr(call.args[0], c)
                want = {"S": "V", "V": "L"}.get(tv)
                have = c.types[r.id]
                if want is None or have not in ("E", want):
                    raise Unsupported(f"append of a {tv} to a {have}")
                c.types[r.id] = want
                b.add(f"let {r.id}_ := ({r.id}_ ++ [{v}])")
                continue
            raise Unsupported(f"expression statement {ast.unparse(s)[:60]}")
        if isinstance(s, ast.For):
            if s.orelse or not isinstance(s.target, ast.Name) or in_loop:
                raise Unsupported("for form")
            it = s.iter
            if isinstance(it, ast.Call) and ast.unparse(it.func) == "range" and len(it.args) == 1 and not it.keywords:
                n, tn = tr_expr(it.args[0], c)
                if tn != "N":
                    raise Unsupported("range of a non-natural")
                xs, tvar = f"(List.range {n})", "N"
            else:
                xs, tx = tr_expr(it, c)
                if tx != "L":
                    raise Unsupported("iteration over something that is not self.W")
                tvar = "V"
            carried = [v for v in assigned_names(s.body) if v in c.locals]
            if not carried:
                raise Unsupported("loop without effect")
            c.straight = False
            var = s.target.id
            saved_types, saved_locals, saved_fresh = dict(c.types), set(c.locals), set(c.fresh)
            c.types[var] = tvar
            inner = Block(b.indent + "    ")
            if tr_stmts(s.body, c, inner, in_loop=True) is not None:
                raise Unsupported("return inside a loop")
            tup = "(" + ", ".join(v + "_" for v in carried) + ")" if len(carried) > 1 else carried[0] + "_"
            new_types = {v: c.types[v] for v in carried}
            # a second pass with the types the carried lists have after one iteration (an empty list gets its element type)
            c.types = dict(saved_types)
            c.types.update(new_types)
            c.types[var] = tvar
            c.locals, c.fresh = set(saved_locals), set(saved_fresh)
            inner = Block(b.indent + "    ")
            tr_stmts(s.body, c, inner, in_loop=True)
            if {v: c.types[v] for v in carried} != new_types:
                raise Unsupported("loop-carried variable changes type")
            c.types = dict(saved_types)
            c.types.update(new_types)
            c.locals, c.fresh = saved_locals, saved_fresh
            b.add(f"let {tup} := List.foldl (fun {tup} {var}_ =>\n{inner.indent}" + inner.text(tup) + f") {tup} {xs}")
            continue
        if isinstance(s, ast.Return):
            if in_loop:
                raise Unsupported("return inside a loop")
            v = s.value
            if isinstance(v, ast.Tuple) and len(v.elts) == 2:
                if isinstance(v.elts[1], ast.Name) and v.elts[1].id == "cache":
                    return tr_expr(v.elts[0], c)                      # (value, cache)
                (a, ta), (b2, tb) = tr_expr(v.elts[0], c), tr_expr(v.elts[1], c)
                if (ta, tb) != ("V", "V"):
                    raise Unsupported("returned pair")
                return f"({a}, {b2})", "P"
            t, ty = tr_expr(v, c)
            if ty in ("C", "R", "E"):
                raise Unsupported("returned view")
            return t, ty
        raise Unsupported(f"statement {type(s).__name__}: {ast.unparse(s)[:60]}")
    return None


def translate_function(cls: str, fn: str, f: ast.FunctionDef, tree, cache_types, sigs, consts, method=True):
    c = Ctx(cls, fn, tree, cache_types, sigs, consts)
    pyparams = []
    for a in f.args.args:
        if a.arg in SKIP_ARGS:
            if a.arg != "self":
                pyparams.append(a.arg)
            continue
        if a.arg not in ARG_TYPES:
            raise Unsupported(f"{cls}.{fn}: parameter {a.arg}")
        c.types[a.arg] = ARG_TYPES[a.arg]
        c.args.append(a.arg)
        pyparams.append(a.arg)
    if f.args.vararg or f.args.kwarg or f.args.kwonlyargs:
        raise Unsupported(f"{cls}.{fn}: parameter list")
    arg_types = {a: c.types[a] for a in c.args}
    b = Block()
    r = tr_stmts(f.body, c, b)
    if r is None:
        raise Unsupported(f"{cls}.{fn}: block without return")
    body, ty = b.text(r[0]), r[1]
    # binders, canonical order
    flags = {"sqrt": c.uses_sqrt, "exp": c.uses_exp, "allW": c.uses_allW, "dim": c.uses_dim, "dimOriginal": c.uses_dim_original}
    binders = [(e, "env", ENV_TY[e]) for e in ENV_ORDER if flags.get(e) or e in c.env]
    binders += [(lean_name(k), "param", "S") for k in c.params]
    if c.vec_params:
        raise Unsupported("vector hyper-parameter")
    binders += [(lean_name(k), "matparam", "M") for k in c.mat_params]
    binders += [("c_" + k, "cache", t) for k, t in c.cache_typed.items()]
    binders += [("c_" + k, "cacheopt", t) for k, t in c.cache_opt.items()]
    binders += [(a + "_", "arg", arg_types[a]) for a in c.args]

    def bty(kind, t):
        if kind == "env":
            return t
        if kind == "cacheopt":
            return f"Option ({LEAN_TY[t]})"
        return LEAN_TY[t]
    sig = " ".join(f"({n} : {bty(k, t)})" for n, k, t in binders)
    out = list(c.const_defs)
    out += [f"/-- generated from `{cls}.{fn}`; arguments: {sig} -/",
            f"def {fn} {sig} : {LEAN_TY[ty]} :=\n  {body}\n"]
    for k, (expr, t, lets) in c.cache_store.items():
        out.append(f"/-- cache entry `{k}` written by `{cls}.{fn}` -/\n"
                   f"def {fn}_cache_{k} {sig} : {LEAN_TY[t]} :=\n  " + "\n  ".join(lets + [expr]) + "\n")
    sigs[fn] = (binders, pyparams, ty)
    for k, (_, t, _) in c.cache_store.items():
        if k in c.cache_opt and c.cache_opt[k] != t:
            raise Unsupported(f"cache['{k}'] is stored with type {t} but read with type {c.cache_opt[k]}")
    return "\n".join(out), {k: t for k, (_, t, _) in c.cache_store.items()}, dict(c.cache_opt)


def find_module_function(tree: ast.Module, fn: str) -> ast.FunctionDef:
    for node in tree.body:
        if isinstance(node, ast.FunctionDef) and node.name == fn:
            return node
    raise Unsupported(f"module function {fn} not found")


HEADER = ["/-",
          "GENERATED by harness/artv/k2trans.py from the Python sources of artlib — do not edit.",
          "Regenerated on every run of the checks that name it; `ArtGenProofs/Kernels2Spec.lean` proves each definition equal",
          "to the published rule in `ArtModel/Kernels2.lean` / the accessor definitions of `ArtModel/Kernels.lean` for all arguments.",
          "-/",
          "import Mathlib.Algebra.Order.Field.Basic",
          "import ArtModel.Kernels",
          "import ArtModel.ImpKernels2",
          "",
          "set_option linter.unusedVariables false",
          "",
          "namespace Art.Gen2",
          ""]


def generate(repo: Path) -> str:
    repo = Path(repo)
    chunks = list(HEADER)
    for cls, rel in FILES.items():
        tree = ast.parse((repo / rel).read_text())
        chunks += [f"namespace {cls}", "", "variable {α : Type} [Field α] [LinearOrder α] [IsStrictOrderedRing α]", ""]
        cache_types: dict[str, str] = {}
        opt_read: dict[str, str] = {}
        sigs: dict = {}
        consts: dict = {}
        for fn in MODULE_FUNCS.get(cls, []):
            text, _, _ = translate_function(cls, fn, find_module_function(tree, fn), tree, cache_types, sigs, consts, method=False)
            chunks.append(text)
        for fn in FUNCS[cls]:
            text, stored, opt = translate_function(cls, fn, find_function(tree, cls, fn), tree, cache_types, sigs, consts)
            for k, t in stored.items():
                if cache_types.get(k, t) != t or opt_read.get(k, t) != t:
                    raise Unsupported(f"{cls}: cache['{k}'] has two types")
                cache_types[k] = t
            opt_read.update(opt)
            chunks.append(text)
        for k in opt_read:
            if k not in cache_types:
                raise Unsupported(f"{cls}: `'{k}' in cache` is tested but no translated function stores it")
        chunks += [f"end {cls}", ""]
    chunks += ["end Art.Gen2", ""]
    return "\n".join(chunks)


def write(repo: Path = None) -> tuple[bool, str]:
    repo = Path(repo or os.environ.get("VERIF_REPO", "/repo"))
    out = VERIF / "lean" / "ArtGen" / "Kernels2.lean"
    try:
        text = generate(repo)
    except (Unsupported, SyntaxError, KeyError, AttributeError, TypeError, IndexError, ValueError, OSError) as e:
        return False, f"{type(e).__name__}: {e}"
    if not out.exists() or out.read_text() != text:
        tmp = out.with_suffix(".lean.tmp")
        tmp.write_text(text)
        os.replace(tmp, out)
    return True, "generated"


# proof obligations of lean/ArtGenProofs/Kernels2Spec.lean, relative to namespace Art.GenSpec
THEOREMS: list[str] = ["K2." + t for t in [
    # BayesianART: generated = published rule
    "bayes_choice", "bayes_choice_cache", "bayes_update", "bayes_update_some", "bayes_match", "bayes_update_cached", "bayes_new",
    # QuadraticNeuronART: generated = published rule
    "qn_choice", "qn_match", "qn_update", "qn_new",
    # geometry accessors: generated = accessor definitions of ArtModel/Kernels.lean
    "art1_centres", "art2_centres", "sph_centres", "ell_centres", "gauss_centres", "bayes_centres", "qn_centres",
    "fuzzy_bbox", "fuzzy_bbox_none", "fuzzy_bboxes", "shrink_one", "fuzzy_shrink", "fuzzy_centres", "fuzzy_centres_gen",
    # ArtModel/Kernels2.lean is the published rule
    "bayes_update_count", "bayes_update_mean", "runningMean_exact", "bayesCovStep_zip", "bayesCovStep_entry", "bayesCovStep_symm",
    "bayes_prior_sum", "qnStepB_zero", "qnStepS_zero", "qnStepW_zero", "qn_update_zero_rates", "qnStepB_along",
    "qnStepB_factor_nonneg", "qnStepS_le", "reshape_length", "flatten_reshape", "reshape_rows",
    # C03 accessor theorems transported to the generated code
    "gen_bounding_box_agrees", "fuzzyShrink_coord", "gen_shrink_same_centre_contained", "gen_centre_of_new",
    "gen_bayes_centre_running_mean",
]]
COVERS = ("BayesianART.category_choice / update / match_criterion / new_weight / get_cluster_centers (and the class constant pi2) and "
          "QuadraticNeuronART.category_choice / match_criterion / update / new_weight / get_cluster_centers are translated and proved "
          "equal to bayesChoice, bayesUpdate, bayesMatch, bayesNew, bayesMean and qnAct, qnUpdate, qnNew, qnB of "
          "ArtModel/Kernels2.lean (new: the published equations); get_cluster_centers of FuzzyART, ART1, ART2A, HypersphereART, "
          "EllipsoidART, GaussianART, the module function FuzzyART.get_bounding_box, FuzzyART.get_bounding_boxes and "
          "FuzzyART.shrink_clusters are translated and proved equal to fuzzyCentre (after restore_data), the template w[dim:], "
          "the weight itself, sphCentre, ellCentre, gaussMean, fuzzyBBox and fuzzyShrink of ArtModel/Kernels.lean; "
          "np.sqrt, np.exp, np.linalg.det, np.linalg.inv, np.pi and FuzzyART.restore_data (translated by ptrans) are function "
          "parameters; reshape / outer product / matrix-vector product / scalar-matrix / matrix sum / identity / in-place slice "
          "addition on a fresh copy are the generic helpers of ArtModel/ImpKernels2.lean (modelled, not translated); a store to "
          "self.<attr> (outside shrink_clusters) or an in-place write into an argument makes the translator fail closed.")

if __name__ == "__main__":
    ok, msg = write(sys.argv[1] if len(sys.argv) > 1 else None)
    print(msg)
    sys.exit(0 if ok else 1)
