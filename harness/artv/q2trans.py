"""Estimator-protocol translator, second half: the compound estimators.  Python AST of
`BaseARTMAP.__init__ / set_params`, `SimpleARTMAP.__init__ / get_params`, `ARTMAP.__init__ / get_params`,
`DualVigilanceART.__init__ / get_params / validate_params`, `TopoART.__init__ / validate_params`,
`CVIART.__init__ / validate_params`, `iCVIFuzzyART.__init__`, `DeepARTMAP.set_params` — and, because these call them
(`super().__init__(params)`, inherited `set_params`, `setattr`), once more the five protocol methods of `BaseART` and
the constructor / `validate_params` of `FuzzyART`
->  Lean 4 definitions (`lean/ArtGen/Params2.lean`, namespace `Art.Gen.Params2`).

It is `qtrans` extended: this module loads a PRIVATE second instance of `harness/artv/qtrans.py` (the public module
object is not touched) and replaces, in that instance only, the dispatch functions `ex / call / compare / assign /
call_stmt / block / as_val` by the functions below, each of which handles the constructs listed under "additions" and
falls back to the original function for everything else — so every rule of the table in `qtrans`' docstring applies
unchanged and recursion into sub-expressions / sub-statements always comes back through the extended dispatch.

Class families.  *plain*: BaseARTMAP, SimpleARTMAP, ARTMAP, DeepARTMAP — sklearn's `BaseEstimator` only, no
`__setattr__` / `__getattr__` (checked): `self.a = e` is `object.__setattr__`, a load `self.a` reads the instance
`__dict__`.  *baseart*: DualVigilanceART, TopoART, CVIART, iCVIFuzzyART (through FuzzyART) — subclasses of `BaseART`:
`self.a = e` is a call of the translated `BaseART.__setattr__`, a load `self.a` is the `__dict__` and then the
translated `BaseART.__getattr__`.

Nested estimators are the opaque values `Val.mod id`; what the translated methods do with them — `v.params`,
`v.get_params()`, `v.set_params(**d)`, `v.validate_params(d)`, `isinstance(v, BaseART)` — are the fields of the
structure `Q2.Ext` (`lean/ArtModel/ImpParams2.lean`), which a generated method that touches a nested estimator takes
as its first argument `ext`.  Dynamic dispatch on `self` is explicit: `self.validate_params(d)` is the parameter
`validate_params : Store → Q.M Unit` (a static `C.validate_params` is passed as `fun p => Q.Py.lift (C.validate_params
p)`, CVIART's instance method as `CVIART.validate_params ext`), and `self.get_params(deep=b)` inside a method that a
subclass inherits while overriding `get_params` is the parameter `get_params : Bool → Q.M Store`
(`BaseARTMAP.set_params`, `DeepARTMAP.set_params`, and the second rendering `BaseART.set_params_dyn` of
`BaseART.set_params` that DualVigilanceART runs).  The result of such a call is a *fresh* dict (a local `Store`
variable), which the translator checks on every override in the family: the returned name is bound by a dict display.

additions to the table of `qtrans` (⟦e⟧ = the rendering of e)
  statements
    print(…)                                  ->  dropped (DROPPED)
    warn(…)            (any argument)         ->  dropped (DROPPED)
    if hasattr(x, "a"): <only warn(…)>        ->  dropped (DROPPED)
    self.a = e         (plain family)         ->  Q.objectSetattr "a" ⟦e as slot⟧
    setattr(self, k, v) (plain family)        ->  Q.objectSetattr ⟦k⟧ ⟦v as slot⟧
    x = e   (e items / generator)             ->  let x := ⟦e⟧
    d.update(g)        (d a local store)      ->  let d := Q2.dupdate d ⟦g⟧
    if c: A            (A does not end in return/raise; no else; followed by R or last)
                                              ->  let (vars) ← (if ⟦c⟧ then do ⟦A⟧; pure (vars) else pure (vars))
                                                  vars = the local variables bound before that A re-binds
    super().__init__(p) / super(C, self).__init__(p)   (base BaseART)
                                              ->  BaseART.__init__ ⟨validate_params of the class⟩ ⟦p⟧
    super().__init__(a, …) / super(C, self).__init__(a, …)   (base B translated here)
                                              ->  B.__init__ [ext] ⟦a⟧ …
    self.validate_params(d)                   ->  validate_params ⟦d⟧                  (parameter, a method)
    ⟨val⟩.validate_params(d)                  ->  Q.Py.lift (ext.validate_params ⟦val⟧ ⟦d⟧)
  expressions
    self.a             (a a nested-estimator attribute; plain / baseart)
                                              ->  (← Q2.selfAttr "a")  /  (← Q2.selfAttrB BaseART.__getattr__ "a")
    ⟨val⟩.params                              ->  (← ext.params ⟦val⟧)
    ⟨val⟩.get_params()                        ->  (← ext.get_params ⟦val⟧)
    self.get_params(deep=b)   (dynamic)       ->  (← get_params ⟦b⟧)
    C.NAME             (C the class, NAME = int literal in the class body)   ->  the literal
    s1 + s2            (both str)             ->  (⟦s1⟧ ++ ⟦s2⟧)
    ((e1, e2) for k, v in it)  (it items, e1 str, e2 val, both without effects)
                                              ->  (List.map (fun (k, v) => (⟦e1⟧, ⟦e2⟧)) ⟦it⟧)
    dict(d, **{"k": e, …})                    ->  (Q2.dupdate ⟦d⟧ ([("k", ⟦e⟧), …] : Store))
    isinstance(v, int) / isinstance(v, BaseART)   ->  (Q2.isInt ⟦v⟧) / (ext.isBaseART ⟦v⟧)
    v in [C.A, C.B, …]                        ->  lift (Q2.valIn ⟦v⟧ [a, b, …])
    v1 op v2           (both val)             ->  lift (Q2.cmpVV op ⟦v1⟧ ⟦v2⟧)        : truth
    v1 op1 v2 op2 c    (val, val, literal)    ->  let t1 ← ⟦v1⟧; let t2 ← ⟦v2⟧ (each evaluated once, in this order);
                                                  lift (Q.chain (Q2.cmpVV op1 t1 t2) (fun _ => Q.cmpVN op2 t2 c))
    np.zeros([], dtype=T)                     ->  (Val.arr [0])      (a 0-d array holding one zero; dtype dropped)
    True / False stored as a value            ->  (Val.int 1) / (Val.int 0)     (bool is a subclass of int)
Anything else raises `Unsupported`: the translator fails closed.
"""
from __future__ import annotations

import ast
import importlib.util
import os
import sys
from fractions import Fraction
from pathlib import Path

from .ktrans import Unsupported
from . import qtrans as _public_qtrans   # noqa: F401  (the public module; only its file name is used)

VERIF = Path(__file__).resolve().parents[2]


def _private_qtrans():
    """a second, private instance of qtrans.py: its global dispatch functions are replaced below"""
    pkg = __package__ or "artv"
    name = pkg + "._qtrans_for_q2trans"
    spec = importlib.util.spec_from_file_location(name, Path(__file__).with_name("qtrans.py"))
    mod = importlib.util.module_from_spec(spec)
    sys.modules[name] = mod
    spec.loader.exec_module(mod)
    return mod


Q = _private_qtrans()
Q.EXT_TYPES = dict(Q.EXT_TYPES, validate_params="Store → Q.M Unit", get_params="Bool → Q.M Store")

FILES = {
    "BaseART": "artlib/common/BaseART.py",
    "FuzzyART": "artlib/elementary/FuzzyART.py",
    "BaseARTMAP": "artlib/common/BaseARTMAP.py",
    "SimpleARTMAP": "artlib/supervised/SimpleARTMAP.py",
    "ARTMAP": "artlib/supervised/ARTMAP.py",
    "DualVigilanceART": "artlib/topological/DualVigilanceART.py",
    "TopoART": "artlib/topological/TopoART.py",
    "CVIART": "artlib/cvi/CVIART.py",
    "iCVIFuzzyART": "artlib/cvi/iCVIFuzzyArt.py",
    "DeepARTMAP": "artlib/hierarchical/DeepARTMAP.py",
}
Q.FILES = FILES

PLAIN = {"BaseARTMAP": ["BaseEstimator", "ClassifierMixin", "ClusterMixin"], "SimpleARTMAP": ["BaseARTMAP"],
         "ARTMAP": ["SimpleARTMAP"], "DeepARTMAP": ["BaseEstimator", "ClassifierMixin", "ClusterMixin"]}
BASEART = {"DualVigilanceART": ["BaseART"], "TopoART": ["BaseART"], "CVIART": ["BaseART"], "iCVIFuzzyART": ["FuzzyART"]}
# the attributes that hold a nested estimator, per class (what a load `self.a` may name)
NESTED_ATTRS = {"SimpleARTMAP": ["module_a"], "ARTMAP": ["module_a", "module_b"], "DualVigilanceART": ["base_module"],
                "TopoART": ["base_module"], "CVIART": ["base_module"]}

DROPPED = dict(Q.DROPPED, **{
    "print(…)": "CVIART.__init__ prints its params dict: stdout only (it does evaluate `self.params`, which cannot fail "
                "after `super().__init__` returned)",
    "warn(…)": "a Python warning, with any argument (DualVigilanceART / TopoART format the class names into it)",
    "if hasattr(x, \"a\"): warn(…)": "the body is only the dropped warning and `hasattr` has no effect",
    "np.zeros dtype": "`np.zeros([], dtype=int|bool)` is a 0-d array holding one zero: `Val.arr [0]`, the dtype is dropped "
                      "(TopoART.adjacency / _permanent_mask are no protocol parameters)",
    "bool values": "`True`/`False` stored as a parameter value are the ints 1/0 (bool is a subclass of int; `Val` has no bool)",
    "learned-state save/restore": "a pair `c = m.weight_sample_counter_` … `m.weight_sample_counter_ = c` on a nested "
                                  "estimator m (DualVigilanceART.__init__ keeps a trained module's counters across "
                                  "BaseART.__init__'s reset, fix F47): learned state is not part of the parameter protocol "
                                  "modelled here; the local is used nowhere else (checked); that construction leaves a fitted "
                                  "module unchanged is C19's construction oracle",
    "property setters": "DualVigilanceART / TopoART / CVIART define properties with setters (W, labels_, dim_, "
                        "weight_sample_counter_) that redirect a write to the base module; `BaseART.__init__`'s "
                        "`self.weight_sample_counter_ = []` therefore lands in the base module for DualVigilanceART, and is "
                        "rendered here as the `__dict__` write it is for every other class.  The translator checks that no "
                        "parameter name and no nested-estimator attribute is such a property (recorded in `C.setters`)",
})

_orig = {n: getattr(Q, n) for n in ("ex", "call", "compare", "assign", "call_stmt", "as_val")}
src, lstr, rat, is_num, self_attr = Q.src, Q.lstr, Q.rat, Q.is_num, Q.self_attr

# class name -> {"uses_ext": bool, "args": [...]} for the constructors translated so far
INITS: dict[str, dict] = {}
# class name -> "static" | "method" (how validate_params is defined)
VALIDATE: dict[str, str] = {}


def new_ctx(cls, method, mode, **kw):
    cx = Q.Ctx(cls, method, mode, kw.pop("returns_params_ref", False))
    cx.family = "plain" if cls in PLAIN else "baseart"
    cx.dyn_get_params = kw.pop("dyn_get_params", False)
    cx.uses_ext = False
    cx.consts = kw.pop("consts", {})
    cx.allow_ext = kw.pop("allow_ext", [])        # the ext_* / validate_params / get_params parameters the method may use
    assert not kw
    return cx


def _need(cx, e):
    if e not in cx.allow_ext:
        raise Unsupported(f"{cx.cls}.{cx.method} uses {e}")
    if e not in cx.ext:
        cx.ext.append(e)


Q.Ctx.need = lambda self, e: _need(self, e)


def use_ext(cx, field: str) -> str:
    if cx.mode != "py" and field != "isBaseART":
        raise Unsupported(f"ext.{field} in a static function")
    cx.uses_ext = True
    return f"ext.{field}"


def pure_text(t: str) -> bool:
    return "←" not in t


# ------------------------------------------------------------------------------------------- expressions


def as_val(text, t, cx):
    if t == "bool" and text in ("true", "false"):
        return "(Val.int 1)" if text == "true" else "(Val.int 0)"          # DROPPED: bool values
    return _orig["as_val"](text, t, cx)


def class_const(e, cx):
    """C.NAME for the class being translated"""
    if isinstance(e, ast.Attribute) and isinstance(e.value, ast.Name) and e.value.id == cx.cls and e.attr in cx.consts:
        return cx.consts[e.attr]
    return None


def ex(e, cx):
    a = self_attr(e)
    if a is not None and a not in ("params", "__dict__"):
        if cx.mode != "py":
            raise Unsupported("self in a static function")
        if a not in NESTED_ATTRS.get(cx.cls, []):
            raise Unsupported(f"load of self.{a}")
        if cx.family == "plain":
            return f"(← Q2.selfAttr {lstr(a)})", "val"
        return f"(← Q2.selfAttrB BaseART.__getattr__ {lstr(a)})", "val"
    c = class_const(e, cx)
    if c is not None:
        return rat(Fraction(c)), ("num", c, "int")
    if isinstance(e, ast.Attribute) and e.attr == "params" and a is None:
        v, vt = ex(e.value, cx)
        if vt != "val":
            raise Unsupported(f"{src(e)}: .params of a {vt}")
        return f"(← {use_ext(cx, 'params')} {v})", "store"
    if isinstance(e, ast.BinOp) and isinstance(e.op, ast.Add):
        (l, lt), (r, rt) = ex(e.left, cx), ex(e.right, cx)
        if lt == "str" and rt == "str":
            return f"({l} ++ {r})", "str"
        raise Unsupported(f"{src(e)}: {lt} + {rt}")
    if isinstance(e, ast.GeneratorExp):
        if len(e.generators) != 1:
            raise Unsupported(src(e))
        g = e.generators[0]
        if g.ifs or g.is_async or not (isinstance(g.target, ast.Tuple) and len(g.target.elts) == 2
                                       and all(isinstance(x, ast.Name) for x in g.target.elts)):
            raise Unsupported(src(e))
        it, itt = ex(g.iter, cx)
        if itt != ("items", "val") or not (isinstance(e.elt, ast.Tuple) and len(e.elt.elts) == 2):
            raise Unsupported(src(e))
        k, v = (x.id for x in g.target.elts)
        if any(cx.vars.get(n) == ("alias",) for n in (k, v)):
            raise Unsupported("generator variable shadows an alias")
        saved = dict(cx.vars)
        cx.vars[k], cx.vars[v] = "str", "val"
        (e1, t1), (e2, t2) = ex(e.elt.elts[0], cx), ex(e.elt.elts[1], cx)
        cx.vars = saved
        if t1 != "str" or t2 != "val" or not pure_text(e1) or not pure_text(e2):
            raise Unsupported(f"generator element {src(e.elt)}")
        return f"(List.map (fun ({k}, {v}) => ({e1}, {e2})) {it})", ("pairs",)
    return _orig["ex"](e, cx)


def call(e, cx):
    f = e.func
    if isinstance(f, ast.Name) and f.id == "isinstance" and len(e.args) == 2 and not e.keywords \
            and src(e.args[1]) in ("int", "BaseART"):
        v, vt = ex(e.args[0], cx)
        if vt != "val":
            raise Unsupported(src(e))
        if src(e.args[1]) == "int":
            return f"(Q2.isInt {v})", "bool"
        return f"({use_ext(cx, 'isBaseART')} {v})", "bool"
    if isinstance(f, ast.Name) and f.id == "dict" and len(e.args) == 1 and len(e.keywords) == 1 \
            and e.keywords[0].arg is None and isinstance(e.keywords[0].value, ast.Dict):
        d, dt = ex(e.args[0], cx)
        x, xt = ex(e.keywords[0].value, cx)
        if dt != "store" or xt != "store":
            raise Unsupported(src(e))
        return f"(Q2.dupdate {d} {x})", "store"
    if isinstance(f, ast.Attribute) and isinstance(f.value, ast.Name) and f.value.id == "np" and f.attr == "zeros":
        if len(e.args) == 1 and isinstance(e.args[0], ast.List) and not e.args[0].elts and len(e.keywords) == 1 \
                and e.keywords[0].arg == "dtype" and src(e.keywords[0].value) in ("int", "bool"):
            return "(Val.arr [0])", "val"                                    # DROPPED: np.zeros dtype
        raise Unsupported(src(e))
    if isinstance(f, ast.Attribute) and self_attr(f) == "get_params" and cx.dyn_get_params:
        if cx.mode != "py" or e.args or len(e.keywords) != 1 or e.keywords[0].arg != "deep":
            raise Unsupported(src(e))
        b, bt = ex(e.keywords[0].value, cx)
        if bt != "bool":
            raise Unsupported(src(e))
        cx.need("get_params")
        return f"(← get_params {b})", "store"
    if isinstance(f, ast.Attribute) and f.attr == "get_params" and self_attr(f) is None and not e.args and not e.keywords:
        v, vt = ex(f.value, cx)
        if vt != "val":
            raise Unsupported(src(e))
        return f"(← {use_ext(cx, 'get_params')} {v})", "store"
    return _orig["call"](e, cx)


def compare(e, cx):
    ops, terms = e.ops, [e.left] + list(e.comparators)
    if len(ops) == 1 and isinstance(ops[0], ast.In) and isinstance(terms[1], ast.List) and terms[1].elts:
        v, vt = ex(terms[0], cx)
        cs = [class_const(x, cx) for x in terms[1].elts]
        if vt != "val" or any(c is None for c in cs):
            raise Unsupported(src(e))
        return cx.lift(f"Q2.valIn {v} [{', '.join(str(c) for c in cs)}]"), "bool"
    if all(type(o) in Q.CMP for o in ops) and len(ops) in (1, 2):
        saved_pre, saved_fresh = list(cx.pre), cx.fresh
        parts = [ex(t, cx) for t in terms]
        if len(ops) == 1 and parts[0][1] == "val" and parts[1][1] == "val":
            op = "Q.Cmp." + Q.CMP[type(ops[0])]
            return cx.lift(f"Q2.cmpVV {op} {parts[0][0]} {parts[1][0]}"), "truth"
        if len(ops) == 2 and parts[0][1] == "val" and parts[1][1] == "val" and is_num(parts[2][1]):
            ts = []
            for (x, _) in parts[:2]:
                t = cx.tmp()
                cx.pre.append(f"let {t} ← {Q.strip_arrow(x)}" if x.startswith("(← ")
                              else f"let {t} := {x}" if pure_text(x) else f"let {t} ← pure {x}")
                ts.append(t)
            o1, o2 = "Q.Cmp." + Q.CMP[type(ops[0])], "Q.Cmp." + Q.CMP[type(ops[1])]
            return cx.lift(f"Q.chain (Q2.cmpVV {o1} {ts[0]} {ts[1]}) (fun _ => Q.cmpVN {o2} {ts[1]} {parts[2][0]})"), "truth"
        cx.pre, cx.fresh = saved_pre, saved_fresh       # not ours: let the original rule translate the terms again
    return _orig["compare"](e, cx)


# ------------------------------------------------------------------------------------------- statements


def assign(t, value, cx, I):
    a = self_attr(t)
    if a is not None and cx.family == "plain":
        if cx.mode != "py":
            raise Unsupported("store to self in a static function")
        out = []
        v, vt = ex(value, cx)
        sl = Q.as_slot(v, vt, cx)
        Q.flush(cx, out, I)
        out.append(I + f"Q.objectSetattr {lstr(a)} {sl}")
        return out
    if isinstance(t, ast.Name) and cx.vars.get(t.id) != ("alias",) and isinstance(value, (ast.Call, ast.GeneratorExp)):
        # x = d.items() / x = (generator)
        is_items = isinstance(value, ast.Call) and isinstance(value.func, ast.Attribute) and value.func.attr == "items"
        if is_items or isinstance(value, ast.GeneratorExp):
            out = []
            v, vt = ex(value, cx)
            if vt not in (("items", "val"), ("pairs",)):
                raise Unsupported(f"{t.id} = value of type {vt}")
            Q.flush(cx, out, I)
            out.append(I + f"let {t.id} := {v}")
            cx.vars[t.id] = vt
            return out
    return _orig["assign"](t, value, cx, I)


def is_super_init(e):
    """super().__init__(…) or super(C, self).__init__(…)"""
    if not (isinstance(e, ast.Call) and isinstance(e.func, ast.Attribute) and e.func.attr == "__init__"
            and isinstance(e.func.value, ast.Call) and isinstance(e.func.value.func, ast.Name)
            and e.func.value.func.id == "super" and not e.func.value.keywords):
        return None
    sa = e.func.value.args
    if not sa:
        return "implicit"
    if len(sa) == 2 and all(isinstance(x, ast.Name) for x in sa) and sa[1].id == "self":
        return sa[0].id
    return None


def validate_arg(cls, cx) -> str:
    kind = VALIDATE.get(cls)
    if kind == "static":
        return f"(fun p => Q.Py.lift ({cls}.validate_params p))"
    if kind == "method":
        cx.uses_ext = True
        return f"({cls}.validate_params ext)"
    raise Unsupported(f"{cls} has no translated validate_params")


def validate_owner(cls) -> str:
    """the class whose validate_params an instance of `cls` runs"""
    while cls not in VALIDATE:
        bases = (PLAIN | BASEART | {"FuzzyART": ["BaseART"]}).get(cls)
        if not bases or bases[0] == "BaseART":
            raise Unsupported(f"no validate_params for {cls}")
        cls = bases[0]
    return cls


def call_stmt(e, cx, I):
    out = []
    f = e.func
    if cx.mode != "py":
        return _orig["call_stmt"](e, cx, I)
    if isinstance(f, ast.Name) and f.id == "setattr" and cx.family == "plain" and len(e.args) == 3 and not e.keywords \
            and isinstance(e.args[0], ast.Name) and e.args[0].id == "self":
        k, kt = ex(e.args[1], cx)
        v, vt = ex(e.args[2], cx)
        if kt != "str":
            raise Unsupported(src(e))
        sl = Q.as_slot(v, vt, cx)
        Q.flush(cx, out, I)
        out.append(I + f"Q.objectSetattr {k} {sl}")
        return out
    # d.update(g)
    if isinstance(f, ast.Attribute) and f.attr == "update" and isinstance(f.value, ast.Name) and len(e.args) == 1 \
            and not e.keywords:
        d = f.value.id
        if cx.vars.get(d) != "store":
            raise Unsupported(f"{src(e)}: {d} is not a local dict")
        g, gt = ex(e.args[0], cx)
        if gt != ("pairs",):
            raise Unsupported(src(e))
        Q.flush(cx, out, I)
        out.append(I + f"let {d} := Q2.dupdate {d} {g}")
        return out
    sup = is_super_init(e)
    if sup is not None:
        if cx.method != "__init__" or e.keywords or (sup != "implicit" and sup != cx.cls):
            raise Unsupported(src(e))
        bases = (PLAIN | BASEART | {"FuzzyART": ["BaseART"]}).get(cx.cls)
        if not bases:
            raise Unsupported(f"super() in {cx.cls}")
        base = bases[0]
        args = [ex(a, cx) for a in e.args]
        if base == "BaseART":
            if len(args) != 1 or args[0][1] != "store":
                raise Unsupported(src(e))
            vp = validate_arg(validate_owner(cx.cls), cx)
            Q.flush(cx, out, I)
            out.append(I + f"BaseART.__init__ {vp} {args[0][0]}")
            return out
        if base not in INITS:
            raise Unsupported(f"super().__init__ of {cx.cls}: {base}.__init__ is not translated")
        info = INITS[base]
        if len(args) != len(info["args"]) or any(t != "val" for _, t in args):
            raise Unsupported(src(e))
        if info["uses_ext"]:
            cx.uses_ext = True
        Q.flush(cx, out, I)
        out.append(I + f"{base}.__init__ " + ("ext " if info["uses_ext"] else "") + " ".join(a for a, _ in args))
        out[-1] = out[-1].rstrip()
        return out
    if self_attr(f) == "validate_params" and len(e.args) == 1 and not e.keywords:
        d, dt = ex(e.args[0], cx)
        if dt != "store":
            raise Unsupported(src(e))
        cx.need("validate_params")
        Q.flush(cx, out, I)
        out.append(I + f"validate_params {d}")
        return out
    if isinstance(f, ast.Attribute) and f.attr == "validate_params" and len(e.args) == 1 and not e.keywords:
        r, rt = ex(f.value, cx)
        d, dt = ex(e.args[0], cx)
        if rt != "val" or dt != "store":
            raise Unsupported(src(e))
        fn = use_ext(cx, "validate_params")
        Q.flush(cx, out, I)
        out.append(I + f"Q.Py.lift ({fn} {r} {d})")
        return out
    return _orig["call_stmt"](e, cx, I)


def is_call_named(s, name):
    return (isinstance(s, ast.Expr) and isinstance(s.value, ast.Call) and isinstance(s.value.func, ast.Name)
            and s.value.func.id == name)


def is_dropped(s) -> bool:
    if Q.is_doc(s) or is_call_named(s, "warn") or is_call_named(s, "print"):
        return True
    if isinstance(s, ast.If) and not s.orelse and s.body and all(is_call_named(b, "warn") for b in s.body):
        t = s.test
        return (isinstance(t, ast.Call) and isinstance(t.func, ast.Name) and t.func.id == "hasattr" and len(t.args) == 2
                and isinstance(t.args[0], ast.Name) and isinstance(t.args[1], ast.Constant) and not t.keywords)
    return False


# attributes of a nested estimator that hold what it has LEARNED (not its parameters): outside the parameter protocol
LEARNED_STATE = {"weight_sample_counter_"}


def save_restore_pairs(stmts) -> set[int]:
    """indices of the two statements of a pair  `<local> = <name>.<a>`  …  `<name>.<a> = <local>`  (a in LEARNED_STATE,
    <name> a plain name other than self, the same <name> and <a> in both, <local> occurring nowhere else in the block):
    the learned state of a nested estimator is saved and put back around the statements in between.  The parameter
    protocol this translator models has no such attribute (Q2.Ext: params / get_params / set_params / validate_params),
    the local cannot reach any other statement, so the pair is dropped (DROPPED["learned-state save/restore"])."""
    out = set()
    for i, s in enumerate(stmts):
        if not (isinstance(s, ast.Assign) and len(s.targets) == 1 and isinstance(s.targets[0], ast.Name)
                and isinstance(s.value, ast.Attribute) and isinstance(s.value.value, ast.Name)
                and s.value.value.id != "self" and s.value.attr in LEARNED_STATE):
            continue
        local, owner, attr = s.targets[0].id, s.value.value.id, s.value.attr
        for j in range(i + 1, len(stmts)):
            r = stmts[j]
            if (isinstance(r, ast.Assign) and len(r.targets) == 1 and isinstance(r.targets[0], ast.Attribute)
                    and isinstance(r.targets[0].value, ast.Name) and r.targets[0].value.id == owner
                    and r.targets[0].attr == attr and isinstance(r.value, ast.Name) and r.value.id == local):
                uses = sum(1 for t in stmts for n in ast.walk(t) if isinstance(n, ast.Name) and n.id == local)
                if uses == 2:
                    out |= {i, j}
                break
    return out


def block(stmts, cx, I, tail):
    """qtrans.block with the dropping rules above and the rule for an `if` that falls through"""
    out = []
    pairs = save_restore_pairs(stmts)
    stmts = [s for k, s in enumerate(stmts) if k not in pairs and not is_dropped(s)]      # DROPPED
    for idx, s in enumerate(stmts):
        rest = stmts[idx + 1:]
        if isinstance(s, ast.If) and not s.orelse and not Q.terminates(s.body):
            c, ct = ex(s.test, cx)
            cond = Q.as_bool(c, ct, cx)
            Q.flush(cx, out, I)
            before = dict(cx.vars)
            if any(isinstance(n, (ast.Return, ast.Raise, ast.Break, ast.Continue)) for b in s.body for n in ast.walk(b)):
                raise Unsupported("return / raise inside an `if` that falls through")
            car = [n for n in before if n in Q.assigned(s.body) and before[n] != ("alias",)]
            pat = Q.tuple_pat(car)
            body = block(s.body, cx, I + "    ", [f"pure {pat}"])
            for n in car:
                if cx.vars.get(n) != before[n]:
                    raise Unsupported(f"the branch changes the type of {n}")
            cx.vars = before
            head = f"let {pat} ← " if car else ""
            out += [I + f"{head}(if {cond} then do"] + body + [I + f"  else pure {pat})"]
            continue
        if isinstance(s, (ast.Return, ast.Raise, ast.If)):
            # the original rules; they consume the rest of the block
            sub = _orig_block_one(s, rest, cx, I, tail)
            return out + sub
        if isinstance(s, ast.Assert):
            c, ct = ex(s.test, cx)
            b = Q.as_bool(c, ct, cx)
            Q.flush(cx, out, I)
            out.append(I + (f"Q.assert {b}" if cx.mode == "exc" else f"Q.Py.lift (Q.assert {b})"))
            continue
        if isinstance(s, (ast.Assign, ast.AnnAssign)):
            if isinstance(s, ast.Assign):
                if len(s.targets) != 1:
                    raise Unsupported("multiple assignment")
                t = s.targets[0]
            else:
                t = s.target
                if s.value is None:
                    raise Unsupported("annotation without value")
            out += assign(t, s.value, cx, I)
            continue
        if isinstance(s, ast.For):
            out += Q.for_loop(s, cx, I)
            continue
        if isinstance(s, ast.Expr) and isinstance(s.value, ast.Call):
            out += call_stmt(s.value, cx, I)
            continue
        raise Unsupported(f"statement {type(s).__name__}: {src(s)[:80]}")
    if tail is None:
        raise Unsupported("block falls off its end")
    out += [I + t for t in tail]
    if not out:
        raise Unsupported("empty block")
    return out


_qblock = Q.block
_qassigned = Q.assigned


def assigned(stmts):
    """qtrans.assigned, plus the local dicts changed in place by `d.update(…)`"""
    out = _qassigned(stmts)
    for s in stmts:
        for n in ast.walk(s):
            if isinstance(n, ast.Expr) and isinstance(n.value, ast.Call) and isinstance(n.value.func, ast.Attribute) \
                    and n.value.func.attr == "update" and isinstance(n.value.func.value, ast.Name) \
                    and n.value.func.value.id not in out:
                out.append(n.value.func.value.id)
    return out



def _orig_block_one(s, rest, cx, I, tail):
    """return / raise / a terminating or final `if`: qtrans' rules (its recursion comes back to `block` above)"""
    return _qblock([s] + rest, cx, I, tail)


for _n, _f in (("ex", ex), ("call", call), ("compare", compare), ("assign", assign), ("call_stmt", call_stmt),
               ("as_val", as_val), ("block", block), ("assigned", assigned)):
    setattr(Q, _n, _f)


# ------------------------------------------------------------------------------------------ definitions


def class_def(repo, cls):
    return Q.class_def(repo, cls)


def check_family(repo, cls):
    cd = class_def(repo, cls)
    want = (PLAIN | BASEART)[cls]
    if [src(b) for b in cd.bases] != want:
        raise Unsupported(f"{cls} bases {[src(b) for b in cd.bases]}, expected {want}")
    forbidden = ["__getattribute__", "__delattr__", "__setstate__", "__getstate__"]
    if cls in PLAIN or cls in ("DualVigilanceART", "TopoART", "CVIART", "iCVIFuzzyART"):
        forbidden += ["__setattr__", "__getattr__"]
    for n in cd.body:
        if isinstance(n, ast.FunctionDef) and n.name in forbidden:
            raise Unsupported(f"{cls} defines {n.name}")
    return cd


def setters_of(cd: ast.ClassDef) -> list[str]:
    """names with a property setter in the class body"""
    out = []
    for n in cd.body:
        if isinstance(n, ast.FunctionDef):
            for d in n.decorator_list:
                if isinstance(d, ast.Attribute) and d.attr == "setter" and n.name not in out:
                    out.append(n.name)
    return out


def class_consts(cd: ast.ClassDef) -> dict[str, int]:
    out = {}
    for n in cd.body:
        if isinstance(n, ast.Assign) and len(n.targets) == 1 and isinstance(n.targets[0], ast.Name) \
                and isinstance(n.value, ast.Constant) and type(n.value.value) is int:
            out[n.targets[0].id] = n.value.value
    return out


def plain_sig(f: ast.FunctionDef, cls: str, want_self=True):
    a = f.args
    if a.vararg or a.kwonlyargs or a.posonlyargs:
        raise Unsupported(f"{cls}.{f.name}: unusual signature")
    if want_self and (not a.args or a.args[0].arg != "self"):
        raise Unsupported(f"{cls}.{f.name}: no self")
    return a


def fresh_dict_get_params(cd: ast.ClassDef):
    """the override returns a name bound by a dict display: a fresh dict on every call"""
    f = Q.method(cd, "get_params")
    stmts = [s for s in f.body if not Q.is_doc(s)]
    if not (stmts and isinstance(stmts[-1], ast.Return) and isinstance(stmts[-1].value, ast.Name)):
        raise Unsupported(f"{cd.name}.get_params does not return a local name")
    name = stmts[-1].value.id
    first = stmts[0]
    if not (isinstance(first, ast.Assign) and len(first.targets) == 1 and isinstance(first.targets[0], ast.Name)
            and first.targets[0].id == name and isinstance(first.value, ast.Dict)):
        raise Unsupported(f"{cd.name}.get_params: `{name}` is not bound by a dict display (it may alias self.params)")
    for s in stmts[1:]:
        for n in ast.walk(s):
            if isinstance(n, ast.Assign) and any(isinstance(t, ast.Name) and t.id == name for t in n.targets):
                raise Unsupported(f"{cd.name}.get_params re-binds `{name}`")


def emit_init(repo, cls, doc_extra="") -> str:
    cd = class_def(repo, cls)
    f = Q.method(cd, "__init__")
    a = plain_sig(f, cls)
    if f.decorator_list or a.kwarg:
        raise Unsupported(f"{cls}.__init__: unusual signature")
    args = [x.arg for x in a.args[1:]]
    defaults = []
    for x, d in zip(a.args[1 + len(args) - len(a.defaults):], a.defaults):
        cx0 = new_ctx(cls, "__init__", "py")
        v, vt = ex(d, cx0)
        defaults.append(f"({lstr(x.arg)}, {Q.as_val(v, vt, cx0)})")
    out = [f"/-- `inspect.signature({cls}.__init__)` without `self` -/\n"
           f"def {cls}.args : List String := [" + ", ".join(lstr(x) for x in args) + "]\n",
           f"/-- the default values of `{cls}.__init__` -/\n"
           f"def {cls}.defaults : Store := [" + ", ".join(defaults) + "]\n"]
    st = setters_of(cd)
    bad = [s for s in st if s in args or s in NESTED_ATTRS.get(cls, []) or s == "params"]
    if bad:
        raise Unsupported(f"{cls}: property setter for {bad}")
    out.append(f"/-- names with a property setter in `{cls}` (writes to them are redirected; none is a parameter) -/\n"
               f"def {cls}.setters : List String := [" + ", ".join(lstr(x) for x in st) + "]\n")
    cx = new_ctx(cls, "__init__", "py", consts=class_consts(cd))
    cx.ret = "unit"
    for x in args:
        cx.vars[x] = "val"
    body = block(f.body, cx, "  ", ["pure ()"])
    INITS[cls] = {"uses_ext": cx.uses_ext, "args": args}
    decl = ("(ext : Q2.Ext) " if cx.uses_ext else "") + " ".join(f"({x} : Val)" for x in args)
    out.append(f"/-- `{cls}.__init__`{doc_extra} -/\n"
               f"def {cls}.__init__ {decl}".rstrip() + " : Q.M Unit := do\n" + "\n".join(body) + "\n")
    return "\n".join(out)


def emit_validate(repo, cls) -> str:
    cd = class_def(repo, cls)
    g = Q.method(cd, "validate_params")
    ga = g.args
    if ga.vararg or ga.kwarg or ga.kwonlyargs or ga.posonlyargs or ga.defaults:
        raise Unsupported(f"{cls}.validate_params: unusual signature")
    names = [x.arg for x in ga.args]
    deco = [src(d) for d in g.decorator_list]
    if deco == ["staticmethod"] and names == ["params"]:
        cx = new_ctx(cls, "validate_params", "exc", consts=class_consts(cd))
        cx.ret = "unit"
        cx.vars["params"] = "store"
        body = block(g.body, cx, "  ", ["pure ()"])
        if cx.uses_ext:
            raise Unsupported(f"{cls}.validate_params (static) touches a nested estimator")
        VALIDATE[cls] = "static"
        return (f"/-- `{cls}.validate_params` (static) -/\n"
                f"def {cls}.validate_params (params : Store) : Except Err Unit := do\n" + "\n".join(body) + "\n")
    if not deco and names == ["self", "params"]:
        cx = new_ctx(cls, "validate_params", "py", consts=class_consts(cd))
        cx.ret = "unit"
        cx.vars["params"] = "store"
        body = block(g.body, cx, "  ", ["pure ()"])
        VALIDATE[cls] = "method"
        return (f"/-- `{cls}.validate_params` (an instance method: it reads `self.base_module`) -/\n"
                f"def {cls}.validate_params (ext : Q2.Ext) (params : Store) : Q.M Unit := do\n" + "\n".join(body) + "\n")
    raise Unsupported(f"{cls}.validate_params: decorators {deco}, parameters {names}")


def emit_get_params(repo, cls) -> str:
    cd = class_def(repo, cls)
    f = Q.method(cd, "get_params")
    a = plain_sig(f, cls)
    got = [(x.arg, src(x.annotation) if x.annotation else None) for x in a.args[1:]]
    if f.decorator_list or a.kwarg or got != [("deep", "bool")] or [src(d) for d in a.defaults] != ["True"]:
        raise Unsupported(f"{cls}.get_params: parameters {got}")
    fresh_dict_get_params(cd)
    cx = new_ctx(cls, "get_params", "py", consts=class_consts(cd))
    cx.ret = "store"
    cx.vars["deep"] = "bool"
    body = block(f.body, cx, "  ", None)
    decl = ("(ext : Q2.Ext) " if cx.uses_ext else "") + "(deep : Bool)"
    return (f"/-- `{cls}.get_params` -/\n"
            f"def {cls}.get_params {decl} : Q.M Store := do\n" + "\n".join(body) + "\n")


def emit_set_params(cd: ast.ClassDef, cls: str, lean_name: str, doc: str, dyn: bool, returns_ref: bool,
                    allow: list[str]) -> str:
    """a `set_params(self, **params)` method"""
    f = Q.method(cd, "set_params")
    a = plain_sig(f, cls)
    if f.decorator_list or a.args[1:] or not a.kwarg or a.kwarg.arg != "params" or a.defaults:
        raise Unsupported(f"{cls}.set_params: unusual signature")
    cx = new_ctx(cls, "set_params", "py", dyn_get_params=dyn, returns_params_ref=returns_ref, allow_ext=allow)
    cx.ret = "unit"
    cx.vars["params"] = "store"
    body = block(f.body, cx, "  ", ["pure ()"])
    if sorted(cx.ext) != sorted(allow):
        raise Unsupported(f"{cls}.set_params uses {cx.ext}, expected {allow}")
    if cx.uses_ext:
        raise Unsupported(f"{cls}.set_params touches a nested estimator other than through set_params")
    decl = "".join(f"({e} : {Q.EXT_TYPES[e]}) " for e in allow) + "(params : Store)"
    return (f"/-- {doc} -/\n"
            f"def {lean_name} {decl} :\n    Q.M Unit := do\n" + "\n".join(body) + "\n")


def emit_base(base: ast.ClassDef, name: str, ref: bool) -> str:
    """one of the five BaseART protocol methods, by qtrans' own `translate_base` (run in the private instance: a
    `self.validate_params(d)` is the method parameter `validate_params d`)"""
    saved = Q.Ctx
    try:
        class Cx(saved):
            def __init__(self, *a, **k):
                super().__init__(*a, **k)
                self.family, self.dyn_get_params, self.uses_ext, self.consts = "baseart", False, False, {}
                self.allow_ext = Q.BASE_EXT.get(self.method, [])
        Q.Ctx = Cx
        return Q.translate_base(base, name, ref)
    finally:
        Q.Ctx = saved


PRELUDE = '''/-
GENERATED by harness/artv/q2trans.py from {files} — do not edit.
Regenerated on every run of the checks that name it; ArtGenProofs/Params2Spec.lean proves these definitions equal to the
estimator-protocol model of the compound estimators, ArtModel/Params2.lean (C19).
-/
import ArtModel.ImpParams2

set_option linter.unusedVariables false

namespace Art.Gen.Params2
open Art
open Art.Params (Val Err Store)

'''


def generate(repo: Path) -> str:
    repo = Path(repo)
    INITS.clear()
    VALIDATE.clear()
    parts = [PRELUDE.replace("{files}", ", ".join(FILES.values()))]
    # ---- BaseART, once more (the compound BaseART subclasses call these)
    base = class_def(repo, "BaseART")
    if [src(b) for b in base.bases] != ["BaseEstimator", "ClusterMixin"]:
        raise Unsupported(f"BaseART bases {[src(b) for b in base.bases]}")
    for n in base.body:
        if isinstance(n, ast.FunctionDef) and n.name in ("__getattribute__", "__delattr__", "__setstate__", "__getstate__"):
            raise Unsupported(f"BaseART defines {n.name}")
    ref = Q.get_params_returns_ref(base)
    for name in Q.BASE_METHODS:
        parts.append(emit_base(base, name, ref))
    parts.append(emit_set_params(
        base, "BaseART", "BaseART.set_params_dyn",
        "`BaseART.set_params` as a subclass that overrides `get_params` runs it: `self.get_params(deep=True)` is the "
        "override (the parameter `get_params`), whose result is a fresh dict", True, False,
        ["get_params", "validate_params", "ext_set_params"]))
    # ---- FuzzyART (the base of iCVIFuzzyART)
    fz = class_def(repo, "FuzzyART")
    if [src(b) for b in fz.bases] != ["BaseART"]:
        raise Unsupported("FuzzyART bases")
    parts.append(emit_validate(repo, "FuzzyART"))
    BASEART["FuzzyART"] = ["BaseART"]
    try:
        parts.append(emit_init(repo, "FuzzyART"))
    finally:
        del BASEART["FuzzyART"]
    # ---- the plain family
    for cls in PLAIN:
        check_family(repo, cls)
    bm = class_def(repo, "BaseARTMAP")
    parts.append(emit_init(repo, "BaseARTMAP"))
    parts.append(emit_set_params(bm, "BaseARTMAP", "BaseARTMAP.set_params",
                                 "`BaseARTMAP.set_params` (inherited by SimpleARTMAP and ARTMAP; `self.get_params` is theirs)",
                                 True, False, ["get_params", "ext_set_params"]))
    for cls in ("SimpleARTMAP", "ARTMAP"):
        cd = class_def(repo, cls)
        for n in cd.body:
            if isinstance(n, ast.FunctionDef) and n.name in ("set_params", "validate_params"):
                raise Unsupported(f"{cls} defines {n.name}")
        parts.append(emit_init(repo, cls))
        parts.append(emit_get_params(repo, cls))
    dm = class_def(repo, "DeepARTMAP")
    parts.append(emit_set_params(dm, "DeepARTMAP", "DeepARTMAP.set_params",
                                 "`DeepARTMAP.set_params` (its own copy of the method)", True, False,
                                 ["get_params", "ext_set_params"]))
    # ---- the BaseART family
    for cls in BASEART:
        cd = check_family(repo, cls)
        defined = [n.name for n in cd.body if isinstance(n, ast.FunctionDef)]
        if "set_params" in defined:
            raise Unsupported(f"{cls} defines set_params")
        if ("get_params" in defined) != (cls == "DualVigilanceART"):
            raise Unsupported(f"{cls}: get_params {'defined' if 'get_params' in defined else 'not defined'}")
        if ("validate_params" in defined) != (cls != "iCVIFuzzyART"):
            raise Unsupported(f"{cls}: validate_params {'defined' if 'validate_params' in defined else 'not defined'}")
        if "validate_params" in defined:
            parts.append(emit_validate(repo, cls))
        parts.append(emit_init(repo, cls))
        if "get_params" in defined:
            parts.append(emit_get_params(repo, cls))
    parts.append("end Art.Gen.Params2\n")
    return "\n".join(parts)


def write(repo: Path = None) -> tuple[bool, str]:
    repo = Path(repo or os.environ.get("VERIF_REPO", "/repo"))
    out = VERIF / "lean" / "ArtGen" / "Params2.lean"
    try:
        text = generate(repo)
    except (Unsupported, SyntaxError, KeyError, AttributeError, TypeError, IndexError, ValueError, OSError) as e:
        return False, f"{type(e).__name__}: {e}"
    if not out.exists() or out.read_text() != text:
        tmp = out.with_suffix(".lean.tmp")
        tmp.write_text(text)
        os.replace(tmp, out)
    return True, "generated"


# proof obligations of lean/ArtGenProofs/Params2Spec.lean, relative to namespace Art.GenSpec
THEOREMS: list[str] = ["Params2." + t for t in [
    # the BaseART methods / FuzzyART regenerated here are the sibling slice's definitions
    "base_getattr_eq", "base_setattr_eq", "base_get_params_eq", "base_init_eq", "base_set_params_eq",
    "FuzzyART_validate_eq", "FuzzyART_init_eq",
    # ARTMAP family: constructors, get_params, set_params: generated = reference, for all stores / objects / calls
    "dupdate_eq", "ddset2_eq_ginsert", "SimpleARTMAP_init_spec", "ARTMAP_init_spec", "SimpleARTMAP_get_params_spec",
    "ARTMAP_get_params_spec", "map_loop", "route_loop", "map_set_params_spec", "deep_set_params_spec",
    # ARTMAP family: the C19 clauses
    "ARTMAP_family_names", "SimpleARTMAP_set_eq_init", "SimpleARTMAP_nested_routed",
    "ARTMAP_rejected_changes_counterexample", "ARTMAP_rejected_unchanged_partial", "SimpleARTMAP_set_get_example",
    "ARTMAP_tree_partial_update_counterexample",
    # DualVigilanceART
    "validate_DualVigilanceART", "DualVigilanceART_get_params_spec", "DualVigilanceART_names",
    "DualVigilanceART_init_example", "DualVigilanceART_bound_above_rho_accepted_counterexample",
    "DualVigilanceART_set_examples",
    # TopoART / CVIART: the flat copy (F21, F22)
    "TopoART_init_example", "TopoART_names_counterexample", "TopoART_names_partial",
    "TopoART_flat_copy_counterexample", "TopoART_own_params_examples", "CVIART_flat_copy_counterexample",
    # iCVIFuzzyART (C19 theorems of ArtProps/C19.lean transported)
    "iCVIFuzzyART_names_example", "iCVIFuzzyART_rejected_unchanged", "iCVIFuzzyART_set_get_noop",
]]
COVERS = ("BaseARTMAP.__init__ / set_params, SimpleARTMAP and ARTMAP __init__ / get_params, DeepARTMAP.set_params, "
          "DualVigilanceART __init__ / get_params / validate_params, TopoART and CVIART __init__ / validate_params, "
          "iCVIFuzzyART.__init__ (and once more BaseART's five protocol methods, BaseART.set_params as DualVigilanceART runs "
          "it with its own get_params, FuzzyART's constructor and validate_params — proved identical to the definitions of "
          "ArtGen/Params.lean) are translated statement by statement and proved equal to the reference semantics of "
          "ArtModel/Params2.lean: getParamsNode (sklearn's name__sub flattening) and mapSetParams (routing by "
          "partition('__'), unknown names rejected, plain names assigned as met, nested groups delegated) for all instance "
          "__dict__s, call logs, keyword lists and nested estimators; dualChecks; on concrete estimators constructTopo / "
          "cviParams; the C19 clauses are proved or refuted per class on the generated code (F21, F22 and two new deviations "
          "as _counterexample theorems with their _partial).  Parameters, not translated: the members of nested estimators "
          "(Q2.Ext: isinstance(v, BaseART), v.params, v.get_params(), v.set_params(**d) — a call log —, "
          "v.validate_params(d)); the dynamic dispatch of self.get_params / self.validate_params; trusted: "
          "object.__setattr__ of the sklearn bases, the property setters of the wrappers (recorded in C.setters), the "
          "composition of a wrapper's step with the delegated calls (Params2.replay), exception messages.")

if __name__ == "__main__":
    ok, msg = write(sys.argv[1] if len(sys.argv) > 1 else None)
    print(msg)
    sys.exit(0 if ok else 1)
