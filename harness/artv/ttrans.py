"""TopoART translator: the Python AST of `artlib/topological/TopoART.py` (and the `BaseART` methods a TopoART
inherits and calls)  ->  Lean 4 definitions in `lean/ArtGen/Topo.lean` (namespace `Art.Gen.TopoART`).

It re-uses the statement translation of `ctrans.py` (re-binding of locals and of `self.<attr>`, `if/else` joins,
`for … in enumerate(X)` as `forEach`, early `return`, calls of methods translated on their own) by *wrapping* it:
while `generate` runs, `ctrans.ext` / `ctrans.tr_block` / `ctrans.lean_ty` / `ctrans.find_function` are replaced by
the functions of this module, which try the rules below first and fall back to the original ones; the profile
`TopoART` (attributes, types, method table) is installed through `ctrans.use_profile`.  Everything is restored in a
`finally:`.  `ctrans.py` itself is not edited.

The translation is syntax-directed.  Rules added here (all other constructs: the table in `ctrans.py`):

  expression                                   Lean rendering (helpers: lean/ArtModel/ImpTopo.lean)
  -------------------------------------------  ------------------------------------------------------------------
  -k                      (int literal)        (-k)                                              : Int
  a > b, a >= b, a < b, a <= b  (scalars)      decide (a > b) …        (a Nat operand next to an Int one: Int.ofNat)
  v >= k         (v a 1-D int array)           Art.ImpTopo.npGe v k                              : List Bool
  v == x         (v an index array, x int)     Art.ImpTopo.npEq v x                              : List Bool
  x in v         (v an index array, x int)     Art.ImpTopo.npContains v x
  k in d / d[k]  (d a dict comprehension)      (Art.ImpTopo.dictGet d k).isSome / (Art.ImpTopo.dictGet d k).get!
  a % b                                        (a % b)
  np.where(m)[0]                               Art.ImpTopo.npWhere m                             : List Nat
  a[idx]         (idx an index array)          Art.ImpTopo.npTake a idx
  a[:, idx]      (a 2-D, idx an index array)   Art.ImpTopo.npTakeCols a idx
  v.reshape(-1)  (v already 1-D)               v
  np.unique(v)                                 Art.ImpTopo.npUnique v
  np.zeros((r, c)[, dtype=int])                Art.ImpTopo.npZeros2 r c
  np.zeros((n,), dtype=bool)                   List.replicate n false
  np.pad(a, ((t, b), (l, r)), "constant")      Art.ImpTopo.npPad2 a t b l r
  np.pad(v, (l, r), "constant")                Art.ImpTopo.npPad1 v l r z      (z = false / 0 by the element type)
  [e for p in it if c]                         ((it.filter (fun p => c)).map (fun p => e))
      p a name or a tuple of names, it possibly zip(a, b) -> (List.zip a b)
  {k: e for x in it if c}                      ((it.filter (fun x => c)).map (fun x => (k, e)))  : assoc list
  cache.get("key", d) / cache["key"]           ((E.cache_int cache "key").getD d) / (E.cache_int cache "key").get!
  self.m(args), m a delegating method          (let m_p1 := a1; …; <body's return expression>)
      (TopoART.category_choice … : single `return self.base_module.m(…)`)
  self.base_module.m(args)                     (E.m [self_W] args)        (field of Art.ImpTopo.Ext: abstract)
  self.W                                       the state variable self_W  (the W property aliases base_module.W;
                                               getter and setter are checked to be exactly that alias)
  self.phi / self.tau                          self_phi / self_tau        (params read through __getattr__)

  statement                                    Lean rendering
  -------------------------------------------  ------------------------------------------------------------------
  print(…)                                     dropped (DROPPED)
  self.m += v    (m a boolean array)           let self_m := Art.ImpTopo.npOr self_m v
  self.a[i, j] += d                            let self_a := Art.ImpTopo.npAddAt2 self_a i j d   (Int index: .toNat)
  self.labels_[i] = e   (e : Nat)              let self_labels := self_labels.set i (Int.ofNat e)
  t[i] = self.m(args)   (m translated)         tmp_ = self.m(args); t[i] = tmp_
  self.m(args)          (m translated)         let r_ := m E ⟨self⟩ args; re-bind every attribute from r_.1
  return super().m(args)                       let r_ := BaseART_m E ⟨self⟩ args; re-bind; return r_.2
      (BaseART.m is translated from artlib/common/BaseART.py for *this* self: method lookup goes through
       TopoART first, then BaseART)
  return e   (e : Nat, method returns Int)     return (Int.ofNat e)
  end of a procedure (no return)               (⟨self attributes⟩, ())

Anything else raises `Unsupported`: the translator fails closed.
"""
from __future__ import annotations

import ast
import os
import sys
from contextlib import contextmanager
from pathlib import Path

from . import ctrans as ct
from .ktrans import Unsupported, find_function as _k_find

VERIF = Path(__file__).resolve().parents[2]
TOPO = "artlib/topological/TopoART.py"
BASE = ct.BASE
CLS = "TopoART"

THEOREMS = [
    "Topo.prune_spec", "Topo.prune_params", "Topo.post_step_fit_spec", "Topo.post_step_fit_model",
    "Topo.add_weight_spec", "Topo.add_weight_model", "Topo.set_weight_spec", "Topo.update_spec",
    "Topo.step_pred_spec", "Topo.hooks_spec",
    "Topo.gen_prune_shape", "Topo.gen_prune_keeps_exactly", "Topo.gen_prune_labels_ok", "Topo.gen_prune_adj",
]

COVERS = ("TopoART.prune, post_step_fit, add_weight, update (the adjacency increment), step_pred and the inherited BaseART.set_weight, "
          "step_pred, pre_step_fit, post_fit (as executed on a TopoART instance) are translated and proved equal to ArtModel/Topo.lean's prune (pruneMask, keepIdx, gather, "
          "relabel, topoPredLabel), the `n % tau == 0` trigger of topoFitStep, padAdj / the new-category branch of applyTopo, incAdj, and "
          "the counter/weight update of applyTopo; C14's prune_shape, prune_keeps_exactly, prune_labels_ok, adjAt_gather are transported to "
          "the generated prune.  Abstract (fields of Art.ImpTopo.Ext): base_module.category_choice / update and the integer reads of the "
          "cache dict; numpy operations are the helpers of ArtModel/ImpTopo.lean.  TopoART.step_fit is NOT translated (still tied by "
          "correspondence runs only).")

DROPPED = {
    "print(...)": "a debugging print left in TopoART.prune (writes a.shape, b.shape to stdout); no effect on the state",
    "assert": "asserts (dropped by ctrans: the theorems are about calls that do not raise)",
    "docstrings": "no effect",
    ".reshape(-1)": "of a vector that is already 1-D (weight_sample_counter_ is a flat list of ints): the identity",
    "np.array(list)": "a list and the 1-D array built from it are the same Lean list (ctrans rule)",
    "dtype": "np.zeros((1, 1)) is float64 and np.zeros(…, dtype=int) int64 in numpy; both are the Nat matrix here "
             "(adjacency only ever holds non-negative integers; TopoART.step_fit overwrites the float one immediately)",
    "W property": "TopoART.W (getter `return self.base_module.W`, setter `self.base_module.W = new_W`) is identified with the "
                  "state variable self_W; the translator checks that getter and setter are exactly this alias",
    "type annotations / casts": "int(...) of a non-negative index (ctrans rule)",
}

# ------------------------------------------------------------------------------------------------ profile

SELF_FIELDS = {"W": ("self_W", "W"), "weight_sample_counter_": ("self_cnt", "cnt"), "adjacency": ("self_adj", "adj"),
               "_permanent_mask": ("self_perm", "perm"), "labels_": ("self_labels", "labels"),
               "sample_counter_": ("self_n", "n"), "params": ("self_params", "params"), "phi": ("self_phi", "phi"),
               "tau": ("self_tau", "tau")}
SELF_TYPES = {"W": ("list", "Wt"), "weight_sample_counter_": ("list", "Nat"), "adjacency": ("list", ("list", "Nat")),
              "_permanent_mask": ("list", "Bool"), "labels_": ("list", "Int"), "sample_counter_": "Nat", "params": "P",
              "phi": "Nat", "tau": "Nat"}
READ_ONLY = {"phi", "tau", "params"}
# (source class, method) in translation order; the Lean name of a BaseART method reached through super() is BaseART_<m>
METHODS = [("BaseART", "pre_step_fit", "pre_step_fit"), ("BaseART", "post_fit", "post_fit"),
           ("BaseART", "set_weight", "set_weight"), ("TopoART", "add_weight", "add_weight"), ("TopoART", "update", "update"),
           ("BaseART", "step_pred", "BaseART_step_pred"), ("TopoART", "step_pred", "step_pred"), ("TopoART", "prune", "prune"),
           ("TopoART", "post_step_fit", "post_step_fit")]
METHOD_RET = {"pre_step_fit": "Unit", "post_fit": "Unit", "set_weight": "Unit", "add_weight": "Unit", "update": "Wt",
              "BaseART_step_pred": "Nat", "step_pred": "Int", "prune": "Unit", "post_step_fit": "Unit"}
PARAM_TYPES = {"x": "Xt", "X": ("list", "Xt"), "new_w": "Wt", "idx": "Nat", "i": "Xt", "w": "Wt", "params": "P", "cache": "C"}
# TopoART methods whose body is a single `return self.base_module.<m>(…)`: inlined as an expression
DELEGATES = {"category_choice"}
# methods of the abstract base module: name -> (field of Art.ImpTopo.Ext, parameter names, reads self.W first?, result type)
BASE_MODULE = {"category_choice": ("category_choice", ["i", "w", "params"], True, ("prod", [("opt", "α"), "C"])),
               "update": ("update", ["i", "w", "params", "cache"], False, "Wt")}
EXT_TY = "Art.ImpTopo.Ext Xt Wt P C α"

PROFILE = dict(SELF_FIELDS=SELF_FIELDS, SELF_TYPES=SELF_TYPES, SELF_TY="Art.ImpTopo.Self Wt P", METHOD_RET=METHOD_RET,
               TRANSLATED=[m for _, m, _ in METHODS], INLINE=set(), PURE_INLINE=set(), NESTED={}, NAMESPACE="Art.Gen.TopoART",
               FILE=TOPO, PARAM_TYPES=PARAM_TYPES, IGNORED_PARAMS=set(), WRITE_ONLY=set(), HAS_FLAGS={}, EXTERNAL={},
               EXTERNAL_RET={}, READS={}, CALLBACKS={}, CALLBACK_TYPE={}, GUARDS=set(), GUARD_FUNCS=set())

_PATCHED = ["ext", "tr_block", "lean_ty", "find_function"]
_orig = {}
_trees = {}


def _find(tree, cls, fn):
    """method lookup for a TopoART instance: TopoART first, then BaseART (`cls == "BaseART"`: BaseART only)"""
    if cls == "BaseART":
        return _k_find(_trees["BaseART"], "BaseART", fn)
    try:
        f = [g for g in _all_defs(_trees["TopoART"], "TopoART", fn)]
        if f:
            return f[0]
    except Unsupported:
        pass
    return _k_find(_trees["BaseART"], "BaseART", fn)


def _all_defs(tree, cls, fn):
    for node in tree.body:
        if isinstance(node, ast.ClassDef) and node.name == cls:
            return [f for f in node.body if isinstance(f, ast.FunctionDef) and f.name == fn]
    raise Unsupported(f"class {cls} not found")


@contextmanager
def _patched(trees):
    keys = set(PROFILE) | set(_PATCHED) | set(ct.PROFILES["BaseART"])
    saved = {k: getattr(ct, k) for k in keys if hasattr(ct, k)}
    added = [k for k in keys if not hasattr(ct, k)]
    _orig.update({k: getattr(ct, k) for k in _PATCHED})
    _trees.clear()
    _trees.update(trees)
    try:
        for k, v in PROFILE.items():
            setattr(ct, k, v)
        ct.ext, ct.tr_block, ct.lean_ty, ct.find_function = ext, tr_block, lean_ty, _find
        yield
    finally:
        for k, v in saved.items():
            setattr(ct, k, v)
        for k in added:
            if hasattr(ct, k):
                delattr(ct, k)
        _trees.clear()


# -------------------------------------------------------------------------------------------------- types

def lean_ty(t) -> str:
    if isinstance(t, tuple) and t[0] == "dict":
        return f"List ({lean_ty(t[1])} × {lean_ty(t[2])})"
    return _orig["lean_ty"](t)


def is_list(t, of=None):
    return isinstance(t, tuple) and t[0] == "list" and (of is None or t[1] == of)


def coerce(text: str, have, want, what: str) -> str:
    if have == want:
        return text
    if have == "Nat" and want == "Int":
        return f"(Int.ofNat {text})"
    raise Unsupported(f"{what}: a value of type {have} where {want} is expected")


def as_index(text: str, ty, what: str) -> str:
    if ty == "Nat":
        return text
    if ty == "Int":
        return f"({text}).toNat"
    raise Unsupported(f"{what}: index of type {ty}")


def nat_lit(e) -> str:
    if isinstance(e, ast.Constant) and isinstance(e.value, int) and not isinstance(e.value, bool) and e.value >= 0:
        return str(e.value)
    raise Unsupported(f"pad width / shape {ast.unparse(e)} is not a literal")


def is_const_mode(e) -> bool:
    return isinstance(e, ast.Constant) and e.value == "constant"


def src(e) -> str:
    return ast.unparse(e)


# --------------------------------------------------------------------------------------------- expressions

CMP = {ast.Gt: ">", ast.GtE: "≥", ast.Lt: "<", ast.LtE: "≤"}


def pattern(target, elem, inner, what):
    """bind a comprehension target (a name, or a tuple of names over pairs) -> the Lean `fun` pattern"""
    if isinstance(target, ast.Name):
        return inner.bind(target.id, elem)
    if isinstance(target, ast.Tuple) and all(isinstance(t, ast.Name) for t in target.elts) and isinstance(elem, tuple) \
            and elem[0] == "prod" and len(elem[1]) == len(target.elts):
        return "(" + ", ".join(inner.bind(t.id, ty) for t, ty in zip(target.elts, elem[1])) + ")"
    raise Unsupported(f"{what}: target {src(target)} over elements of type {elem}")


def comprehension(e, env, make_elt):
    if len(e.generators) != 1 or e.generators[0].is_async or len(e.generators[0].ifs) > 1:
        raise Unsupported("comprehension shape")
    g = e.generators[0]
    it, ity = ext(g.iter, env)
    if not is_list(ity):
        raise Unsupported(f"comprehension over {ity}")
    inner = env.copy()
    inner.rec = None
    pat = pattern(g.target, ity[1], inner, "comprehension")
    source = f"({it})"
    if g.ifs:
        c, cty = ext(g.ifs[0], inner)
        if cty != "Bool":
            raise Unsupported("comprehension filter is not boolean")
        source = f"({source}.filter (fun {pat} => {c}))"
    et, ety = make_elt(inner)
    return f"({source}.map (fun {pat} => {et}))", ety


def delegate(m, call, env):
    """`self.m(args)` where TopoART.m only forwards to the base module: the body's return expression, with the
    parameters bound by `let`"""
    f = _find(env.tree, env.cls, m)
    body = ct.strip_doc(f.body)
    if len(body) != 1 or not isinstance(body[0], ast.Return) or body[0].value is None:
        raise Unsupported(f"{m}: a delegating method must be a single return")
    names = ct.signature_of(env, m)
    args = ct.order_args(call, names, m)
    inner = env.copy()
    inner.rec = None
    inner.prefix = m.strip("_") + "_"
    inner.names = {}
    lets = []
    for n_, a_ in zip(names, args):
        t_, ty_ = ext(a_, env)
        lets.append(f"let {inner.bind(n_, ty_)} := {t_}")
    rt, rty = ext(body[0].value, inner)
    return "(" + "; ".join(lets + [rt]) + ")", rty


def base_module_call(e):
    """self.base_module.<m>(…)"""
    if isinstance(e, ast.Call) and isinstance(e.func, ast.Attribute) and ct.is_self_attr(e.func.value) == "base_module":
        return e.func.attr
    return None


def my_ext(e, env):
    if isinstance(e, ast.UnaryOp) and isinstance(e.op, ast.USub) and isinstance(e.operand, ast.Constant) \
            and isinstance(e.operand.value, int) and not isinstance(e.operand.value, bool):
        return f"(-{e.operand.value})", "Int"
    if isinstance(e, ast.BinOp) and isinstance(e.op, ast.Mod):
        (l, lty), (r, rty) = ext(e.left, env), ext(e.right, env)
        if lty != "Nat" or rty != "Nat":
            raise Unsupported(f"% on {lty}, {rty}")
        return f"({l} % {r})", "Nat"
    if isinstance(e, ast.Compare) and len(e.ops) == 1 and not isinstance(e.ops[0], (ast.Is, ast.IsNot)):
        op, le, re_ = e.ops[0], e.left, e.comparators[0]
        if type(op) in CMP:
            (l, lty), (r, rty) = ext(le, env), ext(re_, env)
            if is_list(lty, "Nat") and rty == "Nat":
                if not isinstance(op, ast.GtE):
                    raise Unsupported(f"array comparison {src(e)}")
                return f"(Art.ImpTopo.npGe {ct.arg(le, env)} {ct.arg(re_, env)})", ("list", "Bool")
            if lty in ("Nat", "Int") and rty in ("Nat", "Int"):
                ty = "Int" if "Int" in (lty, rty) else "Nat"
                return f"(decide ({coerce(l, lty, ty, src(e))} {CMP[type(op)]} {coerce(r, rty, ty, src(e))}))", "Bool"
            raise Unsupported(f"comparison {src(e)} on {lty}, {rty}")
        if isinstance(op, ast.Eq):
            try:
                lty = ext(le, env)[1]
            except Unsupported:
                return None
            if is_list(lty):
                rty = ext(re_, env)[1]
                if lty == ("list", "Nat") and rty == "Int":
                    return f"(Art.ImpTopo.npEq {ct.arg(le, env)} {ct.arg(re_, env)})", ("list", "Bool")
                raise Unsupported(f"array comparison {src(e)} on {lty}, {rty}")
            return None
        if isinstance(op, ast.In) and not isinstance(re_, ast.List):
            rty = ext(re_, env)[1]
            if isinstance(rty, tuple) and rty[0] == "dict":
                k = coerce(ct.ex(le, env), ext(le, env)[1], rty[1], src(e))
                return f"(Art.ImpTopo.dictGet {ct.arg(re_, env)} ({k})).isSome", "Bool"
            if rty == ("list", "Nat"):
                k = coerce(ct.ex(le, env), ext(le, env)[1], "Int", src(e))
                return f"(Art.ImpTopo.npContains {ct.arg(re_, env)} ({k}))", "Bool"
            return None
        return None
    if isinstance(e, ast.Subscript) and isinstance(e.ctx, ast.Load):
        v, sl = e.value, e.slice
        if isinstance(v, ast.Call) and src(v.func) == "np.where":
            if not (isinstance(sl, ast.Constant) and sl.value == 0 and len(v.args) == 1 and not v.keywords):
                raise Unsupported(f"np.where form {src(e)}")
            m, mty = ext(v.args[0], env)
            if mty != ("list", "Bool"):
                raise Unsupported("np.where of something that is not a 1-D boolean array")
            return f"(Art.ImpTopo.npWhere {ct.arg(v.args[0], env)})", ("list", "Nat")
        if isinstance(sl, ast.Slice):
            return None
        vt, vty = ext(v, env)
        if isinstance(sl, ast.Tuple):
            if len(sl.elts) == 2 and isinstance(sl.elts[0], ast.Slice) and not (sl.elts[0].lower or sl.elts[0].upper or sl.elts[0].step) \
                    and is_list(vty) and is_list(vty[1]) and ext(sl.elts[1], env)[1] == ("list", "Nat"):
                return f"(Art.ImpTopo.npTakeCols {ct.arg(v, env)} {ct.arg(sl.elts[1], env)})", vty
            raise Unsupported(f"subscript {src(e)}")
        if isinstance(vty, tuple) and vty[0] == "dict":
            k = coerce(ct.ex(sl, env), ext(sl, env)[1], vty[1], src(e))
            return f"(Art.ImpTopo.dictGet {ct.arg(v, env)} ({k})).get!", vty[2]
        if vty == "C":
            if not (isinstance(sl, ast.Constant) and isinstance(sl.value, str)):
                raise Unsupported(f"cache key {src(sl)}")
            return f'(E.cache_int {vt} "{sl.value}").get!', "Int"
        if is_list(vty) and ext(sl, env)[1] == ("list", "Nat"):
            return f"(Art.ImpTopo.npTake {ct.arg(v, env)} {ct.arg(sl, env)})", vty
        return None
    if isinstance(e, ast.ListComp):
        g = e.generators[0] if len(e.generators) == 1 else None
        if g is not None and (g.ifs or isinstance(g.target, ast.Tuple)) and not (
                isinstance(g.iter, ast.Call) and isinstance(g.iter.func, ast.Name) and g.iter.func.id == "enumerate"):
            t, ety = comprehension(e, env, lambda inner: ext(e.elt, inner))
            return t, ("list", ety)
        return None
    if isinstance(e, ast.DictComp):
        kinds = {}

        def elt(inner):
            (k, kty), (v, vty) = ext(e.key, inner), ext(e.value, inner)
            kinds["k"], kinds["v"] = kty, vty
            return f"({k}, {v})", ("prod", [kty, vty])
        t, _ = comprehension(e, env, elt)
        return t, ("dict", kinds["k"], kinds["v"])
    if isinstance(e, ast.Call):
        fn = src(e.func)
        sc = ct.self_call(e)
        if sc and sc[0] in DELEGATES:
            return delegate(sc[0], sc[1], env)
        bm = base_module_call(e)
        if bm is not None:
            if bm not in BASE_MODULE:
                raise Unsupported(f"call of self.base_module.{bm}")
            field, names, reads_w, rty = BASE_MODULE[bm]
            args = ct.order_args(e, names, "base_module." + bm)
            want = {"i": "Xt", "w": "Wt", "params": "P", "cache": "C"}
            for n_, a_ in zip(names, args):
                if ext(a_, env)[1] != want[n_]:
                    raise Unsupported(f"base_module.{bm}: argument {n_} has type {ext(a_, env)[1]}")
            return "(E." + field + (" self_W " if reads_w else " ") + " ".join(ct.arg(a_, env) for a_ in args) + ")", rty
        if isinstance(e.func, ast.Attribute) and e.func.attr == "reshape":
            if len(e.args) == 1 and not e.keywords and src(e.args[0]) == "-1":
                vt, vty = ext(e.func.value, env)
                if is_list(vty) and not is_list(vty[1]):
                    return vt, vty
            raise Unsupported(f"reshape form {src(e)}")
        if isinstance(e.func, ast.Attribute) and e.func.attr == "get" and isinstance(e.func.value, ast.Name) \
                and e.func.value.id in env.names and env.types.get(env.names[e.func.value.id]) == "C":
            if len(e.args) == 2 and not e.keywords and isinstance(e.args[0], ast.Constant) and isinstance(e.args[0].value, str):
                d, dty = ext(e.args[1], env)
                return f'((E.cache_int {env.names[e.func.value.id]} "{e.args[0].value}").getD {coerce(d, dty, "Int", src(e))})', "Int"
            raise Unsupported(f"cache.get form {src(e)}")
        if fn == "np.unique" and len(e.args) == 1 and not e.keywords:
            if ext(e.args[0], env)[1] != ("list", "Int"):
                raise Unsupported("np.unique of something that is not an int vector")
            return f"(Art.ImpTopo.npUnique {ct.arg(e.args[0], env)})", ("list", "Int")
        if fn == "np.zeros" and len(e.args) == 1 and isinstance(e.args[0], ast.Tuple):
            kws = [src(k_) for k_ in e.keywords]
            dims = e.args[0].elts
            if len(dims) == 2 and kws in ([], ["dtype=int"]):
                return f"(Art.ImpTopo.npZeros2 {nat_lit(dims[0])} {nat_lit(dims[1])})", ("list", ("list", "Nat"))
            if len(dims) == 1 and kws == ["dtype=bool"]:
                return f"(List.replicate {nat_lit(dims[0])} false)", ("list", "Bool")
            return None
        if fn == "np.pad" and len(e.args) == 3 and not e.keywords and is_const_mode(e.args[2]) and isinstance(e.args[1], ast.Tuple) \
                and len(e.args[1].elts) == 2:
            a, aty = ext(e.args[0], env)
            p, q = e.args[1].elts
            if isinstance(p, ast.Tuple) and isinstance(q, ast.Tuple) and len(p.elts) == 2 and len(q.elts) == 2:
                if aty != ("list", ("list", "Nat")):
                    raise Unsupported(f"2-D np.pad of {aty}")
                w = " ".join(nat_lit(x) for x in p.elts + q.elts)
                return f"(Art.ImpTopo.npPad2 {ct.arg(e.args[0], env)} {w})", aty
            zero = {("list", "Bool"): "false", ("list", "Nat"): "0", ("list", "Int"): "0"}.get(aty)
            if zero is None:
                raise Unsupported(f"1-D np.pad of {aty}")
            return f"(Art.ImpTopo.npPad1 {ct.arg(e.args[0], env)} {nat_lit(p)} {nat_lit(q)} {zero})", aty
        if fn == "zip" and len(e.args) == 2 and not e.keywords:
            return None          # ctrans: List.zip
        return None
    return None


def ext(e, env):
    r = my_ext(e, env)
    return r if r is not None else _orig["ext"](e, env)


# ---------------------------------------------------------------------------------------------- statements

def super_call(e):
    """super().m(args)"""
    if isinstance(e, ast.Call) and isinstance(e.func, ast.Attribute) and isinstance(e.func.value, ast.Call) \
            and isinstance(e.func.value.func, ast.Name) and e.func.value.func.id == "super" and not e.func.value.args:
        return e.func.attr
    return None


def call_super(m, call, env, target) -> list[str]:
    lname = "BaseART_" + m
    if lname not in METHOD_RET:
        raise Unsupported(f"super().{m} is not translated")
    f = _find(None, "BaseART", m)
    names = [a_.arg for a_ in f.args.args[1:]]
    args = ct.order_args(call, names, "super()." + m)
    for n_, a_ in zip(names, args):
        if ext(a_, env)[1] != PARAM_TYPES.get(n_):
            raise Unsupported(f"super().{m}: argument {n_}")
    lines = [f"let r_ := {lname} E {ct.self_pack()} " + " ".join(ct.arg(a_, env) for a_ in args)]
    lines += ct.self_unpack("r_.1", env)
    v = env.bind(target, METHOD_RET[lname])
    lines.append(f"let {v} := r_.2")
    return lines


def name(id_, store=False):
    return ast.Name(id=id_, ctx=ast.Store() if store else ast.Load())


def tr_block(stmts, env, k):
    stmts = ct.strip_doc(stmts)
    if not stmts:
        return k.fall(env)
    s, rest = stmts[0], stmts[1:]
    orig = _orig["tr_block"]
    # writes to attributes that are parameters of the algorithm are not translated
    for n in ast.walk(s) if isinstance(s, (ast.Assign, ast.AugAssign, ast.AnnAssign)) else ():
        if isinstance(n, ast.Attribute) and isinstance(n.ctx, ast.Store) and ct.is_self_attr(n) in READ_ONLY:
            raise Unsupported(f"write to self.{n.attr}")
    if isinstance(s, ast.Expr) and isinstance(s.value, ast.Call) and isinstance(s.value.func, ast.Name) and s.value.func.id == "print":
        return tr_block(rest, env, k)                                              # DROPPED["print(...)"]
    if isinstance(s, ast.Expr) and ct.self_call(s.value) and ct.self_call(s.value)[0] in ct.TRANSLATED:
        m, call = ct.self_call(s.value)
        return ct.call_translated(m, call, env, "unit_") + tr_block(rest, env, k)
    if isinstance(s, ast.AugAssign) and isinstance(s.op, ast.Add):
        a = ct.is_self_attr(s.target)
        if a in SELF_FIELDS and SELF_TYPES[a] == ("list", "Bool"):
            rhs, rty = ext(s.value, env)
            if rty != ("list", "Bool"):
                raise Unsupported(f"self.{a} += a value of type {rty}")
            old = SELF_FIELDS[a][0]
            v = env.bind_self(a)
            return [f"let {v} := Art.ImpTopo.npOr {old} {rhs}"] + tr_block(rest, env, k)
        t = s.target
        if isinstance(t, ast.Subscript) and isinstance(t.slice, ast.Tuple) and len(t.slice.elts) == 2 \
                and ct.is_self_attr(t.value) in SELF_FIELDS and SELF_TYPES[ct.is_self_attr(t.value)] == ("list", ("list", "Nat")):
            a = ct.is_self_attr(t.value)
            i, j = (as_index(*ext(x, env), src(s)) for x in t.slice.elts)
            d, dty = ext(s.value, env)
            if dty != "Nat":
                raise Unsupported(f"{src(s)}: increment of type {dty}")
            old = SELF_FIELDS[a][0]
            v = env.bind_self(a)
            return [f"let {v} := Art.ImpTopo.npAddAt2 {old} ({i}) ({j}) {d}"] + tr_block(rest, env, k)
    if isinstance(s, ast.Assign) and len(s.targets) == 1 and isinstance(s.targets[0], ast.Subscript) \
            and not isinstance(s.targets[0].slice, (ast.Slice, ast.Tuple)):
        t = s.targets[0]
        sc = ct.self_call(s.value)
        if sc and sc[0] in ct.TRANSLATED:
            # t[i] = self.m(args)   ->   tmp_ = self.m(args); t[i] = tmp_
            first = ast.fix_missing_locations(ast.copy_location(ast.Assign(targets=[name("tmp_", True)], value=s.value), s))
            second = ast.fix_missing_locations(ast.copy_location(ast.Assign(targets=[t], value=name("tmp_")), s))
            return tr_block([first, second] + rest, env, k)
        a = ct.is_self_attr(t.value)
        if a in SELF_FIELDS and SELF_TYPES[a] == ("list", "Int"):
            rhs, rty = ext(s.value, env)
            idx = ct.arg(t.slice, env)
            if ext(t.slice, env)[1] != "Nat":
                raise Unsupported(f"{src(s)}: index type")
            old = SELF_FIELDS[a][0]
            v = env.bind_self(a)
            return [f"let {v} := {old}.set {idx} {coerce(rhs, rty, 'Int', src(s))}"] + tr_block(rest, env, k)
    if isinstance(s, ast.Return) and s.value is not None and super_call(s.value):
        if rest:
            raise Unsupported("code after return")
        lines = call_super(super_call(s.value), s.value, env, "tmp_")
        return lines + tr_block([ast.fix_missing_locations(ast.copy_location(ast.Return(value=name("tmp_")), s))], env, k)
    if isinstance(s, ast.Return) and s.value is not None and not env.pure and not rest:
        val, vty = ext(s.value, env)
        if vty == "Nat" and env.ret_ty == "Int":
            return [k.ret(f"({ct.self_pack()}, {coerce(val, vty, 'Int', src(s))})")]
    return orig(stmts, env, k)


# ------------------------------------------------------------------------------------------------- methods

def check_w_alias(tree):
    """`TopoART.W` must be the plain alias of `base_module.W` that the translation takes it for"""
    defs = _all_defs(tree, CLS, "W")
    bodies = sorted("; ".join(src(b) for b in ct.strip_doc(f.body)) for f in defs)
    if bodies != ["return self.base_module.W", "self.base_module.W = new_W"]:
        raise Unsupported(f"TopoART.W is not the alias of base_module.W any more: {bodies}")
    for m in DELEGATES:
        if len(_all_defs(tree, CLS, m)) != 1:
            raise Unsupported(f"TopoART.{m} is not defined exactly once")


def translate_method(cls: str, pyname: str, lname: str) -> str:
    f = _find(None, cls, pyname) if cls == "BaseART" else _k_find(_trees[CLS], CLS, pyname)
    env = ct.Env(_trees[CLS], CLS)
    env.fn = lname
    env.ret_ty = METHOD_RET[lname]
    a = f.args
    if a.vararg or a.kwarg or a.kwonlyargs or a.posonlyargs:
        raise Unsupported(f"{pyname}: signature")
    params = []
    for x in a.args[1:]:
        if x.arg not in PARAM_TYPES:
            raise Unsupported(f"{pyname}: parameter {x.arg}")
        env.names[x.arg] = x.arg
        env.types[x.arg] = PARAM_TYPES[x.arg]
        params.append(f"({x.arg} : {lean_ty(PARAM_TYPES[x.arg])})")

    def fall(e_):
        if env.ret_ty != "Unit":
            raise Unsupported(f"{pyname}: a path ends without return")
        return [f"({ct.self_pack()}, ())"]
    body = tr_block(f.body, env, ct.K(fall, lambda t_: t_))
    head = [f"/-- generated from `{cls}.{pyname}`" + (" (called on a TopoART instance)" if cls != CLS else "") + " -/",
            f"def {lname} {ct.HEADER_CLASSES}",
            f"    (E : {EXT_TY}) (self : {ct.SELF_TY}) " + " ".join(params) + " :",
            f"    {ct.ret_type(env)} :="]
    pre = [f"let {v} := self.{fld}" for v, fld in SELF_FIELDS.values()]
    return "\n".join(env.helpers) + ("\n" if env.helpers else "") + "\n".join(head + ct.ind(pre + body)) + "\n"


def generate(repo: Path) -> str:
    repo = Path(repo)
    trees = {CLS: ast.parse((repo / TOPO).read_text()), "BaseART": ast.parse((repo / BASE).read_text())}
    chunks = ["/-",
              f"GENERATED by harness/artv/ttrans.py from {TOPO} and {BASE} — do not edit.",
              "Regenerated on every run of the checks that name it; `ArtGenProofs/TopoSpec.lean` proves the definitions equal to the",
              "model's `prune`, `padAdj`, `incAdj`, `applyTopo` bookkeeping and the pruning trigger of `topoFitStep` for all arguments.",
              "-/",
              "import ArtModel.Imp",
              "import ArtModel.ImpTopo",
              "import ArtModel.Search",
              "",
              "set_option linter.unusedVariables false",
              "",
              "namespace Art.Gen.TopoART",
              ""]
    with _patched(trees):
        check_w_alias(trees[CLS])
        for cls, py, ln in METHODS:
            if cls == "BaseART" and ln == py and _all_defs(trees[CLS], CLS, py):
                raise Unsupported(f"TopoART now overrides {py}: the translation table takes it from BaseART")
            chunks.append(translate_method(cls, py, ln))
    chunks += ["end Art.Gen.TopoART", ""]
    return "\n".join(chunks).replace("Art.Imp.Ext Xt Wt P C α", EXT_TY)


def write(repo: Path = None) -> tuple[bool, str]:
    repo = Path(repo or os.environ.get("VERIF_REPO", "/repo"))
    out = VERIF / "lean" / "ArtGen" / "Topo.lean"
    try:
        text = generate(repo)
    except (Unsupported, SyntaxError, OSError, KeyError, AttributeError, TypeError, IndexError) as e:
        return False, f"TopoART translator failed closed: {type(e).__name__}: {e}"
    if not out.exists() or out.read_text() != text:
        tmp = out.with_suffix(".lean.tmp")
        tmp.write_text(text)
        os.replace(tmp, out)
    return True, "generated"


if __name__ == "__main__":
    ok_, msg_ = write(Path(sys.argv[1]) if len(sys.argv) > 1 else None)
    print(msg_)
    sys.exit(0 if ok_ else 1)
