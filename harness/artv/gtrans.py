"""Validity-index-gate translator: the Python AST of `artlib/cvi/iCVIFuzzyArt.py` (class iCVIFuzzyART: `iCVI_match`, `fit`)
and of `artlib/cvi/CVIART.py` (class CVIART: the class constants, the `W` / `labels_` properties with their setters,
`CVI_match`, `fit`)  ->  Lean 4 definitions in `lean/ArtGen/Gate.lean`.

Both classes are glue around code that is already translated: the incremental index object `iCVI_CH` (itrans.py ->
`Art.Gen.ICVI.*`, lean/ArtGen/ICVI.lean) and the inherited / nested `BaseART.step_fit` (ctrans.py ->
`Art.Gen.BaseART.step_fit`, lean/ArtGen/Control.lean).  This module translates the glue and emits *calls of those
generated definitions* where the source calls them, so that `lean/ArtGenProofs/GateSpec.lean` can compose the existing
proofs `generated = model` into statements about `icviMatch`, `gateVeto`, `cviMatch`, `trackOnline`, `trackOffline`
(ArtModel/ICVI.lean), the definitions the C15 theorems are stated about.

Objects.  An iCVIFuzzyART instance is `iCVIFuzzyART.Self Wt P α` = (`base : Art.Imp.Self Wt P`, the BaseART state it
inherits: W, counters, params, labels_; `offline`, `iCVI : Art.Gen.ICVI.Self α`, `index`, `is_fitted_`); a CVIART instance
is `CVIART.Self Xt Wt P` = (`base_module : Art.Imp.Self Wt P`, `validity`, `data`, `is_fitted_`).  The abstract kernel of
the (inherited / nested) elementary module is `E : Art.Imp.Ext …` as in ctrans; `sklearn.metrics` is
`MET : Art.ImpGate.Metrics Xt α`.  Everything runs in the `Option` monad (`none` = the Python code raises); a method that
writes `self` yields the new `self`.

The translation table (one fixed rendering per construct; the rendering of a subscript / call is chosen by the operand type):
  x = e  /  x: T = e                    ->  let x := e                              (re-binding shadows; annotation dropped)
  self.a = e                            ->  let self := { self with <path of a> := e }          (table ATTRS; `W` also sets hasW)
  self.<nested>.a = e                   ->  let self := { self with <nested> := { self.<nested> with <a> := e } }
  self.p = e      (p a property)        ->  let self := (← p_set self e)            (the translated setter)
  self.a[i] = e  /  v[i] = e            ->  let … := (← Art.ImpGate.npSet <array> i e)          IndexError = none
  self.p[i] = e   (p a property)        ->  let self := (← p_set self (← Art.ImpGate.npSet (← p self) i e))
        (side condition, checked: the getter is `return <path>` and the setter `<path> = v` for the same path, so the
         in-place write on the returned array is a write of that attribute)
  self.a / self.<nested>.a / self.iCVI.a->  self.<path>                             (attributes; iCVI attributes from itrans' schema)
  self.C          (C a class constant)  ->  C                                       (a `def C : Nat := <literal>` generated from the class body)
  self.p          (p a property)        ->  (← p self)
  self.params["k"]                      ->  self.<field>                            (table PARAM_KEYS: "validity"; `self.offline` = params["offline"])
  d["k"]          (d a candidate dict)  ->  (← Val.asT (← Imp.aget d "k"))           (T from itrans' key schema; KeyError = none)
  extra["k"]      (the Extra record)    ->  extra.k
  xs[i]                                 ->  (← xs[i]?)                              IndexError = none
  X.shape[0]  /  len(xs)                ->  (X).length  /  (xs).length
  np.zeros((n,), dtype=int)             ->  (List.replicate n 0)
  np.copy(v)                            ->  v                                       (values are immutable: a copy is the value)
  {"index": a, "validity": b}           ->  ({ index := a, validity := b } : Art.ImpGate.Extra)     exactly these keys
  metrics.f                             ->  MET.f                                   (f one of the three scores)
  f(a, b)         (f a score variable)  ->  (← f a b)
  iCVI_CH(e)                            ->  (← Art.Gen.ICVI.init e)
  self.iCVI.add_sample(x, l) / .switch_label(x, lo, ln)
                                        ->  (← Art.Gen.ICVI.add_sample self.iCVI x l) / (← Art.Gen.ICVI.switch_label self.iCVI x lo ln)
  self.iCVI.update(p)     (statement)   ->  let self := { self with iCVI := (← Art.Gen.ICVI.update self.iCVI p) }
  self.m(args)    (m translated here)   ->  (← m [MET] self args)
  a > b, a < b, a == b, a != b          ->  (a > b), (a < b), (a = b), (a ≠ b)      decidable propositions; `return <prop>` -> pure (decide …)
  f is None       (f an Optional[Callable] parameter)  ->  f_is_none               (ctrans' encoding: a flag and a total function)
  f(a, …)         (f a callback)        ->  (f a …)
  a & b           (booleans)            ->  (a && b)                                both operands are evaluated (raises propagate)
  a and b         (booleans)            ->  (← (if a then (do pure b) else (do pure false)))     b is evaluated only when a holds
  lambda a…: e                          ->  (fun a… => Art.ImpGate.callback (do pure e))
  self.m          (a bound method used as a callback)
                                        ->  (fun a1 … a5 => Art.ImpGate.callback (do pure (← m [MET] self a1 … a5)))
        (side condition, checked: the methods a callback reaches read only attributes in CALLBACK_MAY_READ, none of
         which `BaseART.step_fit` writes before it calls the callback — the closure may capture the object as it is
         before the call)
  c = self.step_fit(x, kw…) / c = self.<nested>.step_fit(x, kw…)
                                        ->  let r_ := Art.Gen.BaseART.step_fit E (<base>.W).length <base> x false <callback> mt eps
                                            let self := { self with <base> := r_.1 } ;  let c := r_.2
        (arguments follow BaseART.step_fit's own signature as read from BaseART.py; fuel = len(W) as in ctrans; checked:
         neither iCVIFuzzyART nor FuzzyART overrides step_fit)
  if c: A else: B         (fall through)->  let (vars) ← if c then (do A; pure (vars)) else (do B; pure (vars))
        a branch that ends in `raise` is `(do …; none)`
  if c: …return           (no else)     ->  if c then (do …) else (do <the rest of the block>)
  if c: …return else: …return           ->  if c then (do …) else (do …)
  for x in X / for i, x in enumerate(X) / for _ in range(n):  B
                                        ->  a definition `<method>_loop<k>_body <variables in scope> : state → element → Option state`
                                            and   let (vars) ← (X / List.zipIdx X / List.range n).foldlM (<method>_loop<k>_body …) (vars)
  return e / return self / raise ValueError(…)   ->  pure e / pure self / none
Anything else raises `Unsupported`: the translator fails closed.
"""
from __future__ import annotations

import ast
import os
import sys
from pathlib import Path

from . import itrans as I
from .ktrans import Unsupported, MODE_CTOR

VERIF = Path(__file__).resolve().parents[2]
BASE_FILE = "artlib/common/BaseART.py"
FUZZY_FILE = "artlib/elementary/FuzzyART.py"
H = "Art.ImpGate."

DROPPED = {
    "docstrings": "string-expression statements have no effect",
    "type annotations": "`x: T = e`, parameter and return annotations have no run-time effect; the translator uses its own types",
    "self.validate_data(X), self.check_dimensions(X), self.base_module.validate_data(X), self.base_module.check_dimensions(X)":
        "guards that only raise on invalid data (check_dimensions also records `dim_`, which nothing translated reads): "
        "the theorems are about calls on valid data; validation is C18's subject",
    "self.pre_step_fit(X), self.post_step_fit(X)":
        "hooks whose body is empty: the callee is inspected — BaseART.pre_step_fit / post_step_fit consist of a docstring and "
        "`pass`, iCVIFuzzyART and FuzzyART do not override them, CVIART's are `return self.base_module.<hook>(X)`; the nested "
        "base module is assumed not to override them (as ctrans does for BaseART.fit)",
    "the parameter `y` of fit": "accepted for sklearn compatibility; checked to be unread",
    "np.copy(v)": "lists are immutable values: the copy is the value itself",
    "dtype=int in np.zeros": "the labels are natural numbers in the translation",
    "the message of `raise ValueError(…)`": "a raise is `none`; the text is not modelled",
    "__init__, validate_params, validate_data, check_dimensions, partial_fit, prepare_data, restore_data, _match_tracking, "
    "_set_params, _deep_copy_params, pre_step_fit, post_step_fit, step_fit, step_pred, get_cluster_centers, plot_cluster_bounds":
        "not translated (constructor and parameter validation, data scaling = C18/C19, plotting, NotImplementedError stubs, "
        "delegations that training does not call; CVIART._match_tracking is ktrans' `cviart_match_tracking` and is not "
        "reached by CVIART.fit, which calls the *base module's* step_fit) — out of the slice",
    "import statements": "checked only for the names the rules rely on (`metrics`, `iCVI_CH`, `FuzzyART`, `BaseART`)",
}

COVERS = ("iCVIFuzzyART.iCVI_match and fit (artlib/cvi/iCVIFuzzyArt.py; online and offline mode, with and without a user reset "
          "function) and CVIART's class constants, W / labels_ properties and setters, CVI_match and fit (artlib/cvi/CVIART.py) "
          "are translated; iCVI_match is proved equal to ArtModel/ICVI's icviMatch, the reset functions fit hands to step_fit to "
          "gateVeto user (icviMatch …) / gateVeto user (cviMatch …), CVI_match to cviMatch, the iCVI object after fit to "
          "trackOnline / trackOffline of the returned labels (hence criterion_value = chBatch (X, labels_)), and the C15 gate "
          "theorems are transported to the generated step of both fits.  The calls of iCVI_CH's methods are the definitions "
          "itrans generates (ArtGen/ICVI.lean, tied by ICVISpec), self.step_fit / base_module.step_fit is the definition ctrans "
          "generates from BaseART.py (ArtGen/Control.lean, tied by ControlSpec.step_fit_refines under the kernel contract); the "
          "elementary module's kernel is the abstract `Art.Imp.Ext`, the three sklearn.metrics scores are the abstract fields of "
          "`Art.ImpGate.Metrics` (Option-valued: a raise of sklearn is `none`).")

THEOREMS = [
    "Gate.callback_and", "Gate.callback_andalso", "Gate.iCVI_match_defined", "Gate.iCVI_match_spec",
    "Gate.icvi_lambda_none_spec", "Gate.icvi_lambda_user_spec", "Gate.step_fit_labels", "Gate.step_fit_empty",
    "Gate.icvi_step_unfold", "Gate.icvi_step_spec", "Gate.icvi_loop", "Gate.icvi_adds0", "Gate.fit_unfold",
    "Gate.fit_online_spec", "Gate.fit_offline_spec", "Gate.gen_fit_tracks_online", "Gate.gen_fit_tracks_offline",
    "Gate.gen_icvi_gate", "Gate.gen_icvi_gate_online", "Gate.gen_icvi_gate_offline",
    "Gate.iCVI_match_returns_online", "Gate.iCVI_match_returns_offline",
    "Gate.accessors_spec", "Gate.CVI_match_few", "Gate.CVI_match_invalid", "Gate.CVI_match_raises", "Gate.CVI_match_spec",
    "Gate.cvi_lambda_none_spec", "Gate.cvi_lambda_user_spec", "Gate.cvi_step_spec", "Gate.gen_cvi_gate",
    "Gate.cvi_fit_labels_length",
]

# ---------------------------------------------------------------- types
# "nat" "bool" "prop" "num" "mt" "x" (a sample) "xs" "lnat" "wt" "lwt" "P" "C" "rec" (a candidate dict of iCVI_CH)
# "icvi" "base" "self" "cb" (a total callback) "cbopt" (an Optional[Callable] parameter) "score" "extra"
CB_PARAMS = ["x", "wt", "nat", "P", "C"]
ELEM = {"xs": "x", "lnat": "nat", "lwt": "wt"}
METRIC_NAMES = ["calinski_harabasz_score", "davies_bouldin_score", "silhouette_score"]
EXTRA_KEYS = ["index", "validity"]
BASE_ATTRS = {"W": ("W", "lwt"), "weight_sample_counter_": ("cnt", "lnat"), "sample_counter_": ("n", "nat"),
              "labels_": ("labels", "lnat"), "params": ("params", "P")}
GUARDS = {"validate_data", "check_dimensions"}
HOOKS = {"pre_step_fit", "post_step_fit"}
ICVI_ATTRS = {a: {"int": None, "num": "num", "vec": None, "cd": None}[t] for a, t in I.SELF_ATTRS.items()}
ICVI_KEY_TY = {"num": "num"}                   # the key types of itrans' schema this module reads
LIT = ["MT+", "MT-", "MT0", "MT1", "MT~"]

PROFILES = {
    "iCVIFuzzyART": dict(
        file="artlib/cvi/iCVIFuzzyArt.py", bases=["FuzzyART"],
        typevars="{Wt P C α : Type} [Add α] [Sub α] [Mul α] [Div α] [Zero α] [IntCast α] [DecidableEq α] [LT α] "
                 "[DecidableRel (α := α) (· < ·)] [Inhabited Wt] [Inhabited C]",
        self_params="(Wt P α : Type)", self_ty="Self Wt P α", X="List α",
        fields=[("base", "Art.Imp.Self Wt P", "the inherited BaseART state: W, weight_sample_counter_, sample_counter_, params, labels_"),
                ("offline", "Bool", "`self.offline` = `params[\"offline\"]` (BaseART.__getattr__)"),
                ("iCVI", "Art.Gen.ICVI.Self α", "the `iCVI_CH` object"), ("index", "Nat", "`self.index`"),
                ("is_fitted_", "Bool", "`self.is_fitted_`")],
        attrs={"W": ("base.W", "lwt"), "weight_sample_counter_": ("base.cnt", "lnat"), "sample_counter_": ("base.n", "nat"),
               "labels_": ("base.labels", "lnat"), "iCVI": ("iCVI", "icvi"), "index": ("index", "nat"),
               "is_fitted_": ("is_fitted_", "bool"), "offline": ("offline", "bool")},
        readonly={"offline"}, param_keys={}, nested={}, consts=[], properties=[],
        stepfit=("self", "base"),
        may_define={"__init__", "iCVI_match", "fit"},
        callback_may_read={"offline", "iCVI", "labels_", "index"},
        methods=[("iCVI_match", [("x", "x"), ("w", "wt"), ("c_", "nat"), ("params", "P"), ("cache", "C")], "bool"),
                 ("fit", [("X", "xs"), ("y", None), ("match_reset_func", "cbopt"), ("max_iter", "nat"),
                          ("match_tracking", "mt"), ("epsilon", "num")], "self")],
    ),
    "CVIART": dict(
        file="artlib/cvi/CVIART.py", bases=["BaseART"],
        typevars="{Xt Wt P C α : Type} [LT α] [DecidableRel (α := α) (· < ·)] [Inhabited Wt] [Inhabited C]",
        self_params="(Xt Wt P : Type)", self_ty="Self Xt Wt P", X="Xt",
        fields=[("base_module", "Art.Imp.Self Wt P", "the nested elementary module"),
                ("validity", "Nat", "`self.params[\"validity\"]`"), ("data", "List Xt", "`self.data`"),
                ("is_fitted_", "Bool", "`self.is_fitted_`")],
        attrs={"data": ("data", "xs"), "is_fitted_": ("is_fitted_", "bool")},
        readonly=set(), param_keys={"validity": ("validity", "nat")}, nested={"base_module": "base_module"},
        consts=["CALINSKIHARABASZ", "DAVIESBOULDIN", "SILHOUETTE"],
        properties=[("W", "lwt", "new_W"), ("labels_", "lnat", "new_labels_")],
        stepfit=("nested", "base_module"),
        may_define={"__init__", "validate_params", "validate_data", "check_dimensions", "partial_fit", "prepare_data",
                    "restore_data", "W", "labels_", "CVI_match", "_match_tracking", "_set_params", "_deep_copy_params", "fit",
                    "pre_step_fit", "post_step_fit", "step_fit", "step_pred", "get_cluster_centers", "plot_cluster_bounds"},
        callback_may_read={"W", "labels_", "data", "params", "CALINSKIHARABASZ", "DAVIESBOULDIN", "SILHOUETTE", "base_module"},
        methods=[("CVI_match", [("x", "x"), ("w", "wt"), ("c_", "nat"), ("params", "P"), ("extra", "extra"), ("cache", "C")], "bool"),
                 ("fit", [("X", "xs"), ("y", None), ("match_reset_func", "cbopt"), ("max_iter", "nat"),
                          ("match_tracking", "mt"), ("epsilon", "num")], "self")],
    ),
}
IMPLICIT_ORDER = ["E", "MET"]


def src(e) -> str:
    return ast.unparse(e)


def is_self(e):
    return isinstance(e, ast.Name) and e.id == "self"


def is_doc(s):
    return isinstance(s, ast.Expr) and isinstance(s.value, ast.Constant) and isinstance(s.value.value, str)


class Env:
    """one class being translated"""

    def __init__(self, cls: str, repo: Path):
        self.cls, self.prof = cls, PROFILES[cls]
        self.tree = ast.parse((repo / self.prof["file"]).read_text())
        self.base_tree = ast.parse((repo / BASE_FILE).read_text())
        self.fuzzy_tree = ast.parse((repo / FUZZY_FILE).read_text())
        nodes = [n for n in self.tree.body if isinstance(n, ast.ClassDef) and n.name == cls]
        if len(nodes) != 1:
            raise Unsupported(f"class {cls} not found (once) in {self.prof['file']}")
        self.node = nodes[0]
        got = [src(b) for b in self.node.bases]
        if got != self.prof["bases"]:
            raise Unsupported(f"{cls} derives from {got}, the translator knows {self.prof['bases']}")
        self.done = {}            # method -> dict(params, rty, implicit)
        self.aux: list[str] = []  # loop-body definitions of the method being translated
        self.loops = 0
        self.method = ""
        self.imports = {}
        for n in self.tree.body:
            if isinstance(n, ast.Import):
                for a in n.names:
                    self.imports[a.asname or a.name] = a.name
            elif isinstance(n, ast.ImportFrom):
                for a in n.names:
                    self.imports[a.asname or a.name] = f"{n.module}.{a.name}"

    def lty(self, t) -> str:
        p = self.prof
        if t == "cb":
            return self.cb_ty()
        return {"nat": "Nat", "bool": "Bool", "num": "α", "mt": "Art.MT", "x": p["X"], "xs": f"List ({p['X']})" if " " in p["X"]
                else f"List {p['X']}", "lnat": "List Nat", "wt": "Wt", "lwt": "List Wt", "P": "P", "C": "C",
                "rec": "Art.Imp.Dict α", "icvi": "Art.Gen.ICVI.Self α", "base": "Art.Imp.Self Wt P", "self": p["self_ty"],
                "score": f"List {p['X']} → List Nat → Option α", "extra": f"{H}Extra"}[t]

    def cb_ty(self) -> str:
        return " → ".join(self.atom(self.lty(t)) for t in CB_PARAMS) + " → Bool"

    @staticmethod
    def atom(s: str) -> str:
        return f"({s})" if " " in s else s

    def functions(self, name, node=None):
        return [f for f in (node or self.node).body if isinstance(f, ast.FunctionDef) and f.name == name]

    def function(self, name) -> ast.FunctionDef:
        fs = [f for f in self.functions(name) if not any(isinstance(d, ast.Attribute) for d in f.decorator_list)]
        if len(fs) != 1:
            raise Unsupported(f"{self.cls}.{name} not found (once)")
        return fs[0]

    def class_in(self, tree, name):
        cs = [n for n in tree.body if isinstance(n, ast.ClassDef) and n.name == name]
        if len(cs) != 1:
            raise Unsupported(f"class {name} not found (once)")
        return cs[0]


class Ctx:
    def __init__(self, env: Env):
        self.env = env
        self.vars: dict[str, str] = {}
        self.rebound: list[str] = []
        self.used: set[str] = set()

    def copy(self, fresh_rebound=True):
        c = Ctx(self.env)
        c.vars, c.used = dict(self.vars), self.used
        c.rebound = [] if fresh_rebound else list(self.rebound)
        return c

    def bind(self, x, t):
        self.vars[x] = t
        if x not in self.rebound:
            self.rebound.append(x)


def paren(t: str) -> str:
    import re
    if re.fullmatch(r"[A-Za-z_][A-Za-z_0-9.]*|\d+", t):
        return t
    if t[0] in "([" and balanced(t):
        return t
    return f"({t})"


def balanced(t: str) -> bool:
    depth = 0
    for i, ch in enumerate(t):
        depth += ch in "(["
        depth -= ch in ")]"
        if depth == 0 and i < len(t) - 1:
            return False
    return True


def as_bool(text, t):
    if t == "bool":
        return text
    if t == "prop":
        return f"(decide {text})"
    raise Unsupported(f"a boolean is needed, {t} found ({text})")


def as_cond(text, t):
    if t in ("bool", "prop"):
        return text
    raise Unsupported(f"condition of type {t}")


# ---------------------------------------------------------------- attribute paths

def attr_path(e: ast.AST, cx: Ctx):
    """`self.a` / `self.<nested>.a`  ->  (path, type, readonly?) for a plain attribute; None otherwise"""
    p = cx.env.prof
    if isinstance(e, ast.Attribute) and is_self(e.value) and e.attr in p["attrs"]:
        path, t = p["attrs"][e.attr]
        return path, t, e.attr in p["readonly"]
    if isinstance(e, ast.Attribute) and isinstance(e.value, ast.Attribute) and is_self(e.value.value) \
            and e.value.attr in p["nested"] and e.attr in BASE_ATTRS:
        path, t = BASE_ATTRS[e.attr]
        return f"{p['nested'][e.value.attr]}.{path}", t, False
    return None


def set_path(path: str, value: str) -> str:
    """the record update that writes `self.<path>`"""
    parts = path.split(".")
    extra = ", hasW := true" if parts[-1] == "W" else ""
    if len(parts) == 1:
        return f"{{ self with {parts[0]} := {value}{extra} }}"
    if len(parts) == 2:
        return f"{{ self with {parts[0]} := {{ self.{parts[0]} with {parts[1]} := {value}{extra} }} }}"
    raise Unsupported(f"attribute path {path}")


def property_of(e: ast.AST, cx: Ctx):
    if isinstance(e, ast.Attribute) and is_self(e.value):
        for name, t, _ in cx.env.prof["properties"]:
            if name == e.attr:
                if ("get", name) not in cx.env.done:
                    raise Unsupported(f"property {name} used before it is translated")
                return name, t
    return None


# ---------------------------------------------------------------- expressions

def ex(e: ast.AST, cx: Ctx):
    """expression -> (Lean text, type); the text may contain nested actions `(← …)`"""
    env, p = cx.env, cx.env.prof
    if isinstance(e, ast.Name):
        if e.id == "self" or e.id not in cx.vars:
            raise Unsupported(f"name {e.id} in an expression")
        return ("it_" if e.id == "_" else e.id), cx.vars[e.id]
    if isinstance(e, ast.Constant):
        v = e.value
        if isinstance(v, bool):
            return ("true" if v else "false"), "bool"
        if isinstance(v, int) and v >= 0:
            return str(v), "nat"
        if isinstance(v, str) and v in MODE_CTOR:
            return "Art.MT" + MODE_CTOR[v], "mt"
        raise Unsupported(f"constant {v!r}")
    if isinstance(e, ast.Attribute):
        ap = attr_path(e, cx)
        if ap:
            return f"self.{ap[0]}", ap[1]
        if is_self(e.value) and e.attr in p["consts"]:
            return e.attr, "nat"
        pr = property_of(e, cx)
        if pr:
            return f"(← {pr[0]} self)", pr[1]
        if is_self(e.value) and e.attr in env.done and env.done[e.attr]["rty"] == "bool":
            # a bound method used as a callback
            d = env.done[e.attr]
            if [t for _, t in d["params"]] != CB_PARAMS:
                raise Unsupported(f"the bound method {e.attr} does not have a callback's parameters")
            check_callback_reads(env, [e.attr])
            cx.used.update(d["implicit"])
            args = " ".join(f"a{i + 1}" for i in range(len(CB_PARAMS)))
            bind = " ".join(f"(a{i + 1} : {env.lty(t)})" for i, t in enumerate(CB_PARAMS))
            head = " ".join([e.attr] + d["implicit"] + ["self"])
            return f"(fun {bind} => {H}callback (do pure (← {head} {args})))", "cb"
        # self.iCVI.<attribute of the iCVI_CH object>
        if isinstance(e.value, ast.Attribute):
            b, bt = ex(e.value, cx)
            if bt == "icvi" and ICVI_ATTRS.get(e.attr):
                return f"{b}.{e.attr}", ICVI_ATTRS[e.attr]
        if isinstance(e.value, ast.Name) and e.value.id == "metrics" and e.attr in METRIC_NAMES:
            if env.imports.get("metrics") != "sklearn.metrics":
                raise Unsupported("`metrics` is not `sklearn.metrics`")
            cx.used.add("MET")
            return f"MET.{e.attr}", "score"
        raise Unsupported(f"attribute {src(e)}")
    if isinstance(e, ast.Subscript):
        return subscript(e, cx)
    if isinstance(e, ast.Compare):
        if len(e.ops) != 1:
            raise Unsupported("chained comparison")
        op, r = e.ops[0], e.comparators[0]
        if isinstance(op, ast.Is) and isinstance(r, ast.Constant) and r.value is None:
            if isinstance(e.left, ast.Name) and cx.vars.get(e.left.id) == "cbopt":
                return f"{e.left.id}_is_none", "bool"
            raise Unsupported(f"`is None` on {src(e.left)}")
        a, at = ex(e.left, cx)
        b, bt = ex(r, cx)
        sym = {ast.Lt: "<", ast.Gt: ">", ast.Eq: "=", ast.NotEq: "≠"}.get(type(op))
        if sym is None or at != bt or at not in ("nat", "num") or (at == "num" and sym in ("=", "≠")):
            raise Unsupported(f"comparison {src(e)} on {at}, {bt}")
        return f"({a} {sym} {b})", "prop"
    if isinstance(e, ast.BinOp) and isinstance(e.op, ast.BitAnd):
        a, at = ex(e.left, cx)
        b, bt = ex(e.right, cx)
        return f"({as_bool(a, at)} && {as_bool(b, bt)})", "bool"
    if isinstance(e, ast.BoolOp) and isinstance(e.op, ast.And) and len(e.values) == 2:
        a, at = ex(e.values[0], cx)
        b, bt = ex(e.values[1], cx)
        return f"(← (if {as_bool(a, at)} then (do pure {as_bool(b, bt)}) else (do pure false)))", "bool"
    if isinstance(e, ast.Dict):
        keys = [k.value if isinstance(k, ast.Constant) else None for k in e.keys]
        if keys != EXTRA_KEYS:
            raise Unsupported(f"dict display with keys {keys}; the translator knows {EXTRA_KEYS}")
        parts = []
        for k, v in zip(keys, e.values):
            t, tt = ex(v, cx)
            if tt != "nat":
                raise Unsupported(f"extra[{k!r}] of type {tt}")
            parts.append(f"{k} := {t}")
        return "({ " + ", ".join(parts) + f" }} : {H}Extra)", "extra"
    if isinstance(e, ast.Lambda):
        a = e.args
        if a.vararg or a.kwarg or a.kwonlyargs or a.posonlyargs or a.defaults or len(a.args) != len(CB_PARAMS):
            raise Unsupported(f"lambda signature {src(e)[:60]}")
        check_callback_reads(env, [n.func.attr for n in ast.walk(e.body) if isinstance(n, ast.Call)
                                   and isinstance(n.func, ast.Attribute) and is_self(n.func.value)])
        inner = cx.copy()
        for x, t in zip(a.args, CB_PARAMS):
            if x.arg == "self":
                raise Unsupported("lambda parameter self")
            inner.vars[x.arg] = t
        b, bt = ex(e.body, inner)
        names = " ".join(f"({x.arg} : {env.lty(t)})" for x, t in zip(a.args, CB_PARAMS))
        return f"(fun {names} => {H}callback (do pure {as_bool(b, bt)}))", "cb"
    if isinstance(e, ast.Call):
        return call(e, cx)
    raise Unsupported(f"expression {type(e).__name__}: {src(e)[:80]}")


def subscript(e: ast.Subscript, cx: Ctx):
    s, p = e.slice, cx.env.prof
    if isinstance(e.value, ast.Attribute) and e.value.attr == "shape" and isinstance(s, ast.Constant) and s.value == 0 \
            and type(s.value) is int:
        b, bt = ex(e.value.value, cx)
        if bt not in ELEM:
            raise Unsupported(f".shape[0] of {bt}")
        return f"{paren(b)}.length", "nat"
    if isinstance(e.value, ast.Attribute) and is_self(e.value.value) and e.value.attr == "params":
        if not (isinstance(s, ast.Constant) and s.value in p["param_keys"]):
            raise Unsupported(f"{src(e)}: parameter key unknown to the translator")
        path, t = p["param_keys"][s.value]
        return f"self.{path}", t
    b, bt = ex(e.value, cx)
    if isinstance(s, ast.Constant) and isinstance(s.value, str):
        if bt == "extra" and s.value in EXTRA_KEYS:
            return f"{b}.{s.value}", "nat"
        if bt == "rec" and I.KEYS.get(s.value) in ICVI_KEY_TY:
            kt = I.KEYS[s.value]
            return f"(← {I.PROJ[kt].replace('Val.', 'Art.Imp.Val.')} (← Art.Imp.aget {b} \"{s.value}\"))", ICVI_KEY_TY[kt]
        raise Unsupported(f"string key in {src(e)} on {bt}")
    i, it = ex(s, cx)
    if bt in ELEM and it == "nat":
        return f"(← {paren(b)}[{i}]?)", ELEM[bt]
    raise Unsupported(f"subscript {src(e)}: {bt} indexed by {it}")


def typed_args(args, want, cx, what):
    if len(args) != len(want):
        raise Unsupported(f"{what}: {len(args)} arguments, {len(want)} expected")
    out = []
    for a, t in zip(args, want):
        v, vt = ex(a, cx)
        if vt != t:
            raise Unsupported(f"{what}: argument {src(a)} has type {vt}, expected {t}")
        out.append(paren(v))
    return out


def call(e: ast.Call, cx: Ctx):
    env, p, f = cx.env, cx.env.prof, e.func
    if isinstance(f, ast.Name):
        if f.id == "len" and len(e.args) == 1 and not e.keywords:
            a, t = ex(e.args[0], cx)
            if t not in ELEM:
                raise Unsupported(f"len of {t}")
            return f"{paren(a)}.length", "nat"
        if f.id == "iCVI_CH" and len(e.args) == 1 and not e.keywords:
            if env.imports.get("iCVI_CH") != "artlib.cvi.iCVIs.CalinkskiHarabasz.iCVI_CH":
                raise Unsupported("iCVI_CH is not artlib.cvi.iCVIs.CalinkskiHarabasz.iCVI_CH")
            if p["X"] != "List α":
                raise Unsupported("iCVI_CH on abstract samples")
            a, t = ex(e.args[0], cx)
            if t != "x":
                raise Unsupported(f"iCVI_CH({t})")
            return f"(← Art.Gen.ICVI.init {paren(a)})", "icvi"
        if f.id in cx.vars and cx.vars[f.id] == "score" and not e.keywords:
            args = typed_args(e.args, ["xs", "lnat"], cx, f.id)
            return f"(← {f.id} " + " ".join(args) + ")", "num"
        if f.id in cx.vars and cx.vars[f.id] in ("cb", "cbopt") and not e.keywords:
            args = typed_args(e.args, CB_PARAMS, cx, f.id)
            return f"({f.id} " + " ".join(args) + ")", "bool"
        raise Unsupported(f"function call {src(e)[:80]}")
    if not isinstance(f, ast.Attribute):
        raise Unsupported(f"call {src(e)[:80]}")
    if isinstance(f.value, ast.Name) and f.value.id == "np":
        if env.imports.get("np") != "numpy":
            raise Unsupported("`np` is not numpy")
        if f.attr == "zeros" and len(e.args) == 1 and [src(k) for k in e.keywords] == ["dtype=int"] \
                and isinstance(e.args[0], ast.Tuple) and len(e.args[0].elts) == 1:
            a, t = ex(e.args[0].elts[0], cx)
            if t != "nat":
                raise Unsupported(f"np.zeros of {t}")
            return f"(List.replicate {paren(a)} 0)", "lnat"
        if f.attr == "copy" and len(e.args) == 1 and not e.keywords:
            a, t = ex(e.args[0], cx)
            if t not in ELEM:
                raise Unsupported(f"np.copy of {t}")
            return a, t                                                   # DROPPED: the copy
        raise Unsupported(f"numpy function {src(e)[:80]}")
    # self.iCVI.add_sample / switch_label
    if f.attr in ("add_sample", "switch_label") and not e.keywords:
        o, ot = ex(f.value, cx)
        if ot != "icvi":
            raise Unsupported(f"{f.attr} on {ot}")
        want = {"vec": "x", "key": "nat"}
        args = typed_args(e.args, [want[t] for _, t in I.METHODS[f.attr][0]], cx, f.attr)
        return f"(← Art.Gen.ICVI.{f.attr} {paren(o)} " + " ".join(args) + ")", "rec"
    # self.m(args), m translated here and not writing self
    if is_self(f.value) and f.attr in env.done and env.done[f.attr]["rty"] != "self" and not e.keywords:
        d = env.done[f.attr]
        args = typed_args(e.args, [t for _, t in d["params"]], cx, f.attr)
        cx.used.update(d["implicit"])
        return "(← " + " ".join([f.attr] + d["implicit"] + ["self"] + args) + ")", d["rty"]
    raise Unsupported(f"method call {src(e)[:80]}")


def reads_of(env: Env, name: str, seen=None) -> set[str]:
    """the attributes `self.<a>` a method of this class reads, through the methods / properties of this class it reaches"""
    seen = seen if seen is not None else set()
    if name in seen:
        return set()
    seen.add(name)
    out = set()
    for f in env.functions(name):
        if any(isinstance(d, ast.Attribute) and d.attr == "setter" for d in f.decorator_list):
            continue
        for n in ast.walk(f):
            if isinstance(n, ast.Attribute) and is_self(n.value):
                if env.functions(n.attr):
                    out |= reads_of(env, n.attr, seen)
                    if any(pn == n.attr for pn, _, _ in env.prof["properties"]):
                        out.add(n.attr)
                else:
                    out.add(n.attr)
    return out


def check_callback_reads(env: Env, methods):
    for m in methods:
        extra = reads_of(env, m) - env.prof["callback_may_read"]
        if extra:
            raise Unsupported(f"the callback {m} reads self.{sorted(extra)}: not known to be untouched by BaseART.step_fit")


# ---------------------------------------------------------------- the step_fit call

def stepfit_call(e: ast.AST, cx: Ctx):
    """`self.step_fit(…)` / `self.<nested>.step_fit(…)`  ->  (lines re-binding self, text of the label); None otherwise"""
    env, p = cx.env, cx.env.prof
    if not (isinstance(e, ast.Call) and isinstance(e.func, ast.Attribute) and e.func.attr == "step_fit"):
        return None
    kind, base = p["stepfit"]
    recv = e.func.value
    if kind == "self":
        if not is_self(recv):
            raise Unsupported(f"step_fit on {src(recv)}")
        # the inherited method must be BaseART's
        if env.functions("step_fit") or env.functions("step_fit", env.class_in(env.fuzzy_tree, "FuzzyART")):
            raise Unsupported("step_fit is overridden between iCVIFuzzyART and BaseART")
        if [src(b) for b in env.class_in(env.fuzzy_tree, "FuzzyART").bases] != ["BaseART"]:
            raise Unsupported("FuzzyART does not derive from BaseART alone")
    else:
        if not (isinstance(recv, ast.Attribute) and is_self(recv.value) and p["nested"].get(recv.attr) == base):
            raise Unsupported(f"step_fit on {src(recv)}")
    callee = [f for f in env.class_in(env.base_tree, "BaseART").body if isinstance(f, ast.FunctionDef) and f.name == "step_fit"]
    if len(callee) != 1:
        raise Unsupported("BaseART.step_fit not found (once)")
    a = callee[0].args
    if a.vararg or a.kwarg or a.kwonlyargs or a.posonlyargs:
        raise Unsupported("BaseART.step_fit: signature")
    names = [x.arg for x in a.args[1:]]
    if names != ["x", "match_reset_func", "match_tracking", "epsilon"]:
        raise Unsupported(f"BaseART.step_fit has parameters {names}")
    defaults = dict(zip(names[len(names) - len(a.defaults):], a.defaults))
    if len(e.args) > len(names):
        raise Unsupported("step_fit: too many arguments")
    given = dict(zip(names, e.args))
    for kw in e.keywords:
        if kw.arg is None or kw.arg in given or kw.arg not in names:
            raise Unsupported(f"step_fit: keyword {kw.arg}")
        given[kw.arg] = kw.value
    out = []
    for n, want in zip(names, ["x", "cb", "mt", "num"]):
        if n in given:
            v, vt = ex(given[n], cx)
            if n == "match_reset_func":
                if vt != "cb":
                    raise Unsupported(f"step_fit: match_reset_func of type {vt} (an Optional callback must be tested first)")
                out += ["false", paren(v)]
                continue
        elif n in defaults:
            dv = defaults[n]
            if n == "match_reset_func" and isinstance(dv, ast.Constant) and dv.value is None:
                out += ["true", "(fun _ _ _ _ _ => true)"]
                continue
            if not isinstance(dv, ast.Constant) or isinstance(dv.value, float) or dv.value is None:
                raise Unsupported(f"step_fit: default {src(dv)} of {n} has no rendering")
            v, vt = ex(dv, cx)
        else:
            raise Unsupported(f"step_fit: argument {n} missing")
        if vt != want:
            raise Unsupported(f"step_fit: argument {n} has type {vt}, expected {want}")
        out.append(paren(v))
    cx.used.add("E")
    text = " ".join(["Art.Gen.BaseART.step_fit", "E", f"(self.{base}.W).length", f"self.{base}"] + out)
    return [f"let r_ := {text}", f"let self := {{ self with {base} := r_.1 }}"], "r_.2"


# ---------------------------------------------------------------- statements

def pack(vs):
    return "()" if not vs else vs[0] if len(vs) == 1 else "(" + ", ".join(vs) + ")"


def ends_in_raise(stmts) -> bool:
    stmts = [s for s in stmts if not is_doc(s)]
    if not stmts:
        return False
    s = stmts[-1]
    if isinstance(s, ast.Raise):
        return True
    return isinstance(s, ast.If) and bool(s.orelse) and ends_in_raise(s.body) and ends_in_raise(s.orelse)


def is_guard(s, cx: Ctx):
    if not (isinstance(s, ast.Expr) and isinstance(s.value, ast.Call) and isinstance(s.value.func, ast.Attribute)):
        return False
    f = s.value.func
    if f.attr not in GUARDS:
        return False
    recv_ok = is_self(f.value) or (isinstance(f.value, ast.Attribute) and is_self(f.value.value)
                                   and f.value.attr in cx.env.prof["nested"])
    return recv_ok and [src(a) for a in s.value.args] == ["X"] and not s.value.keywords


def empty_body(f: ast.FunctionDef) -> bool:
    return all(is_doc(s) or isinstance(s, ast.Pass) for s in f.body)


def is_hook(s, cx: Ctx):
    """`self.pre_step_fit(X)` / `self.post_step_fit(X)`, resolved and inspected: an empty method"""
    env = cx.env
    if not (isinstance(s, ast.Expr) and isinstance(s.value, ast.Call) and isinstance(s.value.func, ast.Attribute)
            and is_self(s.value.func.value) and s.value.func.attr in HOOKS):
        return False
    m = s.value.func.attr
    if [src(a) for a in s.value.args] != ["X"] or s.value.keywords:
        raise Unsupported(f"hook call {src(s)}")
    base = [f for f in env.class_in(env.base_tree, "BaseART").body if isinstance(f, ast.FunctionDef) and f.name == m]
    if len(base) != 1 or not empty_body(base[0]):
        raise Unsupported(f"BaseART.{m} is not an empty method")
    own = env.functions(m)
    if env.cls == "iCVIFuzzyART":
        if own or env.functions(m, env.class_in(env.fuzzy_tree, "FuzzyART")):
            raise Unsupported(f"{m} is overridden between iCVIFuzzyART and BaseART")
        return True
    body = [src(x) for x in own[0].body if not is_doc(x)] if len(own) == 1 else None
    nested = list(env.prof["nested"])
    if body != [f"return self.{nested[0]}.{m}(X)"]:
        raise Unsupported(f"{env.cls}.{m} is not the delegation to the base module's hook")
    return True


def assign(target: ast.AST, value_text: str, vt: str, cx: Ctx, out: list, Ind: str):
    env = cx.env
    if isinstance(target, ast.Name):
        if target.id == "self":
            raise Unsupported("assignment to self")
        if vt == "prop":
            value_text, vt = f"(decide {value_text})", "bool"
        out.append(Ind + f"let {target.id} := {value_text}")
        cx.bind(target.id, vt)
        return
    ap = attr_path(target, cx)
    if ap:
        path, t, ro = ap
        if ro:
            raise Unsupported(f"assignment to the read-only attribute {src(target)}")
        if vt != t:
            raise Unsupported(f"{src(target)} = a value of type {vt}, expected {t}")
        out.append(Ind + f"let self := {set_path(path, value_text)}")
        cx.bind("self", "self")
        return
    pr = property_setter(target, cx)
    if pr:
        name, t = pr
        if vt != t:
            raise Unsupported(f"{src(target)} = a value of type {vt}, expected {t}")
        out.append(Ind + f"let self := (← {name}_set self {paren(value_text)})")
        cx.bind("self", "self")
        return
    if isinstance(target, ast.Subscript):
        i, it = ex(target.slice, cx)
        if it != "nat":
            raise Unsupported(f"index of type {it} in {src(target)}")
        b = target.value
        if isinstance(b, ast.Name) and cx.vars.get(b.id) in ELEM:
            if ELEM[cx.vars[b.id]] != vt:
                raise Unsupported(f"{src(target)} = a value of type {vt}")
            out.append(Ind + f"let {b.id} := (← {H}npSet {b.id} {paren(i)} {paren(value_text)})")
            cx.bind(b.id, cx.vars[b.id])
            return
        ap = attr_path(b, cx)
        if ap and ap[1] in ELEM and not ap[2]:
            if ELEM[ap[1]] != vt:
                raise Unsupported(f"{src(target)} = a value of type {vt}")
            out.append(Ind + "let self := " + set_path(ap[0], f"(← {H}npSet self.{ap[0]} {paren(i)} {paren(value_text)})"))
            cx.bind("self", "self")
            return
        pr = property_setter(b, cx)
        if pr and pr[1] in ELEM:
            if ELEM[pr[1]] != vt:
                raise Unsupported(f"{src(target)} = a value of type {vt}")
            check_delegation(env, pr[0])
            out.append(Ind + f"let self := (← {pr[0]}_set self (← {H}npSet (← {pr[0]} self) {paren(i)} {paren(value_text)}))")
            cx.bind("self", "self")
            return
    raise Unsupported(f"assignment target {src(target)}")


def property_setter(e: ast.AST, cx: Ctx):
    if isinstance(e, ast.Attribute) and is_self(e.value):
        for name, t, _ in cx.env.prof["properties"]:
            if name == e.attr:
                if ("set", name) not in cx.env.done:
                    raise Unsupported(f"property {name} assigned before its setter is translated")
                return name, t
    return None


def check_delegation(env: Env, name: str):
    """side condition of `self.p[i] = e`: getter `return <path>`, setter `<path> = <parameter>` — the same path"""
    g, s = accessor(env, name, False), accessor(env, name, True)
    gb = [x for x in g.body if not is_doc(x)]
    sb = [x for x in s.body if not is_doc(x)]
    if not (len(gb) == 1 and isinstance(gb[0], ast.Return) and gb[0].value is not None and len(sb) == 1
            and isinstance(sb[0], ast.Assign) and len(sb[0].targets) == 1 and isinstance(sb[0].value, ast.Name)
            and src(sb[0].targets[0]) == src(gb[0].value) and isinstance(gb[0].value, ast.Attribute)):
        raise Unsupported(f"property {name}: getter and setter are not the access of one attribute (in-place write through it)")


def accessor(env: Env, name: str, setter: bool) -> ast.FunctionDef:
    want = f"{name}.setter" if setter else "property"
    fs = [f for f in env.functions(name) if [src(d) for d in f.decorator_list] == [want]]
    if len(fs) != 1:
        raise Unsupported(f"{env.cls}.{name} ({want}) not found (once)")
    return fs[0]


def merge(cx: Ctx, cs: list[Ctx]):
    """variables visible after the nested blocks `cs` (those that fell through), in order of first re-binding"""
    vs = []
    for c in cs:
        for v in c.rebound:
            if v not in vs and (v in cx.vars or all(v in c2.rebound for c2 in cs)):
                vs.append(v)
    for v in vs:
        ts = {c.vars.get(v, cx.vars.get(v)) for c in cs}
        if len(ts) != 1:
            raise Unsupported(f"{v} has different types in the two branches")
    return vs


def block(stmts, cx: Ctx, rty, Ind="  "):
    """-> (lines, terminated?)"""
    env = cx.env
    out = []
    stmts = [s for s in stmts if not is_doc(s)]                          # DROPPED: docstrings
    for idx, s in enumerate(stmts):
        rest = stmts[idx + 1:]
        if is_guard(s, cx) or is_hook(s, cx):                            # DROPPED: guards, empty hooks
            continue
        if isinstance(s, ast.Return):
            if rest:
                raise Unsupported("code after return")
            if s.value is None:
                raise Unsupported("bare return")
            if is_self(s.value):
                if rty != "self":
                    raise Unsupported("`return self` in a method that is not declared to return self")
                out.append(Ind + "pure self")
                return out, True
            v, vt = ex(s.value, cx)
            if rty == "bool":
                v, vt = as_bool(v, vt), "bool"
            if vt != rty:
                raise Unsupported(f"return value of type {vt}, declared {rty}")
            out.append(Ind + f"pure {v}")
            return out, True
        if isinstance(s, ast.Raise):
            if rest:
                raise Unsupported("code after raise")
            if not (isinstance(s.exc, ast.Call) and isinstance(s.exc.func, ast.Name) and s.exc.func.id == "ValueError") \
                    or s.cause is not None:
                raise Unsupported(f"raise {src(s)[:60]}")
            out.append(Ind + "none")                                      # DROPPED: the message
            return out, True
        if isinstance(s, (ast.Assign, ast.AnnAssign)):
            if isinstance(s, ast.Assign):
                if len(s.targets) != 1:
                    raise Unsupported("multiple assignment targets")
                target, value = s.targets[0], s.value
            else:
                if s.value is None:
                    raise Unsupported("annotation without a value")
                target, value = s.target, s.value                        # DROPPED: the annotation
            sc = stepfit_call(value, cx)
            if sc:
                lines, v = sc
                out += [Ind + ln for ln in lines]
                cx.bind("self", "self")
                assign(target, v, "nat", cx, out, Ind)
                continue
            if isinstance(value, ast.List) and not value.elts:
                ap, ps = attr_path(target, cx), None
                if ap is None:
                    ps = property_setter(target, cx)
                t = ap[1] if ap else ps[1] if ps else None
                if t not in ELEM:
                    raise Unsupported(f"{src(target)} = [] (element type unknown)")
                assign(target, "[]", t, cx, out, Ind)
                continue
            v, vt = ex(value, cx)
            assign(target, v, vt, cx, out, Ind)
            continue
        if isinstance(s, ast.Expr):
            c = s.value
            # self.iCVI.update(p)
            if isinstance(c, ast.Call) and isinstance(c.func, ast.Attribute) and c.func.attr == "update" and not c.keywords:
                ap = attr_path(c.func.value, cx)
                if ap and ap[1] == "icvi" and not ap[2]:
                    args = typed_args(c.args, ["rec"], cx, "update")
                    out.append(Ind + "let self := " + set_path(ap[0], f"(← Art.Gen.ICVI.update self.{ap[0]} {args[0]})"))
                    cx.bind("self", "self")
                    continue
            raise Unsupported(f"expression statement {src(s)[:80]}")
        if isinstance(s, ast.If):
            c, ct = ex(s.test, cx)
            c = as_cond(c, ct)
            c1 = cx.copy()
            b1, t1 = block(s.body, c1, rty, Ind + "    ")
            if t1 and not s.orelse:
                b2, t2 = block(rest, cx, rty, Ind + "    ")
                if not t2:
                    raise Unsupported("method falls off its end")
                out += [Ind + f"if {c} then (do"] + b1 + [Ind + "    )", Ind + "  else (do"] + b2 + [Ind + "    )"]
                return out, True
            c2 = cx.copy()
            b2, t2 = block(s.orelse, c2, rty, Ind + "    ") if s.orelse else ([], False)
            if t1 and t2:
                if rest:
                    raise Unsupported("code after an if whose branches both leave")
                out += [Ind + f"if {c} then (do"] + b1 + [Ind + "    )", Ind + "  else (do"] + b2 + [Ind + "    )"]
                return out, True
            if (t1 and not ends_in_raise(s.body)) or (t2 and not ends_in_raise(s.orelse)):
                raise Unsupported("return in one branch of an if-else")
            live = [cc for cc, t in ((c1, t1), (c2, t2)) if not t]
            vs = merge(cx, live)
            out.append(Ind + f"let {pack(vs)} ← if {c} then (do")
            out += b1 + ([] if t1 else [Ind + f"    pure {pack(vs)}"])
            out[-1] += ")"
            out.append(Ind + "  else (do")
            out += b2 + ([] if t2 else [Ind + f"    pure {pack(vs)}"])
            out[-1] += ")"
            for v in vs:
                cx.bind(v, live[0].vars.get(v, cx.vars.get(v)))
            continue
        if isinstance(s, ast.For) and not s.orelse:
            out += for_loop(s, cx, rty, Ind)
            continue
        raise Unsupported(f"statement {type(s).__name__}: {src(s)[:80]}")
    return out, False


def for_loop(s: ast.For, cx: Ctx, rty, Ind: str) -> list[str]:
    env = cx.env
    if any(isinstance(n, (ast.Return, ast.Raise, ast.Break, ast.Continue)) for b in s.body for n in ast.walk(b)):
        raise Unsupported("return / raise / break / continue inside a for loop")
    it, tg = s.iter, s.target
    inner = cx.copy()
    if isinstance(it, ast.Call) and isinstance(it.func, ast.Name) and it.func.id == "enumerate" and len(it.args) == 1 \
            and not it.keywords and isinstance(tg, ast.Tuple) and len(tg.elts) == 2 \
            and all(isinstance(x, ast.Name) for x in tg.elts):
        xs, xt = ex(it.args[0], cx)
        if xt not in ELEM:
            raise Unsupported(f"enumerate over {xt}")
        i, x = tg.elts[0].id, tg.elts[1].id
        elems, pat, ety = f"(List.zipIdx {paren(xs)})", f"({x}, {i})", f"{env.atom(env.lty(ELEM[xt]))} × Nat"
        new = {x: ELEM[xt], i: "nat"}
    elif isinstance(it, ast.Call) and isinstance(it.func, ast.Name) and it.func.id == "range" and len(it.args) == 1 \
            and not it.keywords and isinstance(tg, ast.Name):
        n, nt = ex(it.args[0], cx)
        if nt != "nat":
            raise Unsupported(f"range of {nt}")
        name = "it_" if tg.id == "_" else tg.id
        elems, pat, ety = f"(List.range {paren(n)})", name, "Nat"
        new = {tg.id: "nat"}
    elif isinstance(tg, ast.Name):
        xs, xt = ex(it, cx)
        if xt not in ELEM:
            raise Unsupported(f"for over {xt}")
        elems, pat, ety = paren(xs), tg.id, env.lty(ELEM[xt])
        new = {tg.id: ELEM[xt]}
    else:
        raise Unsupported(f"for {src(tg)} in {src(it)[:60]}")
    for v in new:
        if v in cx.vars or v == "self":
            raise Unsupported(f"loop variable {v} shadows a local")
        inner.vars[v] = new[v]
    env.loops += 1
    k = env.loops
    saved_used = cx.used
    inner.used = set()
    body, term = block(s.body, inner, rty, "    ")
    vs = [v for v in inner.rebound if v in cx.vars]
    for v in vs:
        if inner.vars[v] != cx.vars[v]:
            raise Unsupported(f"{v} changes type inside the loop")
    used = [u for u in IMPLICIT_ORDER if u in inner.used]
    saved_used.update(inner.used)
    outer = [v for v in cx.vars if v not in vs]
    decls, names = [], []
    for v in outer:
        t = cx.vars[v]
        if t == "cbopt":
            decls += [f"({v}_is_none : Bool)", f"({v} : {env.cb_ty()})"]
            names += [f"{v}_is_none", v]
        else:
            nm_ = "it_" if v == "_" else v
            decls.append(f"({nm_} : {env.lty(t)})")
            names.append(nm_)
    sty = " × ".join(env.atom(env.lty(cx.vars[v])) for v in vs) if vs else "Unit"
    name = f"{env.method}_loop{k}_body"
    impl = " ".join(implicit_decl(env, u) for u in used)
    env.aux.append(
        f"/-- loop {k} of `{env.cls}.{env.method}`: one iteration of `for {src(tg)} in {src(it)}` -/\n"
        f"def {' '.join(x for x in [name, impl] + decls if x)} :\n    {sty} → {ety} → Option ({sty}) :=\n"
        f"  fun {pack(vs)} {pat} => do\n" + "\n".join(body) + f"\n    pure {pack(vs)}\n")
    for v in vs:
        cx.bind(v, cx.vars[v])
    return [Ind + f"let {pack(vs)} ← {elems}.foldlM ({' '.join([name] + used + names)}) {pack(vs)}"]


def implicit_decl(env: Env, u: str) -> str:
    X = env.prof["X"]
    return {"E": f"(E : Art.Imp.Ext {env.atom(X)} Wt P C α)", "MET": f"(MET : {H}Metrics {env.atom(X)} α)"}[u]


# ---------------------------------------------------------------- definitions

def check_signature(f: ast.FunctionDef, params, what):
    a = f.args
    if a.vararg or a.kwarg or a.kwonlyargs or a.posonlyargs:
        raise Unsupported(f"{what}: *args / **kwargs / keyword-only parameters")
    got = [x.arg for x in a.args]
    want = ["self"] + [n for n, _ in params]
    if got != want:
        raise Unsupported(f"{what} has parameters {got}, the translator knows {want}")
    for n, t in params:
        if t is None and any(isinstance(x, ast.Name) and x.id == n for b in f.body for x in ast.walk(b)):
            raise Unsupported(f"{what}: the ignored parameter {n} is read")


def decl_of(env: Env, n: str, t: str) -> str:
    if t == "cbopt":
        return f"({n}_is_none : Bool) ({n} : {env.cb_ty()})"
    return f"({n} : {env.lty(t)})"


def translate_method(env: Env, name, params, rty) -> str:
    f = env.function(name)
    if f.decorator_list:
        raise Unsupported(f"{env.cls}.{name}: decorators")
    check_signature(f, params, f"{env.cls}.{name}")
    env.method, env.aux, env.loops = name, [], 0
    cx = Ctx(env)
    cx.vars["self"] = "self"
    for n, t in params:
        if t is not None:
            cx.vars[n] = t
    body, term = block(list(f.body), cx, rty)
    if not term:
        raise Unsupported(f"{env.cls}.{name} falls off its end")
    implicit = [u for u in IMPLICIT_ORDER if u in cx.used]
    real = [(n, t) for n, t in params if t is not None]
    env.done[name] = {"params": real, "rty": rty, "implicit": implicit}
    sig = " ".join([implicit_decl(env, u) for u in implicit] + [f"(self : {env.prof['self_ty']})"]
                   + [decl_of(env, n, t) for n, t in real])
    text = (f"/-- generated from `{env.cls}.{name}` ({env.prof['file']}) -/\n"
            f"def {name} {sig} :\n    Option ({env.lty(rty)}) := do\n" + "\n".join(body) + "\n")
    return "\n".join(env.aux + [text])


def translate_property(env: Env, name, t, setter_param) -> str:
    g, s = accessor(env, name, False), accessor(env, name, True)
    check_signature(g, [], f"{env.cls}.{name} (getter)")
    check_signature(s, [(setter_param, t)], f"{env.cls}.{name} (setter)")
    env.method, env.aux, env.loops = name, [], 0
    cx = Ctx(env)
    cx.vars["self"] = "self"
    body, term = block(list(g.body), cx, t)
    if not term or cx.used:
        raise Unsupported(f"property {name}: getter")
    env.done[("get", name)] = True
    out = (f"/-- generated from the property `{env.cls}.{name}` -/\n"
           f"def {name} (self : {env.prof['self_ty']}) :\n    Option ({env.lty(t)}) := do\n" + "\n".join(body) + "\n")
    cx = Ctx(env)
    cx.vars["self"] = "self"
    cx.vars[setter_param] = t
    body, term = block(list(s.body), cx, "self")
    if term or cx.used:
        raise Unsupported(f"property {name}: setter")
    env.done[("set", name)] = True
    out += (f"\n/-- generated from the setter of `{env.cls}.{name}` -/\n"
            f"def {name}_set (self : {env.prof['self_ty']}) ({setter_param} : {env.lty(t)}) :\n"
            f"    Option ({env.prof['self_ty']}) := do\n" + "\n".join(body + ["  pure self"]) + "\n")
    return out


def translate_consts(env: Env) -> str:
    out = []
    for c in env.prof["consts"]:
        vals = [s.value for s in env.node.body if isinstance(s, ast.Assign) and [src(t) for t in s.targets] == [c]]
        if len(vals) != 1 or not (isinstance(vals[0], ast.Constant) and type(vals[0].value) is int and vals[0].value >= 0):
            raise Unsupported(f"class constant {env.cls}.{c} is not one natural-number literal")
        out.append(f"/-- `{env.cls}.{c}` -/\ndef {c} : Nat := {vals[0].value}\n")
    return "\n".join(out)


def check_class(env: Env):
    p = env.prof
    defined = {f.name for f in env.node.body if isinstance(f, ast.FunctionDef)}
    extra = sorted(defined - p["may_define"])
    if extra:
        raise Unsupported(f"{env.cls} defines {extra}: not known to the translator")
    for s in env.node.body:
        ok = (is_doc(s) or isinstance(s, ast.FunctionDef)
              or (isinstance(s, ast.Assign) and len(s.targets) == 1 and isinstance(s.targets[0], ast.Name)
                  and isinstance(s.value, ast.Constant)))
        if not ok:
            raise Unsupported(f"class-level statement {src(s)[:60]}")
    init = env.function("__init__")
    stores = {src(t) for n in ast.walk(init) if isinstance(n, ast.Assign) for t in n.targets}
    if env.cls == "iCVIFuzzyART":
        if "self.params['offline']" not in stores or [a.arg for a in init.args.args][-1] != "offline":
            raise Unsupported("iCVIFuzzyART.__init__ does not store its `offline` argument in params")
        if not any(src(n) == "self.params['offline'] = offline" for n in ast.walk(init) if isinstance(n, ast.Assign)):
            raise Unsupported("iCVIFuzzyART.__init__: params['offline'] is not the argument")
        base_cls = env.class_in(env.base_tree, "BaseART")
        ga = [f for f in base_cls.body if isinstance(f, ast.FunctionDef) and f.name == "__getattr__"]
        if len(ga) != 1 or "return self.params[key]" not in src(ga[0]):
            raise Unsupported("BaseART.__getattr__ does not read params (self.offline)")
    else:
        body = [src(s) for s in init.body if not is_doc(s)]
        if "self.base_module = base_module" not in body or "params = dict(base_module.params, **{'validity': validity})" not in body \
                or "super().__init__(params)" not in body:
            raise Unsupported(f"CVIART.__init__ does {body}")


PRELUDE = '''/-
GENERATED by harness/artv/gtrans.py from artlib/cvi/iCVIFuzzyArt.py and artlib/cvi/CVIART.py — do not edit.
Regenerated on every run of the checks that name it; ArtGenProofs/GateSpec.lean proves these definitions equal to the
validity-index gates and the tracking folds of ArtModel/ICVI.lean.  `Art.Gen.ICVI.*` are the definitions itrans.py
generates from CalinkskiHarabasz.py (ArtGen/ICVI.lean), `Art.Gen.BaseART.step_fit` the definition ctrans.py generates
from BaseART.py (ArtGen/Control.lean).
-/
import ArtGen.Control
import ArtGen.ICVI
import ArtModel.ImpGate

set_option linter.unusedVariables false

namespace Art.Gen.Gate

'''


def translate_class(cls: str, repo: Path) -> str:
    env = Env(cls, repo)
    check_class(env)
    p = env.prof
    fields = "\n".join(f"  /-- {doc} -/\n  {n} : {t}" for n, t, doc in p["fields"])
    parts = [f"namespace {cls}\n",
             f"/-- the attributes of a `{cls}` instance that the translated methods read or write -/\n"
             f"structure Self {p['self_params']} where\n{fields}\n",
             translate_consts(env) if p["consts"] else "",
             f"section\nvariable {p['typevars']}\n"]
    for name, t, sp in p["properties"]:
        parts.append(translate_property(env, name, t, sp))
    for name, params, rty in p["methods"]:
        parts.append(translate_method(env, name, params, rty))
    parts.append(f"end\n\nend {cls}\n")
    return "\n".join(x for x in parts if x)


def generate(repo: Path) -> str:
    repo = Path(repo)
    return PRELUDE + "\n".join(translate_class(c, repo) for c in ("iCVIFuzzyART", "CVIART")) + "\nend Art.Gen.Gate\n"


def write(repo: Path = None) -> tuple[bool, str]:
    repo = Path(repo or os.environ.get("VERIF_REPO", "/repo"))
    out = VERIF / "lean" / "ArtGen" / "Gate.lean"
    try:
        text = generate(repo)
    except (Unsupported, SyntaxError, KeyError, AttributeError, TypeError, IndexError, OSError) as e:
        return False, f"gate translator failed closed: {type(e).__name__}: {e}"
    if not out.exists() or out.read_text() != text:
        tmp = out.with_suffix(".lean.tmp")
        tmp.write_text(text)
        os.replace(tmp, out)
    return True, "generated"


if __name__ == "__main__":
    ok, msg = write(Path(sys.argv[1]) if len(sys.argv) > 1 else None)
    print(msg)
    sys.exit(0 if ok else 1)
