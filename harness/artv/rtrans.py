"""FALCON translator: the Python AST of `artlib/reinforcement/FALCON.py` (classes FALCON, TD_FALCON) and of the two
helpers `compliment_code` / `de_compliment_code` of `artlib/common/utils.py`  ->  Lean 4 definitions.

FALCON's own code is glue around a nested `FusionART` (`self.fusion_art`): it joins state | action | reward arrays,
hands them to the nested estimator, reads reward-channel centres back by predicted category, takes an `np.argmax`,
and (TD-FALCON) does whole-array numpy arithmetic for the SARSA targets.  This module translates that sub-language,
syntax-directed, into `lean/ArtGen/Falcon.lean`; `lean/ArtGenProofs/FalconSpec.lean` proves each generated definition
equal to the definition of `ArtModel/Falcon.lean` that the C16 property theorems are stated about.  The nested
estimator stays abstract: its methods are the fields of the structure `FusionOps` (an object of type `F`).

Arrays: a 1-d array is `List α`, a 2-d array `List (List α)`.  Everything runs in the `Option` monad (`none` = the
Python code raises).  The numpy helpers `Art.ImpFalcon.*` (lean/ArtModel/ImpFalcon.lean) have numpy's meaning for
operands of equal shape and are `none` otherwise.

The translation (one fixed rendering per construct; the rendering of an operator is chosen by the operand types):
  x = E / a, b = E                 ->  let x := E  /  let (a, b) := E                 (re-binding shadows)
  self.fusion_art = E              ->  let fusion_art := E          and `return self` returns the written fusion_art
  self.td_alpha, self.td_lambda    ->  parameters td_alpha, td_lambda : α
  return E                         ->  pure E                       (only as the last statement of a method)
  if c: A else: B   (no return)    ->  let (vars) ← if c then (do A; pure (vars)) else (do B; pure (vars))
                                       vars = names bound in both branches, or bound before and re-bound in one
  if x is None: A else: B          ->  let (vars) ← match x with | none => (do A; …) | some x => (do B; …)
  for t in it: body (no return)    ->  let (vars) ← it.foldlM (fun (vars) t => do body; pure (vars)) (vars)
  xs = [] … xs.append(v)           ->  let xs := ([] : List T) … let xs := xs ++ [v]
  assert c, "msg"                  ->  Art.ImpFalcon.pyAssert c      (none when c is false)
  [E for t in it]                  ->  (← it.mapM (fun t => do pure E))
  [a, b, …]                        ->  [a, b, …]
  xs[i]      (xs a list, i : Nat)  ->  (← xs[i]?)                    an index out of range raises
  v[:-k]  /  v[k:]                 ->  Art.ImpFalcon.pyDropLast v k  /  v.drop k
  A[:-k, :] / A[:, :m] / A[:, m:]  ->  pyDropLast A k / npColsTo A m / npColsFrom A m
  A.shape                          ->  Art.ImpFalcon.npShape A       (pair rows, columns)
  v.reshape(1, -1)  (v 1-d)        ->  [v]
  len(xs)                          ->  xs.length
  a > b, a == b, a % b, a // b  (Nat) -> decide (a > b), decide (a = b), a % b, a / b
  s == "lit"  (strings)            ->  (s == "lit")
  A + B / A - B   (2-d, 2-d)       ->  (← npAdd A B) / (← npSub A B)      shape-checked
  s * A / s - A / A / s (scalar s) ->  npSMul s A / npSSub s A / npDivS A s
  x op y          (scalars)        ->  (x op y)
  0, 1, 2, 0.0, 1.0 as scalars     ->  (0 : α), (1 : α), ((1 : α) + 1)
  np.minimum(A, s) / np.maximum(A, s) -> npMinimumS A s / npMaximumS A s
  np.zeros_like(A)                 ->  npZerosLike A
  np.hstack([A, B, …])             ->  (← npHstack [A, B, …])
  np.argmax(A) / np.argmin(A)      ->  (← npArgmax A.flatten) / (← npArgmin A.flatten)   (no axis = flattened; first occurrence)
  np.array(E)                      ->  E                             (a cast; see DROPPED)
  self.fusion_art.m(args, skip_channels=[…])  ->  ops.m fusion_art args [ … ]       m ∈ FUSION_METHODS; (← …) when it can raise
  self.fusion_art.modules[k].prepare_data(X)  ->  ops.module_prepare_data fusion_art k X
  hasattr(self.fusion_art.modules[k], "W")    ->  ops.module_has_W fusion_art k
  self.m(args)                     ->  (← m ops fusion_art … args)   m a translated method, resolved through the base classes
  compliment_code(X) / de_compliment_code(X)  ->  (← compliment_code X) / …   the translated utils functions
Anything else raises `Unsupported`: the translator fails closed.
"""
from __future__ import annotations

import ast
import json
import os
from pathlib import Path

from .ktrans import Unsupported

VERIF = Path(__file__).resolve().parents[2]
FILE = "artlib/reinforcement/FALCON.py"
UTILS = "artlib/common/utils.py"
H = "Art.ImpFalcon."

DROPPED = {
    "docstrings": "string-expression statements have no effect",
    "type annotations": "checked against the table METHODS (a changed annotation fails closed), otherwise no run-time effect",
    "np.array(E)": "a cast of a list of rows / of an array to ndarray: lists of rows already are the arrays of the translation",
    "parameter defaults": "every generated definition takes all its arguments explicitly (action_space=None, "
                          "optimality='max', single_sample_reward=None are the callers' business); skip_channels=[] of the "
                          "nested estimator's methods is made explicit at each call",
    "__init__, prepare_data, restore_data, get_probabilistic_action, TD_FALCON.fit": "not translated (constructor; thin "
                          "delegations to the modules; np.random; a bare raise) — out of the slice",
}

COVERS = ("FALCON.fit/partial_fit/get_actions_and_rewards/get_action/get_rewards, TD_FALCON.calculate_SARSA/partial_fit "
          "(artlib/reinforcement/FALCON.py) and compliment_code/de_compliment_code (artlib/common/utils.py) are translated "
          "and proved equal to ArtModel/Falcon's falconFit, falconPartialFit, actionSpace/actionRewards, getAction, "
          "getRewards, calcSarsa (sarsaList, clip01, ccScalar, deccScalar), tdPartialFit; the nested FusionART "
          "(join_channel_data, fit, partial_fit, predict(skip_channels), get_channel_centers, modules[k].prepare_data, "
          "hasattr(modules[k], 'W')) is abstract — fields of FusionOps, tied to ArtModel/Fusion by the hypothesis `Tie`.")

THEOREMS = [
    "Falcon.npArgmax_eq", "Falcon.npArgmin_eq",
    "Falcon.compliment_code_col", "Falcon.de_compliment_code_eq",
    "Falcon.falcon_fit_spec", "Falcon.falcon_partial_fit_spec",
    "Falcon.get_rewards_spec", "Falcon.get_actions_and_rewards_spec", "Falcon.get_action_spec",
    "Falcon.calculate_SARSA_spec", "Falcon.calculate_SARSA_model", "Falcon.td_partial_fit_spec",
    "Falcon.gen_sarsa_target_formula", "Falcon.gen_sarsa_target_valid", "Falcon.gen_get_action_greedy",
    "Falcon.exTie",
]

# ---------------------------------------------------------------- types
# "nat" "int" "num" "lit" (an integer literal, not yet nat or num) "bool" "str" "F"  ("list", t) ("opt", t) ("prod", [t…])
VEC = ("list", "num")
MAT = ("list", VEC)
CUBE = ("list", MAT)
LINT = ("list", "int")
LNAT = ("list", "nat")

KEYWORDS = {"end": "«end»", "from": "«from»", "at": "«at»", "open": "«open»", "in": "«in»", "then": "«then»",
            "fun": "«fun»", "show": "«show»", "have": "«have»", "match": "«match»", "do": "«do»"}


def nm(s: str) -> str:
    return KEYWORDS.get(s, s)


def lty(t) -> str:
    if isinstance(t, str):
        return {"nat": "Nat", "int": "Int", "num": "α", "bool": "Bool", "str": "String", "F": "F"}[t]
    if t[0] == "list":
        return f"List {atom(lty(t[1]))}"
    if t[0] == "opt":
        return f"Option {atom(lty(t[1]))}"
    if t[0] == "prod":
        return " × ".join(atom(lty(x)) for x in t[1])
    raise Unsupported(f"type {t}")


def atom(s: str) -> str:
    return f"({s})" if " " in s else s


# methods of the nested FusionART: python name -> (field, [(parameter, type)], result type, can raise, defaults)
FUSION_METHODS = {
    "join_channel_data": ("join_channel_data", [("channel_data", CUBE), ("skip_channels", LINT)], MAT, True, {"skip_channels": "[]"}),
    "fit": ("fit", [("X", MAT)], "F", False, {}),
    "partial_fit": ("partial_fit", [("X", MAT)], "F", False, {}),
    "predict": ("predict", [("X", MAT), ("skip_channels", LINT)], LNAT, True, {"skip_channels": "[]"}),
    "get_channel_centers": ("get_channel_centers", [("channel", "nat")], MAT, False, {}),
}
# methods of self.fusion_art.modules[k]
MODULE_METHODS = {"prepare_data": ("module_prepare_data", [("X", MAT)], MAT)}
SELF_NUMS = ["td_alpha", "td_lambda"]
IMPLICIT_ORDER = ["ops", "fusion_art", "td_alpha", "td_lambda"]
IMPLICIT_DECL = {"ops": "(ops : FusionOps F α)", "fusion_art": "(fusion_art : F)", "td_alpha": "(td_alpha : α)",
                 "td_lambda": "(td_lambda : α)"}

ND, OND = "np.ndarray", "Optional[np.ndarray]"
SAR = [("states", MAT, ND), ("actions", MAT, ND), ("rewards", MAT, ND)]
# what is translated: (class, method, [(parameter, type, annotation)], return type | "self")
METHODS = [
    ("FALCON", "fit", SAR, "self"),
    ("FALCON", "partial_fit", SAR, "self"),
    ("FALCON", "get_rewards", [("states", MAT, ND), ("actions", MAT, ND)], MAT),
    ("FALCON", "get_actions_and_rewards", [("state", VEC, ND), ("action_space", ("opt", MAT), OND)], ("prod", [MAT, MAT])),
    ("FALCON", "get_action", [("state", VEC, ND), ("action_space", ("opt", MAT), OND),
                              ("optimality", "str", "Literal['min', 'max']")], VEC),
    ("TD_FALCON", "calculate_SARSA", SAR + [("single_sample_reward", ("opt", "num"), "Optional[float]")],
     ("prod", [MAT, MAT, MAT])),
    ("TD_FALCON", "partial_fit", SAR + [("single_sample_reward", ("opt", "num"), "Optional[float]")], "self"),
]
UTIL_FUNCTIONS = [("compliment_code", [("data", MAT, ND)], MAT), ("de_compliment_code", [("data", MAT, ND)], MAT)]


class Ctx:
    def __init__(self, cls, env):
        self.vars: dict[str, object] = {}
        self.used: set[str] = set()        # implicit parameters of the generated definition
        self.written: list[str] = []       # self state written ("fusion_art")
        self.cls = cls                     # class being translated (None for a module-level function)
        self.env = env                     # Env: classes, translated methods, util functions

    def copy(self):
        c = Ctx(self.cls, self.env)
        c.vars, c.used, c.written = dict(self.vars), self.used, self.written
        return c


class Env:
    def __init__(self, tree, utils_tree):
        self.classes = {n.name: n for n in tree.body if isinstance(n, ast.ClassDef)}
        self.module_defs = {n.name for n in tree.body if isinstance(n, (ast.FunctionDef, ast.ClassDef))}
        self.imports = {}
        for n in tree.body:
            if isinstance(n, ast.ImportFrom):
                for a in n.names:
                    self.imports[a.asname or a.name] = n.module
            if isinstance(n, ast.Import):
                for a in n.names:
                    self.imports[a.asname or a.name] = a.name
        self.done = {}      # (class, method) -> dict(lname, implicit, params, rty, writes)
        self.utils = {}     # function -> dict(params, rty)
        self.utils_tree = utils_tree

    def resolve(self, cls, name):
        """the class that defines `name` for an instance of `cls` (single inheritance inside the module)"""
        seen = []
        while cls is not None and cls not in seen:
            seen.append(cls)
            node = self.classes.get(cls)
            if node is None:
                raise Unsupported(f"class {cls} is not defined in {FILE}")
            if any(isinstance(f, ast.FunctionDef) and f.name == name for f in node.body):
                return cls
            if len(node.bases) > 1:
                raise Unsupported(f"{cls} has several bases")
            cls = node.bases[0].id if node.bases and isinstance(node.bases[0], ast.Name) else None
        raise Unsupported(f"method {name} not found")


def src(e) -> str:
    return ast.unparse(e)


def numlit(v) -> str:
    if v == 0:
        return "(0 : α)"
    if v == 1:
        return "(1 : α)"
    if v == 2:
        return "((1 : α) + 1)"
    raise Unsupported(f"numeric constant {v!r} (only 0, 1, 2 have a rendering over the abstract number type)")


def coerce(text, t, want):
    if t == want:
        return text
    if t == "lit" and want in ("nat", "int"):
        return text
    if t == "lit" and want == "num":
        return numlit(int(text))
    if isinstance(t, tuple) and isinstance(want, tuple) and t[0] == want[0] == "list":
        if t[1] is None:                       # the empty display
            return f"([] : {lty(want)})"
        if t[1] == "lit" and want[1] in ("nat", "int"):
            return f"({text} : {lty(want)})"
    raise Unsupported(f"type mismatch: {t} where {want} is needed ({text})")


def is_self(e, attr=None):
    return (isinstance(e, ast.Attribute) and isinstance(e.value, ast.Name) and e.value.id == "self"
            and (attr is None or e.attr == attr))


def module_index(e, cx):
    """`self.fusion_art.modules[k]` -> Lean text of k, else None"""
    if (isinstance(e, ast.Subscript) and isinstance(e.value, ast.Attribute) and e.value.attr == "modules"
            and is_self(e.value.value, "fusion_art")):
        k, kt = ex(e.slice, cx)
        cx.used.update(["ops", "fusion_art"])
        return coerce(k, kt, "nat")
    return None


def is_np(f, name=None):
    return (isinstance(f, ast.Attribute) and isinstance(f.value, ast.Name) and f.value.id == "np"
            and (name is None or f.attr == name))


def islist(t):
    return isinstance(t, tuple) and t[0] == "list"


NUMOPS = {ast.Add: "+", ast.Sub: "-", ast.Mult: "*", ast.Div: "/"}
CMPOPS = {ast.Gt: ">", ast.Lt: "<", ast.GtE: "≥", ast.LtE: "≤", ast.Eq: "=", ast.NotEq: "≠"}


def ex(e: ast.AST, cx: Ctx):
    """expression -> (Lean text, type); the text is atomic and may contain nested actions `(← …)`"""
    if isinstance(e, ast.Name):
        if e.id not in cx.vars:
            raise Unsupported(f"unknown name {e.id}")
        return nm(e.id), cx.vars[e.id]
    if isinstance(e, ast.Constant):
        v = e.value
        if isinstance(v, bool):
            return ("true" if v else "false"), "bool"
        if isinstance(v, int) and v >= 0:
            return str(v), "lit"
        if isinstance(v, float) and v == int(v) and v >= 0:
            return numlit(int(v)), "num"
        if isinstance(v, str):
            return json.dumps(v), "str"
        raise Unsupported(f"constant {v!r}")
    if isinstance(e, ast.Attribute):
        if is_self(e):
            if e.attr in SELF_NUMS:
                cx.used.add(e.attr)
                return e.attr, "num"
            if e.attr == "fusion_art":
                cx.used.add("fusion_art")
                return "fusion_art", "F"
            raise Unsupported(f"self.{e.attr}")
        if e.attr == "shape":
            b, bt = ex(e.value, cx)
            if bt != MAT:
                raise Unsupported(f".shape of {bt}")
            return f"({H}npShape {b})", ("prod", ["nat", "nat"])
        raise Unsupported(f"attribute {src(e)}")
    if isinstance(e, ast.List):
        parts = [ex(x, cx) for x in e.elts]
        if not parts:
            return "[]", ("list", None)
        ts = {json.dumps(p[1]) for p in parts}
        if len(ts) != 1:
            raise Unsupported(f"list display of mixed types {src(e)}")
        return "[" + ", ".join(p[0] for p in parts) + "]", ("list", parts[0][1])
    if isinstance(e, ast.Tuple):
        parts = [ex(x, cx) for x in e.elts]
        return "(" + ", ".join(p[0] for p in parts) + ")", ("prod", [p[1] for p in parts])
    if isinstance(e, ast.BinOp):
        return binop(e, cx)
    if isinstance(e, ast.Compare) and len(e.ops) == 1:
        l, lt = ex(e.left, cx)
        r, rt = ex(e.comparators[0], cx)
        op = type(e.ops[0])
        if lt in ("nat", "lit") and rt in ("nat", "lit") and op in CMPOPS and (lt, rt) != ("lit", "lit"):
            return f"(decide ({l} {CMPOPS[op]} {r}))", "bool"
        if lt == rt == "str" and op is ast.Eq:
            return f"({l} == {r})", "bool"
        raise Unsupported(f"comparison {src(e)} on {lt}, {rt}")
    if isinstance(e, ast.Subscript):
        return subscript(e, cx)
    if isinstance(e, ast.ListComp):
        if len(e.generators) != 1 or e.generators[0].ifs or e.generators[0].is_async or not isinstance(e.generators[0].target, ast.Name):
            raise Unsupported("comprehension with several generators, a filter or a pattern target")
        g = e.generators[0]
        it, ity = ex(g.iter, cx)
        if not islist(ity) or ity[1] is None:
            raise Unsupported("comprehension over a non-list")
        inner = cx.copy()
        inner.vars[g.target.id] = ity[1]
        b, bt = ex(e.elt, inner)
        return f"(← ({it}).mapM (fun {nm(g.target.id)} => do pure {b}))", ("list", bt)
    if isinstance(e, ast.Call):
        return call(e, cx)
    raise Unsupported(f"expression {type(e).__name__}: {src(e)}")


def binop(e: ast.BinOp, cx: Ctx):
    l, lt = ex(e.left, cx)
    r, rt = ex(e.right, cx)
    op = type(e.op)
    if lt == "lit" and rt in ("num", MAT):
        l, lt = coerce(l, lt, "num"), "num"
    if rt == "lit" and lt in ("num", MAT):
        r, rt = coerce(r, rt, "num"), "num"
    if lt == "lit" and rt == "nat":
        lt = "nat"
    if rt == "lit" and lt == "nat":
        rt = "nat"
    if lt == rt == MAT and op is ast.Add:
        return f"(← {H}npAdd {l} {r})", MAT
    if lt == rt == MAT and op is ast.Sub:
        return f"(← {H}npSub {l} {r})", MAT
    if lt == "num" and rt == MAT and op is ast.Mult:
        return f"({H}npSMul {l} {r})", MAT
    if lt == "num" and rt == MAT and op is ast.Sub:
        return f"({H}npSSub {l} {r})", MAT
    if lt == MAT and rt == "num" and op is ast.Div:
        return f"({H}npDivS {l} {r})", MAT
    if lt == rt == "num" and op in NUMOPS:
        return f"({l} {NUMOPS[op]} {r})", "num"
    if lt == rt == "nat" and op is ast.FloorDiv:
        return f"({l} / {r})", "nat"
    if lt == rt == "nat" and op is ast.Mod:
        return f"({l} % {r})", "nat"
    if lt == rt == "nat" and op in (ast.Add, ast.Mult):
        return f"({l} {NUMOPS[op]} {r})", "nat"
    raise Unsupported(f"operator in {src(e)} on {lt}, {rt}")


def full_slice(s):
    return isinstance(s, ast.Slice) and s.lower is None and s.upper is None and s.step is None


def neg_const(e):
    if isinstance(e, ast.UnaryOp) and isinstance(e.op, ast.USub) and isinstance(e.operand, ast.Constant) \
            and isinstance(e.operand.value, int) and not isinstance(e.operand.value, bool) and e.operand.value >= 1:
        return e.operand.value
    return None


def slice1(b, bty, s: ast.Slice, cx, cols=False):
    """one slice applied to the rows (entries) of `b`, or to its columns"""
    if s.step is not None:
        raise Unsupported("slice with a step")
    if full_slice(s):
        return b
    if s.lower is None and s.upper is not None:
        k = neg_const(s.upper)
        if k is not None:
            if cols:
                raise Unsupported("column slice [:, :-k]")
            return f"({H}pyDropLast {b} {k})"
        u, ut = ex(s.upper, cx)
        if cols:
            return f"({H}npColsTo {b} {coerce(u, ut, 'nat')})"
        raise Unsupported(f"slice [:{src(s.upper)}]")
    if s.lower is not None and s.upper is None:
        lo, lot = ex(s.lower, cx)
        lo = coerce(lo, lot, "nat")
        if cols:
            return f"({H}npColsFrom {b} {lo})"
        return f"({b}.drop {lo})"
    raise Unsupported("slice with both bounds")


def subscript(e: ast.Subscript, cx: Ctx):
    b, bty = ex(e.value, cx)
    s = e.slice
    if isinstance(s, ast.Slice):
        if not islist(bty):
            raise Unsupported(f"slice of {bty}")
        return slice1(b, bty, s, cx), bty
    if isinstance(s, ast.Tuple) and len(s.elts) == 2 and all(isinstance(x, ast.Slice) for x in s.elts):
        if bty != MAT:
            raise Unsupported(f"2-d slice of {bty}")
        t = slice1(b, bty, s.elts[0], cx)
        return slice1(t, bty, s.elts[1], cx, cols=True), MAT
    if isinstance(bty, tuple) and bty[0] == "prod":
        if isinstance(s, ast.Constant) and isinstance(s.value, int) and len(bty[1]) == 2 and s.value in (0, 1):
            return f"{b}.{s.value + 1}", bty[1][s.value]
        raise Unsupported("tuple index")
    if islist(bty) and bty[1] is not None:
        i, it = ex(s, cx)
        return f"(← {b}[{coerce(i, it, 'nat')}]?)", bty[1]
    raise Unsupported(f"subscript of {bty}: {src(e)}")


def call_args(e: ast.Call, params, defaults, cx, what):
    """positional + keyword arguments against a parameter list -> Lean texts"""
    if len(e.args) > len(params):
        raise Unsupported(f"{what}: too many arguments")
    given = {}
    for (p, t), a in zip(params, e.args):
        given[p] = a
    for kw in e.keywords:
        if kw.arg is None or kw.arg in given or kw.arg not in [p for p, _ in params]:
            raise Unsupported(f"{what}: keyword {kw.arg}")
        given[kw.arg] = kw.value
    out = []
    for p, t in params:
        if p in given:
            out.append(coerce(*ex(given[p], cx), t))
        elif p in defaults:
            out.append(coerce(defaults[p], ("list", None) if defaults[p] == "[]" else t, t))
        else:
            raise Unsupported(f"{what}: argument {p} missing")
    return out


def call(e: ast.Call, cx: Ctx):
    f = e.func
    env = cx.env
    if isinstance(f, ast.Name):
        if f.id == "len" and len(e.args) == 1 and not e.keywords:
            a, t = ex(e.args[0], cx)
            if not islist(t):
                raise Unsupported("len of a non-list")
            return f"{a}.length", "nat"
        if f.id == "hasattr" and len(e.args) == 2 and not e.keywords:
            k = module_index(e.args[0], cx)
            if k is None or not (isinstance(e.args[1], ast.Constant) and e.args[1].value == "W"):
                raise Unsupported(f"hasattr: {src(e)}")
            return f"(ops.module_has_W fusion_art {k})", "bool"
        if f.id in env.utils:
            if f.id in env.module_defs or env.imports.get(f.id) != "artlib.common.utils":
                raise Unsupported(f"{f.id} is not the function imported from artlib.common.utils")
            u = env.utils[f.id]
            args = call_args(e, [(p, t) for p, t, _ in u["params"]], {}, cx, f.id)
            return f"(← {f.id} " + " ".join(args) + ")", u["rty"]
        raise Unsupported(f"function {f.id}")
    if not isinstance(f, ast.Attribute):
        raise Unsupported(f"call {src(e)}")
    if is_np(f):
        if e.keywords:
            raise Unsupported(f"keyword arguments in {src(e)}")
        if f.attr == "array" and len(e.args) == 1:
            a, t = ex(e.args[0], cx)
            if not islist(t) or t[1] is None:
                raise Unsupported(f"np.array of {t}")
            return a, t
        if f.attr in ("minimum", "maximum") and len(e.args) == 2:
            a, at = ex(e.args[0], cx)
            s, st = ex(e.args[1], cx)
            if at != MAT:
                raise Unsupported(f"np.{f.attr} of {at}")
            hn = "npMinimumS" if f.attr == "minimum" else "npMaximumS"
            return f"({H}{hn} {a} {coerce(s, st, 'num')})", MAT
        if f.attr == "zeros_like" and len(e.args) == 1:
            a, at = ex(e.args[0], cx)
            if at != MAT:
                raise Unsupported(f"np.zeros_like of {at}")
            return f"({H}npZerosLike {a})", MAT
        if f.attr == "hstack" and len(e.args) == 1:
            a, at = ex(e.args[0], cx)
            if at != CUBE:
                raise Unsupported(f"np.hstack of {at}")
            return f"(← {H}npHstack {a})", MAT
        if f.attr in ("argmax", "argmin") and len(e.args) == 1:
            a, at = ex(e.args[0], cx)
            hn = "npArgmax" if f.attr == "argmax" else "npArgmin"
            if at == MAT:
                return f"(← {H}{hn} {a}.flatten)", "nat"
            if at == VEC:
                return f"(← {H}{hn} {a})", "nat"
            raise Unsupported(f"np.{f.attr} of {at}")
        raise Unsupported(f"numpy function {src(f)}")
    # self.fusion_art.m(...)
    if is_self(f.value, "fusion_art"):
        if f.attr not in FUSION_METHODS:
            raise Unsupported(f"nested estimator method {f.attr}")
        fld, params, rty, raises, defaults = FUSION_METHODS[f.attr]
        cx.used.update(["ops", "fusion_art"])
        args = call_args(e, params, defaults, cx, f"fusion_art.{f.attr}")
        t = f"ops.{fld} fusion_art " + " ".join(args)
        return (f"(← {t})" if raises else f"({t})"), rty
    # self.fusion_art.modules[k].m(...)
    k = module_index(f.value, cx)
    if k is not None:
        if f.attr not in MODULE_METHODS:
            raise Unsupported(f"module method {f.attr}")
        fld, params, rty = MODULE_METHODS[f.attr]
        args = call_args(e, params, {}, cx, f"modules[k].{f.attr}")
        return f"(ops.{fld} fusion_art {k} " + " ".join(args) + ")", rty
    # self.m(...)
    if isinstance(f.value, ast.Name) and f.value.id == "self":
        if cx.cls is None:
            raise Unsupported("self outside a class")
        owner = env.resolve(cx.cls, f.attr)
        d = env.done.get((owner, f.attr))
        if d is None:
            raise Unsupported(f"self.{f.attr} resolves to {owner}.{f.attr}, which is not translated (yet)")
        if d["writes"]:
            raise Unsupported(f"state-writing method {f.attr} in expression position")
        args = call_args(e, [(p, t) for p, t, _ in d["params"]], {}, cx, f"self.{f.attr}")
        cx.used.update(d["implicit"])
        return f"(← {d['lname']} " + " ".join(d["implicit"] + args) + ")", d["rty"]
    # v.reshape(1, -1)
    if f.attr == "reshape" and len(e.args) == 2 and not e.keywords:
        a, at = ex(f.value, cx)
        one, m1 = e.args
        if at == VEC and isinstance(one, ast.Constant) and one.value == 1 and neg_const(m1) == 1:
            return f"[{a}]", MAT
        raise Unsupported(f"reshape: {src(e)}")
    raise Unsupported(f"method call {src(e)}")


# ---------------------------------------------------------------- statements


def bound_in(stmts, definite: bool) -> list[str]:
    """names (re-)bound by a block, in order of first appearance (`fusion_art` for a write to self.fusion_art);
    definite=True: only those bound on every path through the block"""
    out = []

    def add(x):
        if x not in out:
            out.append(x)

    for s in stmts:
        if isinstance(s, ast.Assign):
            for t in s.targets:
                if isinstance(t, ast.Name):
                    add(t.id)
                elif isinstance(t, ast.Tuple):
                    for x in t.elts:
                        if isinstance(x, ast.Name):
                            add(x.id)
                elif is_self(t, "fusion_art"):
                    add("fusion_art")
        elif isinstance(s, ast.Expr) and isinstance(s.value, ast.Call) and isinstance(s.value.func, ast.Attribute) \
                and s.value.func.attr == "append" and isinstance(s.value.func.value, ast.Name):
            add(s.value.func.value.id)
        elif isinstance(s, ast.If):
            b1, b2 = bound_in(s.body, definite), bound_in(s.orelse, definite)
            for x in b1 + b2:
                if not definite or (x in b1 and x in b2):
                    add(x)
        elif isinstance(s, ast.For) and not definite:
            for x in bound_in(s.body, False):
                add(x)
    return out


def carried(body, orelse, cx: Ctx) -> list[str]:
    """the variables an `if` / `for` hands on: bound before and re-bound inside, or bound in both branches"""
    possible = bound_in(body, False) + (bound_in(orelse, False) if orelse is not None else [])
    d1, d2 = bound_in(body, True), (bound_in(orelse, True) if orelse is not None else [])
    names = []
    for n in possible:
        before = n in cx.vars or n == "fusion_art"
        both = orelse is not None and n in d1 and n in d2
        if (before or both) and n not in names:
            names.append(n)
    return names


def pack(vs):
    return "()" if not vs else nm(vs[0]) if len(vs) == 1 else "(" + ", ".join(nm(v) for v in vs) + ")"


def is_none_test(t):
    return (isinstance(t, ast.Compare) and len(t.ops) == 1 and isinstance(t.ops[0], ast.Is) and isinstance(t.left, ast.Name)
            and isinstance(t.comparators[0], ast.Constant) and t.comparators[0].value is None)


def has_return(stmts):
    return any(isinstance(n, (ast.Return, ast.Break, ast.Continue, ast.Raise)) for b in stmts for n in ast.walk(b))


def note_write(cx, vs):
    if "fusion_art" in vs:
        cx.used.add("fusion_art")
        if "fusion_art" not in cx.written:
            cx.written.append("fusion_art")


def merge_types(vs, cx, branches):
    for v in vs:
        if v == "fusion_art":
            continue
        ts = [c.vars.get(v) for c in branches]
        if any(t != ts[0] for t in ts) or ts[0] is None:
            raise Unsupported(f"{v} has different types on the branches: {ts}")
        cx.vars[v] = ts[0]


def block(stmts, cx: Ctx, ret_ty, I="  ") -> list:
    out = []
    for idx, s in enumerate(stmts):
        if isinstance(s, ast.Expr) and isinstance(s.value, ast.Constant) and isinstance(s.value.value, str):
            continue                                                           # DROPPED: docstring
        if isinstance(s, ast.Return):
            if idx != len(stmts) - 1 or ret_ty is None:
                raise Unsupported("return that is not the last statement of the method")
            if ret_ty == "self":
                if not (isinstance(s.value, ast.Name) and s.value.id == "self"):
                    raise Unsupported(f"return {src(s.value)} where `return self` is expected")
                if cx.written != ["fusion_art"]:
                    raise Unsupported("`return self` of a method that does not write self.fusion_art")
                out.append(I + "pure fusion_art")
                return out
            if s.value is None:
                raise Unsupported("bare return")
            v, vt = ex(s.value, cx)
            if cx.written:
                raise Unsupported("a method that writes self state and returns a value")
            out.append(I + "pure " + coerce(v, vt, ret_ty))
            return out
        if isinstance(s, ast.Assert):
            c, ct = ex(s.test, cx)
            if ct != "bool":
                raise Unsupported("assert of a non-boolean")
            out.append(I + f"{H}pyAssert {c}")
            continue
        if isinstance(s, ast.Assign) and len(s.targets) == 1:
            t = s.targets[0]
            if isinstance(t, ast.Name):
                if isinstance(s.value, ast.List) and not s.value.elts:
                    cx.vars[t.id] = ("list", None)                            # element type: from the first append
                    out.append((I + f"let {nm(t.id)} := []", t.id))
                    continue
                v, vt = ex(s.value, cx)
                if vt == "lit":
                    vt = "nat"
                out.append(I + f"let {nm(t.id)} := {v}")
                cx.vars[t.id] = vt
                continue
            if isinstance(t, ast.Tuple) and all(isinstance(x, ast.Name) for x in t.elts):
                v, vt = ex(s.value, cx)
                if not (isinstance(vt, tuple) and vt[0] == "prod" and len(vt[1]) == len(t.elts)):
                    raise Unsupported(f"unpacking {src(s.value)} of type {vt} into {len(t.elts)} names")
                out.append(I + "let (" + ", ".join(nm(x.id) for x in t.elts) + f") := {v}")
                for x, xt in zip(t.elts, vt[1]):
                    cx.vars[x.id] = xt
                continue
            if is_self(t, "fusion_art"):
                v, vt = ex(s.value, cx)
                if vt != "F":
                    raise Unsupported(f"self.fusion_art = a value of type {vt}")
                out.append(I + f"let fusion_art := {v}")
                note_write(cx, ["fusion_art"])
                continue
            raise Unsupported(f"assignment target {src(t)}")
        if isinstance(s, ast.Expr) and isinstance(s.value, ast.Call) and isinstance(s.value.func, ast.Attribute) \
                and s.value.func.attr == "append" and isinstance(s.value.func.value, ast.Name) \
                and len(s.value.args) == 1 and not s.value.keywords:
            x = s.value.func.value.id
            lt = cx.vars.get(x)
            if not islist(lt):
                raise Unsupported(f"append to {x}")
            v, vt = ex(s.value.args[0], cx)
            if lt[1] is None:
                cx.vars[x] = ("list", "nat" if vt == "lit" else vt)
            else:
                v = coerce(v, vt, lt[1])
            out.append(I + f"let {nm(x)} := {nm(x)} ++ [{v}]")
            continue
        if isinstance(s, ast.For) and not s.orelse:
            if has_return(s.body):
                raise Unsupported("return / break / continue / raise inside a for loop")
            it, ity = ex(s.iter, cx)
            if not islist(ity) or ity[1] is None or not isinstance(s.target, ast.Name):
                raise Unsupported("for over a non-list / with a pattern target")
            vs = carried(s.body, None, cx)
            note_write(cx, vs)
            inner = cx.copy()
            inner.vars[s.target.id] = ity[1]
            body = block(s.body, inner, None, I + "    ")
            for v in vs:
                if v != "fusion_art":
                    t0, t1 = cx.vars.get(v), inner.vars.get(v)
                    if t0 != t1 and not (islist(t0) and t0[1] is None and islist(t1)):
                        raise Unsupported(f"{v} changes its type inside the loop: {t0} -> {t1}")
                    cx.vars[v] = t1
            out.append(I + f"let {pack(vs)} ← ({it}).foldlM (fun {pack(vs)} {nm(s.target.id)} => do")
            out += body
            out.append(I + f"    pure {pack(vs)}) {pack(vs)}")
            continue
        if isinstance(s, ast.If):
            if has_return(s.body) or has_return(s.orelse):
                raise Unsupported("return / raise inside if")
            vs = carried(s.body, s.orelse, cx)
            note_write(cx, vs)
            c1, c2 = cx.copy(), cx.copy()
            if is_none_test(s.test):
                x = s.test.left.id
                xt = cx.vars.get(x)
                if not (isinstance(xt, tuple) and xt[0] == "opt"):
                    raise Unsupported(f"`{x} is None` on a value that is not optional")
                c2.vars[x] = xt[1]
                b1 = block(s.body, c1, None, I + "      ")
                b2 = block(s.orelse, c2, None, I + "      ")
                merge_types(vs, cx, [c1, c2])
                out.append(I + f"let {pack(vs)} ← match {nm(x)} with")
                out.append(I + "  | none => (do")
                out += b1
                out.append(I + f"      pure {pack(vs)})")
                out.append(I + f"  | some {nm(x)} => (do")
                out += b2
                out.append(I + f"      pure {pack(vs)})")
                continue
            c, ct = ex(s.test, cx)
            if ct != "bool":
                raise Unsupported("condition is not boolean")
            b1 = block(s.body, c1, None, I + "    ")
            b2 = block(s.orelse, c2, None, I + "    ")
            merge_types(vs, cx, [c1, c2])
            out.append(I + f"let {pack(vs)} ← if {c} then (do")
            out += b1
            out.append(I + f"    pure {pack(vs)})")
            out.append(I + "  else (do")
            out += b2
            out.append(I + f"    pure {pack(vs)})")
            continue
        raise Unsupported(f"statement {type(s).__name__}: {src(s)[:80]}")
    if ret_ty is None:
        return out
    raise Unsupported("method falls off its end")


def finish_empty_lists(lines, cx: Ctx):
    """`xs = []` was emitted before the element type was known: add the ascription"""
    out = []
    for ln in lines:
        if isinstance(ln, tuple):
            text, x = ln
            t = cx.vars.get(x)
            if not (islist(t) and t[1] is not None):
                raise Unsupported(f"element type of the empty list {x} is never determined")
            out.append(text.replace(":= []", f":= ([] : {lty(t)})"))
        else:
            out.append(ln)
    return out


def check_signature(f: ast.FunctionDef, params, what, method=True):
    a = f.args
    if a.vararg or a.kwarg or a.kwonlyargs or a.posonlyargs:
        raise Unsupported(f"{what}: *args / **kwargs / keyword-only parameters")
    args = a.args[1:] if method else a.args
    got = [(x.arg, src(x.annotation) if x.annotation is not None else None) for x in args]
    want = [(p, ann) for p, _, ann in params]
    if got != want:
        raise Unsupported(f"{what} has parameters {got}, the translator knows {want}")
    if f.decorator_list:
        raise Unsupported(f"{what} is decorated")


def translate_util(env: Env, name, params, rty) -> str:
    fs = [n for n in env.utils_tree.body if isinstance(n, ast.FunctionDef) and n.name == name]
    if len(fs) != 1:
        raise Unsupported(f"{name} not found (once) in {UTILS}")
    f = fs[0]
    check_signature(f, params, name, method=False)
    cx = Ctx(None, env)
    for p, t, _ in params:
        cx.vars[p] = t
    body = finish_empty_lists(block(list(f.body), cx, rty, "  "), cx)
    env.utils[name] = {"params": params, "rty": rty}
    pdecl = " ".join(f"({nm(p)} : {lty(t)})" for p, t, _ in params)
    return (f"/-- `{name}` ({UTILS}) -/\n"
            f"def {name} {pdecl} :\n    Option {atom(lty(rty))} := do\n" + "\n".join(body) + "\n")


def translate_method(env: Env, cls, name, params, rty) -> str:
    node = env.classes.get(cls)
    if node is None:
        raise Unsupported(f"class {cls} not found")
    fs = [f for f in node.body if isinstance(f, ast.FunctionDef) and f.name == name]
    if len(fs) != 1:
        raise Unsupported(f"{cls}.{name} not found (once)")
    f = fs[0]
    check_signature(f, params, f"{cls}.{name}")
    cx = Ctx(cls, env)
    for p, t, _ in params:
        cx.vars[p] = t
    body = finish_empty_lists(block(list(f.body), cx, rty, "  "), cx)
    implicit = [p for p in IMPLICIT_ORDER if p in cx.used]
    if "ops." in "\n".join(body) and "ops" not in implicit:
        implicit = ["ops"] + implicit
    lname = name if cls == "FALCON" else f"{cls}.{name}"
    env.done[(cls, name)] = {"lname": lname, "implicit": implicit, "params": params, "rty": rty,
                             "writes": bool(cx.written)}
    rt = "F" if rty == "self" else atom(lty(rty))
    decl = " ".join(IMPLICIT_DECL[p] for p in implicit)
    pdecl = " ".join(f"({nm(p)} : {lty(t)})" for p, t, _ in params)
    return (f"/-- `{cls}.{name}` -/\n"
            f"def {lname} {decl} {pdecl} :\n    Option {rt} := do\n" + "\n".join(body) + "\n")


PRELUDE = '''/-
GENERATED by harness/artv/rtrans.py from {file} and {utils} — do not edit.
Regenerated on every run of the checks that name it; ArtGenProofs/FalconSpec.lean proves these definitions equal
to the FALCON / TD-FALCON model of ArtModel/Falcon.lean.
-/
import ArtModel.ImpFalcon

set_option linter.unusedVariables false

namespace Art.Gen.FALCON
open Art

/-- the nested estimator `self.fusion_art` as FALCON's own code uses it: an abstract object `F` with these methods
(`fit` / `partial_fit` return the trained object; `none` = the call raises) -/
structure FusionOps (F α : Type) where
  /-- `join_channel_data(channel_data, skip_channels)` -/
  join_channel_data : F → List (List (List α)) → List Int → Option (List (List α))
  fit : F → List (List α) → F
  partial_fit : F → List (List α) → F
  /-- `predict(X, skip_channels)` -/
  predict : F → List (List α) → List Int → Option (List Nat)
  get_channel_centers : F → Nat → List (List α)
  /-- `modules[k].prepare_data(X)` -/
  module_prepare_data : F → Nat → List (List α) → List (List α)
  /-- `hasattr(modules[k], "W")` -/
  module_has_W : F → Nat → Bool

section
variable {F α : Type} [Add α] [Sub α] [Mul α] [Div α] [Min α] [Max α] [Zero α] [One α]
  [LT α] [DecidableRel (α := α) (· < ·)]

'''


def generate(repo: Path) -> str:
    repo = Path(repo)
    tree = ast.parse((repo / FILE).read_text())
    utils_tree = ast.parse((repo / UTILS).read_text())
    env = Env(tree, utils_tree)
    # TD_FALCON may override only what is translated for it (a further override would change what `self.m` means)
    td = env.classes.get("TD_FALCON")
    if td is None or [src(b) for b in td.bases] != ["FALCON"]:
        raise Unsupported("class TD_FALCON(FALCON) not found")
    allowed = {"__init__", "fit"} | {m for c, m, _, _ in METHODS if c == "TD_FALCON"}
    extra = [f.name for f in td.body if isinstance(f, ast.FunctionDef) and f.name not in allowed]
    if extra:
        raise Unsupported(f"TD_FALCON defines {extra}: not known to the translator")
    parts = [PRELUDE.replace("{file}", FILE).replace("{utils}", UTILS)]
    for name, params, rty in UTIL_FUNCTIONS:
        parts.append(translate_util(env, name, params, rty))
    for cls, name, params, rty in METHODS:
        parts.append(translate_method(env, cls, name, params, rty))
    parts.append("end\n\nend Art.Gen.FALCON\n")
    return "\n".join(parts)


def write(repo: Path = None) -> tuple[bool, str]:
    repo = Path(repo or os.environ.get("VERIF_REPO", "/repo"))
    out = VERIF / "lean" / "ArtGen" / "Falcon.lean"
    try:
        text = generate(repo)
    except (Unsupported, SyntaxError, KeyError, AttributeError, TypeError, IndexError, OSError) as e:
        return False, f"{type(e).__name__}: {e}"
    if not out.exists() or out.read_text() != text:
        tmp = out.with_suffix(".lean.tmp")
        tmp.write_text(text)
        os.replace(tmp, out)
    return True, "generated"


if __name__ == "__main__":
    import sys
    ok, msg = write(sys.argv[1] if len(sys.argv) > 1 else None)
    print(msg)
    sys.exit(0 if ok else 1)
