"""Third FusionART translator: FusionART *training* end to end  ->  Lean 4 definitions in `lean/ArtGen/FusionFit.lean`.

`ftrans.py` translates FusionART's kernel plumbing (`category_choice`, `match_criterion_bin`, `update`, `new_weight`,
`_match_tracking`, `add_weight`, `set_weight`, the `W` property), `ctrans.py` translates `BaseART.step_fit / partial_fit /
fit` *for a class that keeps `W` as a list attribute and inherits BaseART's `add_weight / set_weight / _set_params /
_deep_copy_params`*.  A FusionART inherits `step_fit` and `fit` from BaseART but overrides every one of those (and `W` is
a property re-assembled from the modules), so the text ctrans generates is not what runs on a FusionART.  This module
therefore translates the training methods **as executed on the concrete class**:

  from artlib/fusion/FusionART.py   `_set_params`, `_deep_copy_params`, the `W` setter, `partial_fit` (FusionART's own)
  from artlib/common/BaseART.py     `step_fit`, `fit` (inherited; FusionART must not define them), and the decision table
                                    `_match_tracking_operator` (ktrans' rule, re-emitted here)

and every `self.m(...)` / `self.W` inside them is resolved the way Python resolves it — FusionART first, then BaseART
(the class statement must read `class FusionART(BaseART)`) — to
  * the definition ftrans generates for it (`Art.Gen.FusionART.<m>`, ArtGen/Fusion.lean; the implicit arguments and the
    written state are read off the text ftrans produces for the same source), or
  * a definition generated here, or
  * nothing, when the resolved body is `pass` (the hooks `pre_step_fit / post_step_fit / post_fit`).
`lean/ArtGenProofs/FusionFitSpec.lean` proves the generated `step_fit` equal to the model's `modsStep` (the training
step on the module states, ArtModel/Fusion.lean — proved there to be the projection of `stepFit (fusionKernel chans)`),
`partial_fit` equal to `modsRun`, `fit` equal to the epochs of `modsStep`, and transports the C10 theorems.

Objects.  A FusionART is `Art.ImpFusion3.FSelf M` (modules, n, _channel_indices, _weight_indices, sample_counter_,
weight_sample_counter_, labels_); a nested estimator is an abstract `M` with the operations `ModOps` (ftrans) and
`FitOps` (here: attribute stores and `hasattr(module, "W")`).  Everything runs in the `Option` monad (`none` = the
Python code raises).  H = `Art.ImpFusion3.` (lean/ArtModel/ImpFusion3.lean).

The translation (one fixed rendering per construct; the rendering of a literal is chosen by the expected type):
  x = E  /  a, b = E  (E a pair)        ->  let x := E  /  let (a, b) := E                   (re-binding shadows)
  self.a = E  /  self.a += E            ->  let self := { self with <a> := E }  /  … := (self.<a> + E)
  self.modules[k].a = E                 ->  let self := { self with modules := self.modules.set k (fops.set_<a> (← self.modules[k]?) E) }
  self.W = E   (W has a setter)         ->  let self ← W_set fops self E
  self.is_fitted_ = True                ->  (dropped, see DROPPED)
  v[i] = E  /  self.labels_[i] = E      ->  let v := (← H.pySetItem v i E)   /  let self := { self with labels := (← H.pySetItem self.labels i E) }
  T[:] = np.nan                         ->  let T := T.map (fun _ => none)
  a, b = zip(*[E for …])                ->  let zipped__ ← …mapM…; let a := zipped__.map (·.1); let b := zipped__.map (·.2)
  return E / return self                ->  pure (self, E) / pure self       (a method that does not write self: pure E;
                                            inside a `while`: pure (.ret (self, E)))
  if c: A else: B     (no return)       ->  let (vars) ← if c then (do A; pure (vars)) else (do B; pure (vars))
  if c: A else: B     (a return inside) ->  if c then (do A; rest) else (do B; rest)     (rest only after a branch that falls through)
  while c: B ; rest                     ->  match (← H.whileM (<m>_loopN_cond …) (<m>_loopN_body …) fuel (vars)) with
                                            | .ret r_ => pure r_ | .next (vars) => (do rest)
                                            condition and body are top-level definitions over the loop-carried variables
  for t in it: B  /  for i, t in enumerate(it) / in <an enumerate object>
                                        ->  let (vars) ← (it).foldlM (fun (vars) t => do B; pure (vars)) (vars)   /  (it).zipIdx … (t, i)
  [E for t in it] / … in enumerate(it)  ->  (← (it).mapM (fun t => do pure E))  /  (it).zipIdx … (fun (t, i) => …
  {k: E for k, t in enumerate(it)}      ->  (← (it).zipIdx.mapM (fun (t, k) => do pure E))        (a dict keyed by position = the list)
  A if c else B                         ->  (← if c then (do pure A) else (do pure B))             (lazy, like Python)
  xs[i]  /  t[0], t[1]  /  v[a:b]       ->  (← xs[i]?)  /  t.1, t.2  /  (Art.Imp.pySlice v a b)
  len(xs) / range(n) / enumerate(xs)    ->  xs.length / (List.range n) / xs.zipIdx
  X.shape[0]                            ->  X.length
  a + b  /  a == b, a > b (naturals)    ->  (a + b)  /  (a == b), (decide (a > b))
  a and b / a or b / not a              ->  (a && b) / (a || b) / (!a)
  m in ["MT~"]                          ->  ([Art.MT.tilde].contains m)
  f is None / f is not None  (f the callback parameter)   ->  f_is_none / (!f_is_none)
  f(x, w, c, params=self.params, cache=E)                 ->  (f x w c E)             E : Option (List C)
  np.nan  /  None                       ->  none   (an activation / an optional cache)
  E : T where Option T is expected      ->  (some E)
  np.array(E) / int(E) / deepcopy(E) / tqdm(E, …)         ->  E                       (see DROPPED)
  any(~np.isnan(T))                     ->  (T.any Option.isSome)
  np.nanargmax(T)                       ->  (← Art.nanargmax T)                       all-NaN raises
  np.zeros((n,), dtype=int)             ->  (List.replicate n 0)
  np.pad(v, [(0, n)], mode="constant")  ->  (v ++ List.replicate n 0)
  hasattr(self.modules[k], "W")         ->  (fops.hasW (← self.modules[k]?))
  module.params  (module : M)           ->  (ops.params module)
  self.n / self.modules / self._channel_indices / self._weight_indices / self.sample_counter_ / self.labels_ /
  self.weight_sample_counter_           ->  self.n / self.modules / self.chIdx / self.wIdx / self.sample_counter / self.labels / self.cnt
  self.W   (property, ftrans)           ->  (← Art.Gen.FusionART.W_get ops self.modules self.n)
  self.m(args)  m translated by ftrans  ->  (← Art.Gen.FusionART.<m> <implicit arguments read off ftrans' text> args)
                                            the state it writes comes back first and is stored:
                                            let (wIdx__, w_new) ← …new_weight…; let self := { self with wIdx := wIdx__ }
                                            a result annotated `Tuple[float, Optional[Dict]]` is wrapped in H.someSnd
  self.m(args)  m translated here       ->  (← m <implicit> self args) / let self ← … / let (self, v) ← …
                                            a method with a `while` loop also receives fuel = len(self.W)
  self._match_tracking_operator(m)      ->  (match_tracking_operator m)               (BaseART's table, generated here)
  self.pre_step_fit(X) etc.             ->  nothing, after checking that the resolved body is `pass`
Anything else raises `Unsupported`: the translator fails closed.
"""
from __future__ import annotations

import ast
import os
import re
from pathlib import Path

from .ktrans import Unsupported, MODE_CTOR, translate_operator
from . import ftrans
from .ftrans import nm, src, self_attr

VERIF = Path(__file__).resolve().parents[2]
FUSION = "artlib/fusion/FusionART.py"
BASE = "artlib/common/BaseART.py"
H = "Art.ImpFusion3."
G = "Art.Gen.FusionART."

DROPPED = {
    "docstrings": "string-expression statements have no effect",
    "type annotations (also `self.W: List[np.ndarray] = []`)": "no run-time effect; the annotated assignment is translated as the assignment",
    "self.validate_data(X), self.check_dimensions(X)": "validation guard calls at the top of fit / partial_fit: they only raise on "
        "malformed data and write nothing the translated code reads (validation is C18's subject)",
    "self.is_fitted_ = True": "a write-only flag: nothing in the translated code reads it",
    "from tqdm import tqdm; tqdm(E, total=…)": "a progress bar is the identity on the iterator",
    "np.array(E), int(E), deepcopy(E)": "casts / copies of immutable values: the translation's lists and naturals already are the values",
    "the `params` argument of category_choice / match_criterion_bin / update / new_weight / _match_tracking and of the reset "
    "callback (always `self.params`)": "FusionART's methods never read their `params` argument (ftrans drops the parameter for the "
        "same reason); `self.params` of a FusionART is the constant dict {gamma_values}, which a callback could read from the object",
    "pre_step_fit, post_step_fit, post_fit": "hooks whose resolved body (BaseART's; FusionART does not override them) is `pass` — checked",
    "parameter defaults": "every generated definition takes all its arguments explicitly; a call that omits an argument passes the "
        "default written in the callee's signature",
    "the exception type": "every raise / failing index is `none`",
}

COVERS = ("FusionART._set_params / _deep_copy_params / W setter / partial_fit (artlib/fusion/FusionART.py) and BaseART.step_fit / fit / "
          "_match_tracking_operator (artlib/common/BaseART.py) as executed on a FusionART — every self.m / self.W inside them resolved "
          "FusionART-first to the definitions ftrans generates (category_choice, match_criterion_bin, update, new_weight, _match_tracking, "
          "add_weight, set_weight, W) or to the ones generated here — are translated and proved (never raising, for every number of "
          "channels, state, stream, mode, epsilon, reset function) equal to ArtModel/Fusion's modsStep (one step on the module states) "
          "and to the projections (chanStates) of stepFit / partialFit / fitEpochs (fusionKernel chans) under fusionCfg, labels_ "
          "included, with the modules' params restored; C10's fusion_modules_are_projections, fusion_counts_equal, "
          "fusion_channel_states, fusion_W_concat, fusion_single_channel are transported to the generated partial_fit.  The nested "
          "estimators are abstract (ModOps of ftrans; FitOps here: the attribute stores params / W / weight_sample_counter_ / "
          "sample_counter_ and hasattr(module, 'W')) and tied to the model's channels by the contract `Sys` of the spec file (for "
          "every object of channel k's class: its kernel methods are the channel's Kernel, its vigilance test / match tracking the "
          "scalar ones with the generated operator table, its stores are lenses), discharged by `scalar_sys` for elementary modules "
          "with ktrans' generated decision tables; np.nanargmax is ArtModel.Basic.nanargmax; the `while` loop runs on fuel len(W), "
          "proved sufficient.")

THEOREMS = [
    "FusionFit.whileM_follows_search",
    "FusionFit.deep_copy_params_spec", "FusionFit.set_params_spec", "FusionFit.set_deep_copy", "FusionFit.W_set_nil_spec",
    "FusionFit.match_criterion_bin_full", "FusionFit.body_eq", "FusionFit.body_spec",
    "FusionFit.step_fit_spec", "FusionFit.step_fit_refines_stepFit",
    "FusionFit.partial_fit_spec", "FusionFit.partial_fit_fresh", "FusionFit.fit_spec",
    "FusionFit.gen_partial_fit_modsRun", "FusionFit.gen_counts_equal", "FusionFit.gen_channel_states",
    "FusionFit.gen_W_concat", "FusionFit.gen_single_channel", "FusionFit.scalar_sys",
]

# ------------------------------------------------------------------------------------------------ types
# atoms "nat" "num" "onum" "bool" "mt" "M" "C" "P" "self" "unit"; ("list", t) ("opt", t) ("prod", [t…]) ("enum", t)
VEC = ("list", "num")
WLIST = ("list", VEC)
CACHE = ("list", "C")
OCACHE = ("opt", CACHE)
LNAT = ("list", "nat")
PAIR = ("prod", ["nat", "nat"])
ATOMS = {"nat": "Nat", "num": "α", "onum": "Option α", "bool": "Bool", "mt": "Art.MT", "M": "M", "C": "C", "P": "P",
         "self": f"{H}FSelf M", "unit": "Unit", "Op": "Bool"}


def atom(s: str) -> str:
    return f"({s})" if " " in s else s


def lty(t) -> str:
    if isinstance(t, str):
        return ATOMS[t]
    if t[0] == "list":
        return f"List {atom(lty(t[1]))}"
    if t[0] == "opt":
        return f"Option {atom(lty(t[1]))}"
    if t[0] == "prod":
        return " × ".join(atom(lty(x)) for x in t[1])
    if t[0] == "enum":
        return f"List {atom(lty(('prod', [t[1], 'nat'])))}"
    raise Unsupported(f"type {t}")


def islist(t):
    return isinstance(t, tuple) and t[0] == "list"


# attributes of the FusionART object -> (field of FSelf, type)
SELF_ATTRS = {"modules": ("modules", ("list", "M")), "n": ("n", "nat"), "_channel_indices": ("chIdx", ("list", PAIR)),
              "_weight_indices": ("wIdx", ("list", PAIR)), "sample_counter_": ("sample_counter", "nat"),
              "weight_sample_counter_": ("cnt", LNAT), "labels_": ("labels", LNAT)}
WRITE_ONLY = {"is_fitted_"}
# attribute stores into a nested estimator -> (field of FitOps, type of the stored value)
MOD_STORES = {"params": ("set_params", "P"), "W": ("set_W", WLIST), "weight_sample_counter_": ("set_cnt", LNAT),
              "sample_counter_": ("set_n", "nat")}
MOD_ATTRS = {"params": ("ops.params", "P")}
MOD_HASATTR = {"W": "hasW"}
GUARDS = {"validate_data", "check_dimensions"}
HOOKS = {"pre_step_fit", "post_step_fit", "post_fit"}
CALLBACK = "match_reset_func"
CALLBACK_SIG = ["i", "w", "cluster", "params", "cache"]          # what the library documents for reset functions
CALLBACK_TY = "List α → List α → Nat → Option (List C) → Bool"
IMPLICIT_DECL = {"ops": "(ops : ModOps M α P C Bool)", "fops": "(fops : FitOps M α P)", "gamma_values": "(gamma_values : List α)",
                 "dictEmpty": "(dictEmpty : C)", "dictSkip": "(dictSkip : C)"}
IMPLICIT_ORDER = ["ops", "fops", "gamma_values", "dictEmpty", "dictSkip"]
# where ftrans' implicit parameters live on the object
FTRANS_IMPLICIT = {"modules": "self.modules", "n": "self.n", "chIdx": "self.chIdx", "wIdx": "self.wIdx",
                   "gamma_values": "gamma_values", "dictEmpty": "dictEmpty", "dictSkip": "dictSkip"}
FTRANS_STATE = {"(List M)": ("modules", "modules__"), "(List (Nat × Nat))": ("wIdx", "wIdx__")}
# the methods ftrans translates, with the return annotation this translator relies on (None = procedure)
FTRANS_METHODS = {"category_choice": "Tuple[float, Optional[Dict]]", "match_criterion_bin": "Tuple[bool, Dict]",
                  "update": "np.ndarray", "new_weight": "np.ndarray", "_match_tracking": "bool", "add_weight": None,
                  "set_weight": None}
FTRANS_RET = {"category_choice": ("prod", ["onum", OCACHE]), "match_criterion_bin": ("prod", ["bool", CACHE]),
              "update": VEC, "new_weight": VEC, "_match_tracking": "bool", "add_weight": None, "set_weight": None}
FTRANS_PARAM_TY = {"op": "Op"}

LIT = "Literal['MT+', 'MT-', 'MT0', 'MT1', 'MT~']"
ND = "np.ndarray"
# what is translated here: name -> (class that must define it, kind, [(parameter, type, annotation)], value type, return annotation)
#   kind "proc": writes self, returns nothing / self;  "value": writes self and returns a value;  "pure": reads only
METHODS = {
    "_set_params": ("FusionART", "proc", [("new_params", ("list", "P"), "List[Dict]")], None, None),
    "_deep_copy_params": ("FusionART", "pure", [], ("list", "P"), "Dict"),
    "W": ("FusionART", "proc", [("new_W", WLIST, None)], None, None),
    "step_fit": ("BaseART", "value", [("x", VEC, ND), ("match_reset_func", "callback", "Optional[Callable]"),
                                      ("match_tracking", "mt", LIT), ("epsilon", "num", "float")], "nat", "int"),
    "partial_fit": ("FusionART", "proc", [("X", WLIST, ND), ("match_reset_func", "callback", "Optional[Callable]"),
                                          ("match_tracking", "mt", LIT), ("epsilon", "num", "float")], None, None),
    "fit": ("BaseART", "proc", [("X", WLIST, ND), ("y", None, "Optional[np.ndarray]"),
                                ("match_reset_func", "callback", "Optional[Callable]"), ("max_iter", "nat", None),
                                ("match_tracking", "mt", LIT), ("epsilon", "num", "float"), ("verbose", "bool", "bool")], None, None),
}
LEAN_NAME = {"_set_params": "set_params", "_deep_copy_params": "deep_copy_params", "W": "W_set", "step_fit": "step_fit",
             "partial_fit": "partial_fit", "fit": "fit"}
ORDER = ["_set_params", "_deep_copy_params", "W", "step_fit", "partial_fit", "fit"]


# ------------------------------------------------------------------------------------------------ source access

class Source:
    def __init__(self, repo: Path):
        self.trees = {"FusionART": ast.parse((Path(repo) / FUSION).read_text()), "BaseART": ast.parse((Path(repo) / BASE).read_text())}
        cls = self.cls("FusionART")
        bases = [src(b) for b in cls.bases]
        if bases != ["BaseART"] or cls.keywords:
            raise Unsupported(f"class FusionART has bases {bases}: the method resolution FusionART -> BaseART is not the one translated")

    def cls(self, name) -> ast.ClassDef:
        for n in self.trees[name].body:
            if isinstance(n, ast.ClassDef) and n.name == name:
                return n
        raise Unsupported(f"class {name} not found")

    def defs(self, cname, name):
        return [f for f in self.cls(cname).body if isinstance(f, ast.FunctionDef) and f.name == name]

    def resolve(self, name, setter=False):
        """(class, FunctionDef) of what `self.<name>` means on a FusionART"""
        for cname in ("FusionART", "BaseART"):
            fs = self.defs(cname, name)
            if not fs:
                continue
            for f in fs:
                decos = [src(d) for d in f.decorator_list]
                is_setter = any(d.endswith(".setter") for d in decos)
                if is_setter == setter:
                    return cname, f
            raise Unsupported(f"{cname}.{name}: no {'setter' if setter else 'getter / method'} among its definitions")
        raise Unsupported(f"neither FusionART nor BaseART defines {name}")

    def is_property(self, name) -> bool:
        _c, f = self.resolve(name)
        return "property" in [src(d) for d in f.decorator_list]

    def has_setter(self, name) -> bool:
        for cname in ("FusionART", "BaseART"):
            fs = self.defs(cname, name)
            if fs:
                return any(src(d).endswith(".setter") for f in fs for d in f.decorator_list)
        return False


def strip_doc(body):
    return [s for s in body if not (isinstance(s, ast.Expr) and isinstance(s.value, ast.Constant) and isinstance(s.value.value, str))]


def contains_return(stmts) -> bool:
    return any(isinstance(n, ast.Return) for s in stmts for n in ast.walk(s))


def always_returns(stmts) -> bool:
    if not stmts:
        return False
    last = stmts[-1]
    if isinstance(last, ast.Return):
        return True
    if isinstance(last, ast.If):
        return always_returns(last.body) and always_returns(last.orelse)
    return False


class Ctx:
    def __init__(self, S: Source, env):
        self.S, self.env = S, env
        self.vars: dict[str, object] = {}       # python local -> type ("self" is a local of type "self")
        self.order: list[str] = []              # locals in binding order (parameters of loop helpers)
        self.used: set[str] = set()             # implicit parameters of the generated definition (shared)
        self.log: list[str] | None = None       # names (re)bound, for the carried-variable analysis
        self.helpers: list[str] = []            # shared: top-level loop definitions
        self.loopn = [0]
        self.fn = ""
        self.kind = "proc"
        self.ret_ty = None
        self.in_while = False
        self.callback_params: set[str] = set()
        self.needs_fuel = [False]
        self.pending_loops: list = []           # shared: the loop helpers of the method being translated

    def copy(self):
        c = Ctx(self.S, self.env)
        c.vars, c.order, c.used, c.log, c.helpers, c.loopn = dict(self.vars), list(self.order), self.used, self.log, self.helpers, self.loopn
        c.fn, c.kind, c.ret_ty, c.in_while, c.callback_params, c.needs_fuel = self.fn, self.kind, self.ret_ty, self.in_while, self.callback_params, self.needs_fuel
        c.pending_loops = self.pending_loops
        return c

    def probe(self):
        """a scratch copy for the carried-variable analyses: what it binds is logged, what it emits is thrown away"""
        c = self.copy()
        c.log, c.helpers, c.loopn, c.pending_loops, c.needs_fuel = [], [], [0], [], [False]
        return c

    def bind(self, name, ty):
        if ty is None:
            raise Unsupported(f"no type for {name}")
        self.vars[name] = ty
        if name in self.order:
            self.order.remove(name)
        self.order.append(name)
        if self.log is not None and name not in self.log:
            self.log.append(name)
        return nm(name)

    def wrote_self(self):
        self.bind("self", "self")


# ------------------------------------------------------------------------------------------------ expressions

def coerce(text, t, want, what=""):
    if want is None or t == want:
        return text
    if want == ("opt", t):
        return f"(some {text})"
    if t == ("list", None) and islist(want):
        return f"([] : {lty(want)})"
    if t == "none" and isinstance(want, tuple) and want[0] == "opt":
        return "none"
    if t == "none" and want == "onum":
        return "none"
    raise Unsupported(f"type mismatch: {t} where {want} is needed ({text}) {what}")


def ex_want(e, cx: Ctx, want):
    """translate `e` at the wanted type (literals `None`, `np.nan`, `[]` and literal tuples take their type from it)"""
    if isinstance(e, ast.Tuple) and isinstance(want, tuple) and want[0] == "prod" and len(e.elts) == len(want[1]):
        return "(" + ", ".join(ex_want(x, cx, w) for x, w in zip(e.elts, want[1])) + ")"
    t_, ty = ex(e, cx)
    return coerce(t_, ty, want, src(e)[:60])


def pack(vs):
    return "()" if not vs else nm(vs[0]) if len(vs) == 1 else "(" + ", ".join(nm(v) for v in vs) + ")"


def ex(e: ast.AST, cx: Ctx):
    """expression -> (Lean text, type); the text is atomic and may contain nested actions `(← …)`"""
    if isinstance(e, ast.Name):
        if e.id in cx.callback_params:
            raise Unsupported(f"the callback {e.id} used as a value")
        if e.id == "self":
            raise Unsupported("`self` used as a value")
        if e.id not in cx.vars:
            raise Unsupported(f"unknown name {e.id}")
        return nm(e.id), cx.vars[e.id]
    if isinstance(e, ast.Constant):
        v = e.value
        if v is None:
            return "none", "none"
        if isinstance(v, bool):
            return ("true" if v else "false"), "bool"
        if isinstance(v, int) and v >= 0:
            return str(v), "nat"
        if isinstance(v, str) and v in MODE_CTOR:
            return "Art.MT" + MODE_CTOR[v], "mt"
        raise Unsupported(f"constant {v!r}")
    if isinstance(e, ast.Attribute) and src(e) == "np.nan":
        return "none", "onum"
    a = self_attr(e)
    if a is not None:
        if a in SELF_ATTRS:
            f, t = SELF_ATTRS[a]
            return f"self.{f}", t
        if a == "W" and cx.S.is_property("W") and cx.S.resolve("W")[0] == "FusionART":
            return call_ftrans("W", [], cx)
        raise Unsupported(f"self.{a}")
    if isinstance(e, ast.Attribute):
        if isinstance(e.value, ast.Attribute) and e.attr == "shape":
            raise Unsupported(".shape without [0]")
        bt, bty = ex(e.value, cx)
        if bty == "M" and e.attr in MOD_ATTRS:
            f, t = MOD_ATTRS[e.attr]
            cx.used.add("ops")
            return f"({f} {bt})", t
        raise Unsupported(f"attribute .{e.attr} of {bty}")
    if isinstance(e, ast.List):
        if not e.elts:
            return "[]", ("list", None)
        parts = [ex(x, cx) for x in e.elts]
        if len({repr(p[1]) for p in parts}) != 1:
            raise Unsupported(f"list display of mixed types {src(e)}")
        return "[" + ", ".join(p[0] for p in parts) + "]", ("list", parts[0][1])
    if isinstance(e, ast.Tuple):
        parts = [ex(x, cx) for x in e.elts]
        return "(" + ", ".join(p[0] for p in parts) + ")", ("prod", [p[1] for p in parts])
    if isinstance(e, ast.Subscript):
        return subscript(e, cx)
    if isinstance(e, ast.IfExp):
        c, ct = ex(e.test, cx)
        if ct != "bool":
            raise Unsupported("condition is not boolean")
        a_, at = ex(e.body, cx)
        b_ = ex_want(e.orelse, cx, at)
        return f"(← if {c} then (do pure {a_}) else (do pure {b_}))", at
    if isinstance(e, ast.BoolOp):
        parts = [ex(v, cx) for v in e.values]
        if any(t != "bool" for _, t in parts):
            raise Unsupported(f"and / or of non-booleans: {src(e)}")
        return "(" + (" && " if isinstance(e.op, ast.And) else " || ").join(p for p, _ in parts) + ")", "bool"
    if isinstance(e, ast.UnaryOp) and isinstance(e.op, ast.Not):
        o, ot = ex(e.operand, cx)
        if ot != "bool":
            raise Unsupported("not of a non-boolean")
        return f"(!{o})", "bool"
    if isinstance(e, ast.Compare) and len(e.ops) == 1:
        l, r, op = e.left, e.comparators[0], e.ops[0]
        if isinstance(op, (ast.Is, ast.IsNot)) and isinstance(r, ast.Constant) and r.value is None and isinstance(l, ast.Name) \
                and l.id in cx.callback_params:
            return (f"{l.id}_is_none" if isinstance(op, ast.Is) else f"(!{l.id}_is_none)"), "bool"
        lt_, lty_ = ex(l, cx)
        if isinstance(op, ast.In) and isinstance(r, ast.List):
            items = [ex(x, cx) for x in r.elts]
            if any(t != lty_ for _, t in items):
                raise Unsupported(f"membership test {src(e)}")
            return f"([{', '.join(p for p, _ in items)}].contains {lt_})", "bool"
        rt_, rty_ = ex(r, cx)
        if lty_ == rty_ == "nat":
            if isinstance(op, ast.Eq):
                return f"({lt_} == {rt_})", "bool"
            cmp = {ast.Lt: "<", ast.Gt: ">", ast.LtE: "≤", ast.GtE: "≥", ast.NotEq: "≠"}.get(type(op))
            if cmp:
                return f"(decide ({lt_} {cmp} {rt_}))", "bool"
        raise Unsupported(f"comparison {src(e)} on {lty_}, {rty_}")
    if isinstance(e, ast.BinOp) and isinstance(e.op, ast.Add):
        l, lt_ = ex(e.left, cx)
        r, rt_ = ex(e.right, cx)
        if lt_ == rt_ == "nat":
            return f"({l} + {r})", "nat"
        raise Unsupported(f"operator in {src(e)} on {lt_}, {rt_}")
    if isinstance(e, ast.ListComp):
        return comprehension(e.elt, e.generators, cx)
    if isinstance(e, ast.DictComp):
        g = e.generators[0] if len(e.generators) == 1 else None
        if (g is not None and isinstance(g.target, ast.Tuple) and len(g.target.elts) == 2 and isinstance(g.target.elts[0], ast.Name)
                and isinstance(e.key, ast.Name) and e.key.id == g.target.elts[0].id and isinstance(g.iter, ast.Call)
                and isinstance(g.iter.func, ast.Name) and g.iter.func.id == "enumerate"):
            return comprehension(e.value, e.generators, cx)          # a dict keyed by position = the list
        raise Unsupported(f"dict comprehension {src(e)}")
    if isinstance(e, ast.Call):
        return call(e, cx)
    raise Unsupported(f"expression {type(e).__name__}: {src(e)[:80]}")


def subscript(e: ast.Subscript, cx: Ctx):
    if isinstance(e.value, ast.Attribute) and e.value.attr == "shape" and self_attr(e.value) is None:
        b, bt = ex(e.value.value, cx)
        if islist(bt) and islist(bt[1]) and isinstance(e.slice, ast.Constant) and e.slice.value == 0:
            return f"{b}.length", "nat"
        raise Unsupported(f"{src(e)} (only .shape[0] of a 2-d array)")
    bt, bty = ex(e.value, cx)
    if isinstance(e.slice, ast.Slice):
        if e.slice.step is not None or e.slice.lower is None or e.slice.upper is None:
            raise Unsupported("slice without both bounds / with a step")
        lo, lot = ex(e.slice.lower, cx)
        hi, hit = ex(e.slice.upper, cx)
        if lot != "nat" or hit != "nat" or not islist(bty):
            raise Unsupported(f"slice of {bty} by {lot}:{hit}")
        return f"(Art.Imp.pySlice {bt} {lo} {hi})", bty
    if isinstance(bty, tuple) and bty[0] == "prod":
        if isinstance(e.slice, ast.Constant) and e.slice.value in (0, 1) and len(bty[1]) == 2:
            return f"{bt}.{e.slice.value + 1}", bty[1][e.slice.value]
        raise Unsupported("tuple index")
    if islist(bty):
        it, ity = ex(e.slice, cx)
        if ity != "nat":
            raise Unsupported(f"list index of type {ity}")
        return f"(← {bt}[{it}]?)", bty[1]
    raise Unsupported(f"subscript of {bty}: {src(e)}")


def iter_pattern(target, it_expr, cx: Ctx, inner: Ctx):
    """the iterable and the binder pattern of `for target in it_expr` / a comprehension generator"""
    if isinstance(it_expr, ast.Call) and isinstance(it_expr.func, ast.Name) and it_expr.func.id == "enumerate" \
            and len(it_expr.args) == 1 and not it_expr.keywords:
        it, ity = ex(it_expr.args[0], cx)
        if not islist(ity):
            raise Unsupported("enumerate of a non-list")
        it, ity = f"({it}).zipIdx", ("enum", ity[1])
    else:
        it, ity = ex(it_expr, cx)
    if isinstance(ity, tuple) and ity[0] == "enum":
        if not (isinstance(target, ast.Tuple) and len(target.elts) == 2 and all(isinstance(x, ast.Name) for x in target.elts)):
            raise Unsupported("an enumeration needs two loop variables")
        i_, v_ = target.elts
        inner.bind(i_.id, "nat")
        inner.bind(v_.id, ity[1])
        return it, f"({nm(v_.id)}, {nm(i_.id)})"           # List.zipIdx yields (value, index)
    if not islist(ity) or not isinstance(target, ast.Name):
        raise Unsupported("iteration over a non-list / with a pattern target")
    name = "it_" if target.id == "_" else target.id
    inner.bind(name, ity[1])
    return f"({it})", nm(name)


def comprehension(elt, generators, cx: Ctx):
    if len(generators) != 1 or generators[0].ifs or generators[0].is_async:
        raise Unsupported("comprehension with several generators or a filter")
    inner = cx.copy()
    inner.log = None
    it, pat = iter_pattern(generators[0].target, generators[0].iter, cx, inner)
    b, bt = ex(elt, inner)
    return f"(← {it}.mapM (fun {pat} => do pure {b}))", ("list", bt)


def bind_args(e: ast.Call, f: ast.FunctionDef, skip_self: bool, what: str):
    """positional / keyword / default arguments of a call, by the callee's own signature -> {parameter: AST}"""
    a = f.args
    if a.vararg or a.kwarg or a.kwonlyargs or a.posonlyargs:
        raise Unsupported(f"{what}: signature")
    names = [x.arg for x in a.args][1 if skip_self else 0:]
    if len(e.args) > len(names):
        raise Unsupported(f"too many arguments for {what}")
    given = dict(zip(names, e.args))
    for kw in e.keywords:
        if kw.arg is None or kw.arg in given or kw.arg not in names:
            raise Unsupported(f"keyword argument {kw.arg} of {what}")
        given[kw.arg] = kw.value
    ds = a.defaults
    for x, d in zip(a.args[len(a.args) - len(ds):], ds):
        given.setdefault(x.arg, d)
    missing = [n_ for n_ in names if n_ not in given]
    if missing:
        raise Unsupported(f"{what}: arguments {missing} are missing")
    return names, given


def ftrans_info(S: Source, name: str):
    """(Lean name, implicit parameters, written state) of the definition ftrans generates for `name`, read off its text"""
    tree = S.trees["FusionART"]
    text = ftrans.translate_method(tree, name)
    m = re.search(r"^def (\w+) (.*?) :\n    Option \((.*)\) := do\n", text, re.M | re.S)
    if not m:
        raise Unsupported(f"ftrans' rendering of {name} has no recognisable signature")
    names = re.findall(r"\((\w+) : ", m.group(2))
    explicit = [nm(p) for p, t in ftrans.METHODS[name][0] if t is not None]
    implicit = names[:len(names) - len(explicit)] if explicit else names
    if names[len(implicit):] != explicit or any(p != "ops" and p not in FTRANS_IMPLICIT for p in implicit):
        raise Unsupported(f"ftrans' signature of {name} is {names}, expected … {explicit}")
    written = []
    for p in split_top(m.group(3)):              # the state a definition writes comes back first
        if p not in FTRANS_STATE:
            break
        written.append(FTRANS_STATE[p])
    return m.group(1), implicit, written


def split_top(t: str) -> list[str]:
    """the factors of a product type, split at the top-level `×`"""
    parts, depth, cur = [], 0, ""
    i = 0
    while i < len(t):
        ch = t[i]
        depth += ch == "("
        depth -= ch == ")"
        if depth == 0 and t.startswith(" × ", i):
            parts.append(cur)
            cur, i = "", i + 3
            continue
        cur += ch
        i += 1
    return parts + [cur]


def call_ftrans(name: str, args: list[str], cx: Ctx):
    """a call of a definition generated by ftrans that writes no state (expression position)"""
    lname, implicit, written = ftrans_info(cx.S, name)
    if written:
        raise Unsupported(f"self.{name} writes {[w for w, _ in written]} and is used inside an expression")
    return "(← " + " ".join([G + lname] + implicit_args(implicit, cx) + args) + ")", (WLIST if name == "W" else FTRANS_RET[name])


def implicit_args(implicit, cx: Ctx):
    out = []
    for p in implicit:
        if p == "ops":
            cx.used.add("ops")
            out.append("ops")
        elif p in FTRANS_IMPLICIT:
            if not FTRANS_IMPLICIT[p].startswith("self."):
                cx.used.add(p)
            out.append(FTRANS_IMPLICIT[p])
        else:
            raise Unsupported(f"implicit parameter {p} of an ftrans definition")
    return out


def ftrans_call_parts(name: str, e: ast.Call, cx: Ctx):
    """-> (call text without the arrow, written state, value type) for `self.<name>(…)`, name translated by ftrans"""
    cname, f = cx.S.resolve(name)
    if cname != "FusionART":
        raise Unsupported(f"{name} resolves to {cname}: ftrans translates FusionART's")
    have = src(f.returns) if f.returns is not None else None
    if have != FTRANS_METHODS[name]:
        raise Unsupported(f"FusionART.{name} is annotated -> {have}, the translator knows {FTRANS_METHODS[name]}")
    names, given = bind_args(e, f, True, name)
    params = ftrans.METHODS[name][0]
    if [p for p, _ in params] != names:
        raise Unsupported(f"FusionART.{name} has parameters {names}, ftrans knows {[p for p, _ in params]}")
    args = []
    for p, t in params:
        if t is None:
            if src(given[p]) != "self.params":
                raise Unsupported(f"argument {p}={src(given[p])} of {name} (only self.params is dropped)")
            continue
        want = conv_ftype(t)
        args.append(ex_want(given[p], cx, want))
    lname, implicit, written = ftrans_info(cx.S, name)
    text = " ".join([G + lname] + implicit_args(implicit, cx) + args)
    rty = FTRANS_RET[name]
    if name == "category_choice":
        text_wrap = lambda t_: f"({H}someSnd {t_})"            # noqa: E731
    else:
        text_wrap = None
    return text, written, rty, text_wrap


def conv_ftype(t):
    """a type of ftrans' table in this module's vocabulary"""
    if isinstance(t, str):
        return {"MT": "mt", "Op": "bool"}.get(t, t)
    return (t[0], [conv_ftype(x) for x in t[1]]) if t[0] == "prod" else (t[0], conv_ftype(t[1]))


def own_call(name: str, e: ast.Call, cx: Ctx):
    """-> (call text without the arrow, kind, value type) for `self.<name>(…)`, name translated here"""
    want_cls, kind, params, vty, _ann = METHODS[name]
    cname, f = cx.S.resolve(name)
    if cname != want_cls:
        raise Unsupported(f"{name} resolves to {cname}.{name}; the translator translates {want_cls}.{name}")
    if name not in cx.env:
        raise Unsupported(f"{name} is used before it is translated")
    names, given = bind_args(e, f, True, name)
    if names != [p for p, _t, _a in params]:
        raise Unsupported(f"{cname}.{name} has parameters {names}")
    args = []
    for p, t, _a in params:
        if t is None:
            continue
        if t == "callback":
            g = given[p]
            if isinstance(g, ast.Name) and g.id in cx.callback_params:
                args += [f"{g.id}_is_none", g.id]
            elif isinstance(g, ast.Constant) and g.value is None:
                args += ["true", "(fun _ _ _ _ => true)"]
            else:
                raise Unsupported(f"{name}: the callback must be passed through")
            continue
        args.append(ex_want(given[p], cx, t))
    implicit, fuel = cx.env[name]
    cx.used.update(implicit)
    fuel_arg = []
    if fuel:
        w_, _ = call_ftrans("W", [], cx)
        fuel_arg = [f"{w_}.length"]
    return " ".join([LEAN_NAME[name]] + implicit + fuel_arg + ["self"] + args), kind, vty


def call(e: ast.Call, cx: Ctx):
    f = e.func
    s_ = src(e)
    if isinstance(f, ast.Name):
        fn = f.id
        if fn in cx.callback_params:
            names = CALLBACK_SIG
            if len(e.args) > len(names):
                raise Unsupported(f"{fn}: too many arguments")
            given = dict(zip(names, e.args))
            for kw in e.keywords:
                if kw.arg not in names or kw.arg in given:
                    raise Unsupported(f"{fn}: keyword {kw.arg}")
                given[kw.arg] = kw.value
            if set(given) != set(names):
                raise Unsupported(f"{fn}: arguments {sorted(given)} instead of {names}")
            if src(given["params"]) != "self.params":
                raise Unsupported(f"{fn}: params={src(given['params'])}")
            parts = [ex_want(given["i"], cx, VEC), ex_want(given["w"], cx, VEC), ex_want(given["cluster"], cx, "nat"),
                     ex_want(given["cache"], cx, OCACHE)]
            return "(" + " ".join([fn] + parts) + ")", "bool"
        if e.keywords and fn != "tqdm":
            raise Unsupported(f"keyword arguments in {s_[:80]}")
        if fn == "range" and len(e.args) == 1:
            a, t = ex(e.args[0], cx)
            if t != "nat":
                raise Unsupported("range of a non-integer")
            return f"(List.range {a})", LNAT
        if fn == "enumerate" and len(e.args) == 1:
            a, t = ex(e.args[0], cx)
            if not islist(t):
                raise Unsupported("enumerate of a non-list")
            return f"({a}).zipIdx", ("enum", t[1])
        if fn == "len" and len(e.args) == 1:
            a, t = ex(e.args[0], cx)
            if not islist(t):
                raise Unsupported("len of a non-list")
            return f"{a}.length", "nat"
        if fn in ("int", "deepcopy") and len(e.args) == 1:
            if fn == "int" and isinstance(e.args[0], ast.Call) and src(e.args[0].func) == "np.nanargmax" and len(e.args[0].args) == 1:
                a, t = ex(e.args[0].args[0], cx)
                if t != ("list", "onum"):
                    raise Unsupported("np.nanargmax of something that is not an activation vector")
                return f"(← Art.nanargmax {a})", "nat"
            a, t = ex(e.args[0], cx)
            if fn == "int" and t != "nat":
                raise Unsupported(f"int() of {t}")
            return a, t
        if fn == "tqdm" and len(e.args) == 1 and [k.arg for k in e.keywords] in ([], ["total"]):
            return ex(e.args[0], cx)
        if fn == "any" and len(e.args) == 1 and isinstance(e.args[0], ast.UnaryOp) and isinstance(e.args[0].operand, ast.Call) \
                and src(e.args[0].operand.func) == "np.isnan" and isinstance(e.args[0].op, ast.Invert) and len(e.args[0].operand.args) == 1:
            a, t = ex(e.args[0].operand.args[0], cx)
            if t != ("list", "onum"):
                raise Unsupported("np.isnan of something that is not an activation vector")
            return f"({a}.any Option.isSome)", "bool"
        if fn == "hasattr" and len(e.args) == 2 and isinstance(e.args[1], ast.Constant) and e.args[1].value in MOD_HASATTR:
            a, t = ex(e.args[0], cx)
            if t != "M":
                raise Unsupported(f"hasattr of {t}")
            cx.used.add("fops")
            return f"(fops.{MOD_HASATTR[e.args[1].value]} {a})", "bool"
        raise Unsupported(f"function {fn}")
    fs = src(f)
    if fs == "np.array" and len(e.args) == 1 and not e.keywords:
        return ex(e.args[0], cx)
    if fs == "np.zeros" and len(e.args) == 1 and isinstance(e.args[0], ast.Tuple) and len(e.args[0].elts) == 1 \
            and [src(k) for k in e.keywords] == ["dtype=int"]:
        a, t = ex(e.args[0].elts[0], cx)
        if t != "nat":
            raise Unsupported("np.zeros length")
        return f"(List.replicate {a} 0)", LNAT
    if fs == "np.pad" and len(e.args) == 2 and [src(k) for k in e.keywords] == ["mode='constant'"] \
            and isinstance(e.args[1], ast.List) and len(e.args[1].elts) == 1 and isinstance(e.args[1].elts[0], ast.Tuple) \
            and len(e.args[1].elts[0].elts) == 2 and src(e.args[1].elts[0].elts[0]) == "0":
        a, t = ex(e.args[0], cx)
        n_, nt = ex(e.args[1].elts[0].elts[1], cx)
        if t != LNAT or nt != "nat":
            raise Unsupported("np.pad of something that is not a label vector")
        return f"({a} ++ List.replicate {n_} 0)", LNAT
    if isinstance(f, ast.Attribute) and isinstance(f.value, ast.Name) and f.value.id == "self":
        m = f.attr
        if m == "_match_tracking_operator":
            cname, fd = cx.S.resolve(m)
            if cname != "BaseART":
                raise Unsupported(f"{m} resolves to {cname}")
            names, given = bind_args(e, fd, False, m)
            if names != ["method"]:
                raise Unsupported(f"{m} has parameters {names}")
            return f"(match_tracking_operator {ex_want(given['method'], cx, 'mt')})", "bool"
        if m in FTRANS_METHODS:
            text, written, rty, wrap = ftrans_call_parts(m, e, cx)
            if written or rty is None:
                raise Unsupported(f"self.{m} writes state / returns nothing and is used inside an expression")
            t_ = f"(← {text})"
            return (wrap(t_) if wrap else t_), rty
        if m in METHODS and m != "W":
            text, kind, vty = own_call(m, e, cx)
            if kind != "pure":
                raise Unsupported(f"self.{m} writes self and is used inside an expression")
            return f"(← {text})", vty
        raise Unsupported(f"call of self.{m} inside an expression")
    raise Unsupported(f"call {s_[:80]}")


# ------------------------------------------------------------------------------------------------ statements

class K:
    """what a block does at its end: `fall(cx, indent)` = the lines when it falls through; `ret(text)` = the line for `return`"""

    def __init__(self, fall, ret):
        self.fall, self.ret = fall, ret


def store_written(written, cx: Ctx, I):
    out = []
    for fld, var in written:
        out.append(I + f"let self := {{ self with {fld} := {var} }}")
        cx.wrote_self()
    return out


def stmt_self_call(m: str, e: ast.Call, target, cx: Ctx, I) -> list[str]:
    """`[target =] self.m(args)` as a statement"""
    if m in GUARDS:
        if target is not None:
            raise Unsupported(f"result of the guard {m} is used")
        return []
    if m in HOOKS:
        cname, fd = cx.S.resolve(m)
        if target is not None or not all(isinstance(b, ast.Pass) for b in strip_doc(fd.body)):
            raise Unsupported(f"the hook {cname}.{m} does something")
        return []
    if m in FTRANS_METHODS:
        text, written, rty, wrap = ftrans_call_parts(m, e, cx)
        if (target is None) != (rty is None):
            raise Unsupported(f"self.{m}: result {'ignored' if target is None else 'used'}")
        if rty is None:
            if [w for w, _ in written] != ["modules"]:
                raise Unsupported(f"self.{m} writes {written}")
            cx.wrote_self()
            return [I + f"let self := {{ self with modules := (← {text}) }}"]
        if not isinstance(target, ast.Name):
            raise Unsupported(f"self.{m}: result target")
        if not written:
            t_ = f"(← {text})"
            v = cx.bind(target.id, rty)
            return [I + f"let {v} := {wrap(t_) if wrap else t_}"]
        if wrap:
            raise Unsupported(f"self.{m}: wrapped result of a state-writing call")
        v = cx.bind(target.id, rty)
        return [I + f"let ({', '.join([var for _, var in written] + [v])}) ← {text}"] + store_written(written, cx, I)
    if m in METHODS and m != "W":
        text, kind, vty = own_call(m, e, cx)
        if kind == "pure":
            if not isinstance(target, ast.Name):
                raise Unsupported(f"self.{m}: result target")
            v = cx.bind(target.id, vty)
            return [I + f"let {v} := (← {text})"]
        if kind == "proc":
            if target is not None:
                raise Unsupported(f"self.{m} returns nothing")
            cx.wrote_self()
            return [I + f"let self ← {text}"]
        if not isinstance(target, ast.Name):
            raise Unsupported(f"self.{m}: result target")
        cx.wrote_self()
        v = cx.bind(target.id, vty)
        return [I + f"let (self, {v}) ← {text}"]
    raise Unsupported(f"call of self.{m}")


def self_method_call(e):
    if isinstance(e, ast.Call) and isinstance(e.func, ast.Attribute) and isinstance(e.func.value, ast.Name) and e.func.value.id == "self":
        return e.func.attr
    return None


def stateful(e, cx: Ctx) -> bool:
    """is `e` a `self.m(…)` that must be a statement of its own (it writes state)?"""
    m = self_method_call(e)
    if m is None:
        return False
    if m in GUARDS or m in HOOKS:
        return True
    if m in FTRANS_METHODS:
        return bool(ftrans_info(cx.S, m)[2]) or FTRANS_RET[m] is None
    if m in METHODS and m != "W":
        return METHODS[m][1] != "pure"
    return False


def block(stmts, cx: Ctx, k: K, I="  ") -> list[str]:
    stmts = strip_doc(stmts)
    out: list[str] = []
    for idx, s in enumerate(stmts):
        rest = stmts[idx + 1:]
        if isinstance(s, (ast.Pass, ast.ImportFrom)):
            if isinstance(s, ast.ImportFrom) and not (s.module == "tqdm" and [a.name for a in s.names] == ["tqdm"]):
                raise Unsupported(f"import {src(s)}")
            continue
        if isinstance(s, ast.AnnAssign) and s.value is not None:
            s = ast.Assign(targets=[s.target], value=s.value)
        if isinstance(s, ast.Return):
            if rest:
                raise Unsupported("code after return")
            out += ret_lines(s, cx, k, I)
            return out
        if isinstance(s, ast.Expr) and isinstance(s.value, ast.Call) and self_method_call(s.value):
            out += stmt_self_call(self_method_call(s.value), s.value, None, cx, I)
            continue
        if isinstance(s, ast.AugAssign):
            a = self_attr(s.target)
            if not (isinstance(s.op, ast.Add) and a in SELF_ATTRS and SELF_ATTRS[a][1] == "nat"):
                raise Unsupported(f"augmented assignment {src(s)}")
            r, rt = ex(s.value, cx)
            if rt != "nat":
                raise Unsupported(f"augmented assignment of {rt}")
            out.append(I + f"let self := {{ self with {SELF_ATTRS[a][0]} := (self.{SELF_ATTRS[a][0]} + {r}) }}")
            cx.wrote_self()
            continue
        if isinstance(s, ast.Assign) and len(s.targets) == 1:
            out += assign(s.targets[0], s.value, cx, I)
            continue
        if isinstance(s, ast.If):
            c, ct = ex(s.test, cx)
            if ct != "bool":
                raise Unsupported("condition is not boolean")
            if contains_return([s]):
                c1, c2 = cx.copy(), cx.copy()
                b1 = block(s.body if always_returns(s.body) else s.body + rest, c1, k, I + "    ")
                b2 = block(s.orelse if always_returns(s.orelse) else s.orelse + rest, c2, k, I + "    ")
                out.append(I + f"if {c} then (do")
                out += b1
                out[-1] += ")"
                out.append(I + "  else (do")
                out += b2
                out[-1] += ")"
                return out
            vs = joined_vars([s.body, s.orelse], cx)
            if not vs:
                raise Unsupported("an if statement that changes nothing")
            c1, c2 = cx.copy(), cx.copy()
            fall = K(lambda c_, I_: [I_ + f"pure {pack(vs)}"], None)
            b1 = block(s.body, c1, fall, I + "    ")
            b2 = block(s.orelse, c2, fall, I + "    ")
            for v in vs:
                if c1.vars.get(v) != c2.vars.get(v):
                    raise Unsupported(f"{v} has type {c1.vars.get(v)} in one branch and {c2.vars.get(v)} in the other")
                cx.bind(v, c1.vars[v])
            out.append(I + f"let {pack(vs)} ← if {c} then (do")
            out += b1
            out[-1] += ")"
            out.append(I + "  else (do")
            out += b2
            out[-1] += ")"
            continue
        if isinstance(s, ast.For):
            if s.orelse or contains_return(s.body) or any(isinstance(n, (ast.Break, ast.Continue)) for b in s.body for n in ast.walk(b)):
                raise Unsupported("for/else, or return / break / continue inside a for loop")
            probe = cx.probe()
            iter_pattern(s.target, s.iter, cx.copy(), probe)
            before = set(cx.vars)
            probe.log = []
            block(s.body, probe, K(lambda c_, I_: [], None), I)
            vs = [v for v in probe.log if v in before]
            if not vs:
                raise Unsupported("a for loop that changes nothing")
            inner = cx.copy()
            it, pat = iter_pattern(s.target, s.iter, cx, inner)
            inner.log = None
            body = block(s.body, inner, K(lambda c_, I_: [I_ + f"pure {pack(vs)}"], None), I + "    ")
            for v in vs:
                if inner.vars[v] != cx.vars[v]:
                    raise Unsupported(f"{v} changes its type inside the loop")
                cx.bind(v, cx.vars[v])
            out.append(I + f"let {pack(vs)} ← {it}.foldlM (fun {pack(vs)} {pat} => do")
            out += body
            out[-1] += f") {pack(vs)}"
            continue
        if isinstance(s, ast.While):
            if s.orelse:
                raise Unsupported("while/else")
            out += while_loop(s, rest, cx, k, I)
            return out
        raise Unsupported(f"statement {type(s).__name__}: {src(s)[:80]}")
    if k.fall is None:
        raise Unsupported(f"{cx.fn}: a path ends without return")
    return out + k.fall(cx, I)


def joined_vars(branches, cx: Ctx) -> list[str]:
    """variables an if statement exports: re-bound in a branch and known before, or bound in every branch"""
    before = set(cx.vars)
    logs = []
    for b in branches:
        p = cx.probe()
        block(b, p, K(lambda c_, I_: [], None), "")
        logs.append(p.log)
    allv = [v for lg in logs for v in lg]
    return list(dict.fromkeys(v for v in allv if v in before or all(v in lg for lg in logs)))


def ret_lines(s: ast.Return, cx: Ctx, k: K, I):
    if k.ret is None:
        raise Unsupported("return where the translation does not allow one")
    if s.value is None or (isinstance(s.value, ast.Name) and s.value.id == "self"):
        if cx.kind != "proc":
            raise Unsupported(f"{cx.fn}: bare return / return self in a method that returns a value")
        return [I + k.ret("self")]
    v = ex_want(s.value, cx, cx.ret_ty)
    if cx.kind == "pure":
        return [I + k.ret(v)]
    if cx.kind != "value":
        raise Unsupported(f"{cx.fn} returns a value")
    return [I + k.ret(f"(self, {v})")]


def assign(t, value, cx: Ctx, I) -> list[str]:
    # a, b = zip(*[ … ])
    if (isinstance(t, ast.Tuple) and isinstance(value, ast.Call) and isinstance(value.func, ast.Name) and value.func.id == "zip"
            and len(value.args) == 1 and isinstance(value.args[0], ast.Starred) and all(isinstance(x, ast.Name) for x in t.elts)):
        r, rt = ex(value.args[0].value, cx)
        if not (islist(rt) and isinstance(rt[1], tuple) and rt[1][0] == "prod" and len(rt[1][1]) == len(t.elts)):
            raise Unsupported("zip(*…) of a list that does not hold tuples of the unpacked arity")
        if not (r.startswith("(← ") and r.endswith(")")):
            raise Unsupported("zip(*…) of something that is not a comprehension")
        out = [I + f"let zipped__ ← {r[3:-1]}"]
        for j, x in enumerate(t.elts):
            out.append(I + f"let {cx.bind(x.id, ('list', rt[1][1][j]))} := zipped__.map (·.{j + 1})")
        return out
    m = self_method_call(value)
    if m is not None and stateful(value, cx):
        return stmt_self_call(m, value, t, cx, I)
    if isinstance(t, ast.Name):
        if t.id == "self" or t.id in cx.callback_params:
            raise Unsupported(f"assignment to {t.id}")
        r, rt = ex(value, cx)
        if rt in ("none", ("list", None)):
            raise Unsupported(f"the type of {t.id} = {src(value)} is not determined")
        return [I + f"let {cx.bind(t.id, rt)} := {r}"]
    if isinstance(t, ast.Tuple) and all(isinstance(x, ast.Name) for x in t.elts):
        r, rt = ex(value, cx)
        if not (isinstance(rt, tuple) and rt[0] == "prod" and len(rt[1]) == len(t.elts)):
            raise Unsupported(f"tuple assignment from {rt}")
        vs = [cx.bind(x.id, ty) for x, ty in zip(t.elts, rt[1])]
        return [I + f"let ({', '.join(vs)}) := {r}"]
    a = self_attr(t)
    if a is not None:
        if a in WRITE_ONLY:
            if not isinstance(value, ast.Constant):
                raise Unsupported(f"self.{a} = {src(value)}")
            return []
        if a == "W":
            if not cx.S.has_setter("W"):
                raise Unsupported("self.W = … but W has no setter")
            cname, _f = cx.S.resolve("W", setter=True)
            if cname != "FusionART" or "W" not in cx.env:
                raise Unsupported("the W setter is not translated")
            implicit, _fuel = cx.env["W"]
            cx.used.update(implicit)
            cx.wrote_self()
            return [I + f"let self ← {' '.join(['W_set'] + implicit + ['self', ex_want(value, cx, WLIST)])}"]
        if a in SELF_ATTRS and a not in ("modules", "n", "_channel_indices"):
            fld, ty = SELF_ATTRS[a]
            r = ex_want(value, cx, ty)
            cx.wrote_self()
            return [I + f"let self := {{ self with {fld} := {r} }}"]
        raise Unsupported(f"assignment to self.{a}")
    # self.modules[k].attr = E
    if isinstance(t, ast.Attribute) and isinstance(t.value, ast.Subscript) and self_attr(t.value.value) == "modules" and t.attr in MOD_STORES:
        fld, ty = MOD_STORES[t.attr]
        kx, kt = ex(t.value.slice, cx)
        if kt != "nat":
            raise Unsupported("module index")
        r = ex_want(value, cx, ty)
        cx.used.add("fops")
        cx.wrote_self()
        return [I + f"let self := {{ self with modules := self.modules.set {kx} (fops.{fld} (← self.modules[{kx}]?) {r}) }}"]
    if isinstance(t, ast.Subscript):
        base = t.value
        if isinstance(t.slice, ast.Slice):
            if t.slice.lower or t.slice.upper or t.slice.step or not isinstance(base, ast.Name):
                raise Unsupported("partial slice store")
            bt, bty = ex(base, cx)
            if not islist(bty):
                raise Unsupported("slice store into a non-list")
            r = ex_want(value, cx, bty[1])
            return [I + f"let {cx.bind(base.id, bty)} := {bt}.map (fun _ => {r})"]
        i_, it_ = ex(t.slice, cx)
        if it_ != "nat":
            raise Unsupported("store index")
        if isinstance(base, ast.Name):
            bt, bty = ex(base, cx)
            if not islist(bty):
                raise Unsupported("item store into a non-list")
            r = ex_want(value, cx, bty[1])
            return [I + f"let {cx.bind(base.id, bty)} := (← {H}pySetItem {bt} {i_} {r})"]
        a = self_attr(base)
        if a in SELF_ATTRS and islist(SELF_ATTRS[a][1]) and a not in ("modules", "_channel_indices", "_weight_indices"):
            fld, ty = SELF_ATTRS[a]
            r = ex_want(value, cx, ty[1])
            cx.wrote_self()
            return [I + f"let self := {{ self with {fld} := (← {H}pySetItem self.{fld} {i_} {r}) }}"]
    raise Unsupported(f"assignment target {src(t)}")


def decl(name, ty, cx: Ctx) -> str:
    if ty == "callback":
        return f"({name}_is_none : Bool) ({name} : {CALLBACK_TY})"
    return f"({nm(name)} : {lty(ty)})"


def while_loop(s: ast.While, rest, cx: Ctx, k: K, I) -> list[str]:
    before = set(cx.vars)
    probe = cx.probe()
    probe.in_while = True
    block(s.body, probe, K(lambda c_, I_: [], lambda t_: ""), I)
    vs = [v for v in probe.log if v in before]
    if not vs:
        raise Unsupported("a while loop that changes nothing")
    vs = (["self"] if "self" in vs else []) + [v for v in vs if v != "self"]
    state_ty = lty(("prod", [cx.vars[v] for v in vs])) if len(vs) > 1 else lty(cx.vars[vs[0]])
    cond, ct = ex(s.test, cx.copy())
    if ct != "bool" or "←" in cond:
        raise Unsupported("while condition")
    inner = cx.copy()
    inner.log, inner.in_while = None, True
    ret_ty = result_type(cx)
    body = block(s.body, inner, K(lambda c_, I_: [I_ + f"pure (.next {pack(vs)})"], lambda t_: f"pure (.ret {t_})"), "    ")
    for v in vs:
        if inner.vars[v] != cx.vars[v]:
            raise Unsupported(f"{v} changes its type inside the loop")
    cx.loopn[0] += 1
    n_ = cx.loopn[0]
    cname, bname = f"{LEAN_NAME[cx.fn]}_loop{n_}_cond", f"{LEAN_NAME[cx.fn]}_loop{n_}_body"
    free = [v for v in cx.order if v not in vs]
    params = []
    for v in free:
        params.append(decl(v, "callback" if v in cx.callback_params else cx.vars[v], cx))
    cx.pending_loops.append((cname, bname, n_, src(s.test), state_ty, ret_ty, pack(vs), cond, body, params))
    fargs = []
    for v in free:
        fargs += [f"{v}_is_none", v] if v in cx.callback_params else [nm(v)]
    cx.needs_fuel[0] = True
    for v in vs:
        cx.bind(v, cx.vars[v])
    after = block(rest, cx, k, I + "    ")
    imp = "{IMPLICIT}"
    return ([I + f"match (← {H}whileM ({cname} {imp} {' '.join(fargs)}) ({bname} {imp} {' '.join(fargs)}) fuel {pack(vs)}) with",
             I + f"| .ret r_ => {k.ret('r_')}", I + f"| .next {pack(vs)} => (do"] + after[:-1] + [after[-1] + ")"])


def result_type(cx: Ctx) -> str:
    if cx.kind == "value":
        return f"{lty('self')} × {lty(cx.ret_ty)}"
    if cx.kind == "proc":
        return lty("self")
    return lty(cx.ret_ty)


# ------------------------------------------------------------------------------------------------ methods

def check_signature(f: ast.FunctionDef, cname: str, name: str, params, rann):
    a = f.args
    if a.vararg or a.kwarg or a.kwonlyargs or a.posonlyargs:
        raise Unsupported(f"{cname}.{name}: signature")
    got = [x.arg for x in a.args[1:]]
    if got != [p for p, _t, _a in params]:
        raise Unsupported(f"{cname}.{name} has parameters {got}, the translator knows {[p for p, _t, _a in params]}")
    for x, (p, _t, ann) in zip(a.args[1:], params):
        have = src(x.annotation) if x.annotation is not None else None
        if have != ann:
            raise Unsupported(f"{cname}.{name}: parameter {p} is annotated {have}, the translator knows {ann}")
    have = src(f.returns) if f.returns is not None else None
    if have != rann:
        raise Unsupported(f"{cname}.{name} returns {have}, the translator knows {rann}")


def translate_method(S: Source, name: str, env) -> str:
    want_cls, kind, params, vty, rann = METHODS[name]
    cname, f = S.resolve(name, setter=(name == "W"))
    if cname != want_cls:
        raise Unsupported(f"{name} resolves to {cname}.{name}; the translator translates {want_cls}.{name} "
                          f"({'FusionART overrides an inherited training method' if cname == 'FusionART' else 'FusionART no longer defines it'})")
    check_signature(f, cname, name, params, rann)
    cx = Ctx(S, env)
    cx.fn, cx.kind, cx.ret_ty = name, kind, vty
    cx.bind("self", "self")
    for p, t, _a in params:
        if t is None:
            continue
        if t == "callback":
            cx.callback_params.add(p)
            cx.order.append(p)
        else:
            cx.bind(p, t)

    def fall(c_, I_):
        if kind != "proc":
            raise Unsupported(f"{name}: a path ends without return")
        return [I_ + "pure self"]
    body = block(list(f.body), cx, K(fall, lambda t_: f"pure {t_}"), "  ")
    used = [p for p in IMPLICIT_ORDER if p in cx.used]
    imp = " ".join(used)
    env[name] = (used, cx.needs_fuel[0])
    idecl = " ".join(IMPLICIT_DECL[p] for p in used)
    pdecl = " ".join(decl(p, t, cx) for p, t, _a in params if t is not None)
    chunks = []
    for (cn, bn, n_, test, state_ty, ret_ty, pat, cond, lbody, lparams) in cx.pending_loops:
        chunks.append("\n".join(
            [f"/-- loop {n_} of `{cname}.{name}` (as executed on a FusionART): the `while` condition `{test}` -/",
             f"def {cn} " + " ".join(x for x in [idecl] + lparams if x) + " :",
             f"    {state_ty} → Bool :=",
             f"  fun {pat} => {cond}"]) + "\n")
        chunks.append("\n".join(
            [f"/-- loop {n_} of `{cname}.{name}` (as executed on a FusionART): one iteration of the body -/",
             f"def {bn} " + " ".join(x for x in [idecl] + lparams if x) + " :",
             f"    {state_ty} → Option (Art.Imp.Flow ({ret_ty}) ({state_ty})) :=",
             f"  fun {pat} => do"] + [ln.replace("{IMPLICIT}", imp) for ln in lbody]) + "\n")
    what = f"`{cname}.{name}`" + (" (setter)" if name == "W" else "") + ("" if cname == "FusionART" else " as executed on a FusionART")
    head = [f"/-- {what} -/",
            f"def {LEAN_NAME[name]} " + " ".join(x for x in [idecl, "(fuel : Nat)" if cx.needs_fuel[0] else "", f"(self : {lty('self')})", pdecl] if x) + " :",
            f"    Option {atom(result_type(cx))} := do"]
    chunks.append("\n".join(head + [ln.replace("{IMPLICIT}", imp) for ln in body]) + "\n")
    return "\n".join(chunks)


def translate_mt_operator(S: Source) -> str:
    cname, f = S.resolve("_match_tracking_operator")
    if cname != "BaseART":
        raise Unsupported(f"_match_tracking_operator resolves to {cname}")
    text = translate_operator(f)
    if "def strict (method : Art.MT) : Bool :=" not in text:
        raise Unsupported("ktrans' rendering of _match_tracking_operator changed")
    return text.replace("def strict (method : Art.MT) : Bool :=", "def match_tracking_operator (method : Art.MT) : Bool :=")


PRELUDE = '''/-
GENERATED by harness/artv/ftrans3.py from artlib/fusion/FusionART.py and artlib/common/BaseART.py — do not edit.
Regenerated on every run of the checks that name it; ArtGenProofs/FusionFitSpec.lean proves these definitions equal to
the FusionART training model of ArtModel/Fusion.lean (`modsStep` / `modsRun` = the projections of `stepFit` /
`partialFit (fusionKernel chans)`).  The kernel methods and the `W` property are the definitions of ArtGen/Fusion.lean.
-/
import ArtGen.Fusion
import ArtModel.ImpFusion3

set_option linter.unusedVariables false

namespace Art.Gen.FusionARTFit
open Art Art.Gen.FusionART

/-- what FusionART's training code does to a nested estimator `self.modules[k]` beyond the methods of
`Art.Gen.FusionART.ModOps`: attribute stores (they return the new object) and `hasattr(module, "W")` -/
structure FitOps (M α P : Type) where
  /-- `module.params = p` -/
  set_params : M → P → M
  /-- `module.W = ws` -/
  set_W : M → List (List α) → M
  /-- `module.weight_sample_counter_ = cs` -/
  set_cnt : M → List Nat → M
  /-- `module.sample_counter_ = k` -/
  set_n : M → Nat → M
  /-- `hasattr(module, "W")` -/
  hasW : M → Bool

section
variable {M P C α : Type} [Add α] [Mul α] [Zero α] [One α] [LT α] [DecidableRel (α := α) (· < ·)]

'''


def generate(repo: Path) -> str:
    S = Source(Path(repo))
    env = {}
    parts = [PRELUDE, translate_mt_operator(S)]
    for m in ORDER:
        parts.append(translate_method(S, m, env))
    parts.append("end\n\nend Art.Gen.FusionARTFit\n")
    return "\n".join(parts)


def write(repo: Path = None) -> tuple[bool, str]:
    repo = Path(repo or os.environ.get("VERIF_REPO", "/repo"))
    out = VERIF / "lean" / "ArtGen" / "FusionFit.lean"
    try:
        text = generate(repo)
    except (Unsupported, SyntaxError, KeyError, AttributeError, TypeError, IndexError, OSError) as e:
        return False, f"{type(e).__name__}: {e}"
    if not out.exists() or out.read_text() != text:
        tmp = out.with_suffix(".lean.tmp%d" % os.getpid())
        tmp.write_text(text)
        os.replace(tmp, out)
    return True, "generated"


if __name__ == "__main__":
    import sys
    ok, msg = write(sys.argv[1] if len(sys.argv) > 1 else None)
    print(msg)
    sys.exit(0 if ok else 1)
