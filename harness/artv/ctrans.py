"""Control-flow translator: the Python AST of artlib's *imperative* training code  ->  Lean 4 definitions.

`ktrans.py` translates the straight-line numeric kernels; this module translates statements: re-binding of
locals and of `self.<attr>`, `if/else`, `while` with early `return`, calls of small `self` methods (inlined
from their own source) and calls of the abstract kernel methods (kept as fields of `Art.Imp.Ext`).  It is run
on every check that names it and writes `lean/ArtGen/Control.lean`; `lean/ArtGenProofs/ControlSpec.lean`
proves the generated `Gen.BaseART.step_fit` equal to the model's `Art.stepFit` for ALL states, samples,
reset functions, modes and epsilons (given the kernel contract) — so a change of the search loop in the
source breaks a proof obligation, not a sample.

The translation is syntax-directed:
  x = e                      ->  let x := e                                (shadowing = re-binding)
  self.a = e / self.a += e   ->  let self_a := …                           (attributes are variables)
  self.a.append(v)           ->  let self_a := self_a ++ [v]
  v[i] = e / v[:] = e        ->  let v := v.set i e / v.map (fun _ => e)
  if c: A else: B ; rest     ->  no return inside:  let (vars…) := if c then A;(vars…) else B;(vars…) ; rest
                                 a return inside :  if c then A;rest else B;rest
  while c: B ; rest          ->  match whileFuel (fun vars => c) (fun vars => B) fuel vars with
                                 | .ret r => r | .next vars => rest
  return e                   ->  (⟨self attributes⟩, e)      (inside a loop: Flow.ret …)
  self.m(args)               ->  m in INLINE: the translated body of m;  m in EXTERNAL: E.m args
Anything else raises `Unsupported`: the translator fails closed.
"""
from __future__ import annotations

import ast
import os
import sys
from pathlib import Path

from .ktrans import Unsupported, find_function, MODE_CTOR

VERIF = Path(__file__).resolve().parents[2]
BASE = "artlib/common/BaseART.py"

# attributes of `self` that the translated methods may read or write  ->  Lean variable, field of Art.Imp.Self
SELF_FIELDS = {"W": ("self_W", "W"), "weight_sample_counter_": ("self_cnt", "cnt"),
               "sample_counter_": ("self_n", "n"), "params": ("self_params", "params"),
               "labels_": ("self_labels", "labels"), "__hasW": ("self_hasW", "hasW")}
# attributes that are only ever written (flags nobody in the translated code reads): assignments are dropped
WRITE_ONLY = {"is_fitted_"}
# calls that only check their argument (assert / raise) or record the data width: dropped; the theorems are about
# calls on valid data (validation is C18's subject)
GUARDS = {"validate_data", "check_dimensions"}
GUARD_FUNCS = {"check_is_fitted"}
# methods translated on their own and called from other translated methods, in translation order
TRANSLATED = ["step_fit", "step_pred", "predict", "partial_fit", "fit"]
# BaseART methods whose (small) bodies are translated in place of the call
INLINE = {"add_weight", "set_weight", "_set_params", "_deep_copy_params", "pre_step_fit", "post_step_fit", "post_fit"}
# methods kept abstract: name -> (field of Art.Imp.Ext, parameter names after self, attributes written)
EXTERNAL = {
    "category_choice": ("category_choice", ["i", "w", "params"], ()),        # also reads self.W (READS below)
    "match_criterion_bin": ("match_criterion_bin", ["i", "w", "params", "cache", "op"], ()),
    "update": ("update", ["i", "w", "params", "cache"], ()),
    "new_weight": ("new_weight", ["i", "params"], ()),
    "_match_tracking": ("match_tracking", ["cache", "epsilon", "params", "method"], ("params",)),
    "_match_tracking_operator": ("operator", ["method"], ()),
}
# callables received as arguments: parameter names in call order (what the library documents for reset functions)
READS = {"category_choice": ["W"]}
CALLBACKS = {"match_reset_func": ["i", "w", "cluster", "params", "cache"]}
CALLBACK_TYPE = {"match_reset_func": "Xt → Wt → Nat → P → C → Bool"}
PARAM_TYPES = {"x": "Xt", "match_tracking": "Art.MT", "epsilon": "α", "X": ("list", "Xt"), "max_iter": "Nat", "verbose": "Bool",
               "c_b": "Nat"}
IGNORED_PARAMS = {"y"}          # accepted for sklearn compatibility, never read by BaseART


# second profile: SimpleARTMAP (its own attributes: the nested A-side estimator and the class map)
SMAP_FILE = "artlib/supervised/SimpleARTMAP.py"
PURE_INLINE = set()            # methods without side effects whose body (with `return`s) is inlined as an expression
NESTED = {}                    # attribute -> class of a nested estimator whose translated methods may be called
PROFILES = {}


def use_profile(name: str):
    globals().update(PROFILES[name])


# ------------------------------------------------------------------------------------------------ types
# atoms are strings ("Nat", "Bool", "X", "Wt", "P", "C", "α", "Art.MT"); ("list", t); ("opt", t); ("prod", [t...])
SELF_TYPES = {"W": ("list", "Wt"), "weight_sample_counter_": ("list", "Nat"), "sample_counter_": "Nat", "params": "P",
              "labels_": ("list", "Nat"), "__hasW": "Bool"}
EXTERNAL_RET = {"category_choice": ("prod", [("opt", "α"), "C"]), "match_criterion_bin": ("prod", ["Bool", "C"]),
                "update": "Wt", "new_weight": "Wt", "_match_tracking": "Bool", "_match_tracking_operator": "Bool"}
SELF_TY = "Art.Imp.Self Wt P"
# what each translated method returns (besides the new self)
METHOD_RET = {"step_fit": "Nat", "step_pred": "Nat", "predict": ("list", "Nat"), "partial_fit": "Unit", "fit": "Unit"}


NAMESPACE = "Art.Gen.BaseART"
PROFILES["BaseART"] = dict(SELF_FIELDS=SELF_FIELDS, SELF_TYPES=SELF_TYPES, SELF_TY=SELF_TY, METHOD_RET=METHOD_RET,
                           TRANSLATED=TRANSLATED, INLINE=INLINE, PURE_INLINE=set(), NESTED={}, NAMESPACE=NAMESPACE, FILE=BASE,
                           PARAM_TYPES=PARAM_TYPES, IGNORED_PARAMS=IGNORED_PARAMS, WRITE_ONLY=WRITE_ONLY, HAS_FLAGS={"W": "__hasW"})
PROFILES["SimpleARTMAP"] = dict(
    SELF_FIELDS={"module_a": ("self_a", "a"), "map": ("self_map", "map"), "labels_": ("self_labelsB", "labelsB"),
                 "__hasLabels": ("self_hasLabels", "hasLabels")},
    SELF_TYPES={"module_a": "Art.Imp.Self Wt P", "map": "dict", "labels_": ("list", "Nat"), "__hasLabels": "Bool"},
    SELF_TY="Art.Imp.SMapSelf Wt P",
    METHOD_RET={"step_fit": "Nat", "step_pred": ("prod", ["Nat", "Nat"]), "predict": ("list", "Nat"), "partial_fit": "Unit",
                "fit": "Unit"},
    TRANSLATED=["step_fit", "step_pred", "predict", "partial_fit", "fit"], INLINE=set(), PURE_INLINE={"match_reset_func"},
    NESTED={"module_a": "BaseART"}, NAMESPACE="Art.Gen.SimpleARTMAP", FILE=SMAP_FILE,
    PARAM_TYPES=dict(PARAM_TYPES, y=("list", "Nat")), IGNORED_PARAMS=set(), WRITE_ONLY={"classes_"},
    HAS_FLAGS={"labels_": "__hasLabels"})
HAS_FLAGS = {"W": "__hasW"}
NESTED_FIELD = {"W": ("W", ("list", "Wt")), "weight_sample_counter_": ("cnt", ("list", "Nat")), "sample_counter_": ("n", "Nat"),
                "labels_": ("labels", ("list", "Nat")), "params": ("params", "P")}


def lean_ty(t) -> str:
    if t == "dict":
        return "List (Option Nat)"
    if isinstance(t, str):
        return t
    if t[0] == "list":
        return f"List ({lean_ty(t[1])})" if not isinstance(t[1], str) else f"List {t[1]}"
    if t[0] == "opt":
        return f"Option {lean_ty(t[1])}" if isinstance(t[1], str) else f"Option ({lean_ty(t[1])})"
    if t[0] == "enum":
        inner = lean_ty(t[1])
        return f"List (({inner}) × Nat)" if isinstance(t[1], tuple) and t[1][0] == "prod" else f"List ({inner} × Nat)"
    if t[0] == "prod":
        return " × ".join(lean_ty(x) if isinstance(x, str) or x[0] != "prod" else f"({lean_ty(x)})" for x in t[1])
    raise Unsupported(f"type {t}")


def elem_ty(t, what):
    if isinstance(t, tuple) and t[0] == "list":
        return t[1]
    raise Unsupported(f"{what}: not a list ({t})")


def strip_doc(body):
    return [s for s in body if not (isinstance(s, ast.Expr) and isinstance(s.value, ast.Constant) and isinstance(s.value.value, str))]


def contains_return(stmts) -> bool:
    for s in stmts:
        for n in ast.walk(s):
            if isinstance(n, ast.Return):
                return True
    return False


def always_returns(stmts) -> bool:
    if not stmts:
        return False
    last = stmts[-1]
    if isinstance(last, ast.Return):
        return True
    if isinstance(last, ast.If):
        return always_returns(last.body) and always_returns(last.orelse)
    return False


def ind(lines, k=2):
    return [" " * k + l for l in lines]


class Env:
    def __init__(self, tree, cls):
        self.tree, self.cls = tree, cls
        self.names: dict[str, str] = {}     # python local -> lean identifier
        self.bound: list[str] = []          # lean identifiers (re)bound so far, in order (for the analyses)
        self.prefix = ""
        self.in_loop = False
        self.callbacks: set[str] = set()
        self.rec = None                     # shared (not copied) log of every binding, for the analyses
        self.types: dict[str, object] = {v[0]: SELF_TYPES[a] for a, v in SELF_FIELDS.items()}   # lean identifier -> type
        self.helpers: list[str] = []        # shared: top-level helper definitions (loop conditions / bodies)
        self.fn = ""
        self.ret_ty = "Nat"                 # what the method returns besides the new self
        self.loopn = [0]                    # shared loop counter
        self.lambdas: dict[str, ast.Lambda] = {}   # local name -> lambda bound to it
        self.dicts: dict[str, dict] = {}           # local name -> compile-time dict literal {key: (text, type)}
        self.pure = False                   # translating a side-effect-free method as an expression
        self.trees: dict[str, ast.Module] = {}     # class name -> module AST (nested estimators)

    def copy(self):
        e = Env(self.tree, self.cls)
        e.names, e.bound, e.prefix, e.in_loop, e.callbacks = dict(self.names), list(self.bound), self.prefix, self.in_loop, set(self.callbacks)
        e.rec = self.rec
        e.types, e.helpers, e.fn, e.ret_ty, e.loopn = dict(self.types), self.helpers, self.fn, self.ret_ty, self.loopn
        e.lambdas, e.dicts, e.pure, e.trees = dict(self.lambdas), dict(self.dicts), self.pure, self.trees
        return e

    def bind(self, py: str, ty=None) -> str:
        ln = self.prefix + py
        self.names[py] = ln
        if ty is None:
            raise Unsupported(f"no type for {py}")
        self.types[ln] = ty
        self._mark(ln)
        return ln

    def bind_self(self, attr: str) -> str:
        if attr not in SELF_FIELDS:
            raise Unsupported(f"write to self.{attr}")
        ln = SELF_FIELDS[attr][0]
        self._mark(ln)
        return ln

    def _mark(self, ln):
        if ln in self.bound:
            self.bound.remove(ln)
        self.bound.append(ln)
        if self.rec is not None and ln not in self.rec:
            self.rec.append(ln)

    def defined(self) -> set[str]:
        return set(self.names.values()) | {v[0] for v in SELF_FIELDS.values()}


def self_pack() -> str:
    return "{ " + ", ".join(f"{f} := {v}" for v, f in SELF_FIELDS.values()) + " }"


def self_unpack(src: str, env: "Env") -> list[str]:
    out = []
    for a, (v, f) in SELF_FIELDS.items():
        env.bind_self(a)
        out.append(f"let {v} := {src}.{f}")
    return out


def ret_type(env: "Env") -> str:
    return f"{SELF_TY} × {lean_ty(env.ret_ty)}"


def method_has_loop(tree, cls, m) -> bool:
    f = find_function(tree, cls, m)
    for n in ast.walk(f):
        if isinstance(n, ast.While):
            return True
        sc = self_call(n)
        if sc and sc[0] in TRANSLATED and sc[0] != m and method_has_loop(tree, cls, sc[0]) and False:
            return True
    return False


# ---------------------------------------------------------------------------------------------- expressions

def is_self_attr(e) -> str | None:
    if isinstance(e, ast.Attribute) and isinstance(e.value, ast.Name) and e.value.id == "self":
        return e.attr
    return None


def self_call(e) -> tuple[str, ast.Call] | None:
    if isinstance(e, ast.Call) and isinstance(e.func, ast.Attribute) and isinstance(e.func.value, ast.Name) and e.func.value.id == "self":
        return e.func.attr, e
    return None


def order_args(call: ast.Call, names: list[str], what: str) -> list[ast.AST]:
    if len(call.args) > len(names):
        raise Unsupported(f"{what}: too many arguments")
    out: dict[str, ast.AST] = {n: a for n, a in zip(names, call.args)}
    for kw in call.keywords:
        if kw.arg is None or kw.arg not in names or kw.arg in out:
            raise Unsupported(f"{what}: keyword {kw.arg}")
        out[kw.arg] = kw.value
    if set(out) != set(names):
        raise Unsupported(f"{what}: arguments {sorted(out)} instead of {names}")
    return [out[n] for n in names]


def signature_of(env: Env, m: str) -> list[str]:
    f = find_function(env.tree, env.cls, m)
    a = f.args
    if a.vararg or a.kwarg or a.kwonlyargs or a.posonlyargs:
        raise Unsupported(f"{m}: signature")
    names = [x.arg for x in a.args]
    is_static = any(isinstance(d, ast.Name) and d.id == "staticmethod" for d in f.decorator_list)
    return names if is_static else names[1:]


def attrs_written(env: Env, m: str) -> set[str]:
    f = find_function(env.tree, env.cls, m)
    out = set()
    for n in ast.walk(f):
        tgts = []
        if isinstance(n, ast.Assign):
            tgts = n.targets
        elif isinstance(n, (ast.AugAssign, ast.AnnAssign)):
            tgts = [n.target]
        for t in tgts:
            while isinstance(t, ast.Subscript):
                t = t.value
            a = is_self_attr(t)
            if a:
                out.add(a)
        if isinstance(n, ast.Call) and isinstance(n.func, ast.Attribute) and n.func.attr in ("append", "pop", "extend", "insert", "clear", "update"):
            a = is_self_attr(n.func.value)
            if a:
                out.add(a)
        sc = self_call(n)
        if sc and sc[0] not in EXTERNAL:
            raise Unsupported(f"{m} calls self.{sc[0]}")
    return out


def ext(e: ast.AST, env: Env):
    """expression -> (lean text, type)"""
    if isinstance(e, ast.Name):
        if e.id in env.names:
            ln = env.names[e.id]
            return ln, env.types.get(ln)
        if e.id == "self":
            return "()", "Unit"       # `return self`: the new self is returned anyway
        raise Unsupported(f"unbound name {e.id}")
    if isinstance(e, ast.Constant):
        v = e.value
        if v is None:
            return "E.noneC", "C"
        if isinstance(v, bool):
            return ("true" if v else "false"), "Bool"
        if isinstance(v, int) and v >= 0:
            return str(v), "Nat"
        if isinstance(v, str) and v in MODE_CTOR:
            return "Art.MT" + MODE_CTOR[v], "Art.MT"
        raise Unsupported(f"constant {v!r}")
    a = is_self_attr(e)
    if a is not None:
        if a not in SELF_FIELDS:
            raise Unsupported(f"read of self.{a}")
        return SELF_FIELDS[a][0], env.types[SELF_FIELDS[a][0]]
    if isinstance(e, ast.Attribute) and ast.unparse(e) == "np.nan":
        return "none", ("opt", "α")
    if isinstance(e, ast.Attribute) and is_self_attr(e.value) in NESTED and e.attr in NESTED_FIELD:
        fld, fty = NESTED_FIELD[e.attr]
        return f"{SELF_FIELDS[is_self_attr(e.value)][0]}.{fld}", fty
    if isinstance(e, ast.Subscript) and isinstance(e.value, ast.Attribute) and e.value.attr == "shape" \
            and isinstance(e.slice, ast.Constant) and e.slice.value == 0:
        bt, bty = ext(e.value.value, env)
        elem_ty(bty, "shape[0]")
        return f"({bt}).length", "Nat"
    if isinstance(e, ast.Tuple):
        parts = [ext(t, env) for t in e.elts]
        return "(" + ", ".join(t for t, _ in parts) + ")", ("prod", [ty for _, ty in parts])
    if isinstance(e, ast.IfExp):
        bt, bty = ext(e.body, env)
        ot, oty = ext(e.orelse, env)
        if bty != oty:
            raise Unsupported(f"branches of {ast.unparse(e)[:60]} have types {bty} / {oty}")
        return f"(if {ex(e.test, env)} then {bt} else {ot})", bty
    if isinstance(e, ast.BoolOp):
        op = " && " if isinstance(e.op, ast.And) else " || "
        return "(" + op.join(ex(v, env) for v in e.values) + ")", "Bool"
    if isinstance(e, ast.UnaryOp) and isinstance(e.op, ast.Not):
        return f"(!{ex(e.operand, env)})", "Bool"
    if isinstance(e, ast.BinOp) and isinstance(e.op, ast.Add):
        lt, lty = ext(e.left, env)
        return f"({lt} + {ex(e.right, env)})", lty
    if isinstance(e, ast.Compare) and len(e.ops) == 1:
        l, r, op = e.left, e.comparators[0], e.ops[0]
        if isinstance(op, (ast.Is, ast.IsNot)) and isinstance(r, ast.Constant) and r.value is None and isinstance(l, ast.Name) \
                and l.id in env.callbacks:
            return (f"{env.names[l.id]}_is_none" if isinstance(op, ast.Is) else f"(!{env.names[l.id]}_is_none)"), "Bool"
        if isinstance(op, ast.Eq):
            return f"({ex(l, env)} == {ex(r, env)})", "Bool"
        if isinstance(op, ast.NotEq):
            return f"({ex(l, env)} != {ex(r, env)})", "Bool"
        if isinstance(op, (ast.In, ast.NotIn)) and not isinstance(r, ast.List) and ext(r, env)[1] == "dict":
            t_ = f"(Art.mapGet {ex(r, env)} {arg(l, env)})"
            return (f"{t_}.isSome" if isinstance(op, ast.In) else f"{t_}.isNone"), "Bool"
        if isinstance(op, ast.In) and isinstance(r, ast.List):
            return f"([{', '.join(ex(t, env) for t in r.elts)}].contains {ex(l, env)})", "Bool"
        raise Unsupported(f"comparison {ast.unparse(e)}")
    if isinstance(e, ast.Subscript) and isinstance(e.ctx, ast.Load) and isinstance(e.value, ast.Name) and e.value.id in env.dicts \
            and isinstance(e.slice, ast.Constant) and e.slice.value in env.dicts[e.value.id]:
        return env.dicts[e.value.id][e.slice.value]
    if isinstance(e, ast.Subscript) and isinstance(e.ctx, ast.Load) and not isinstance(e.slice, ast.Slice):
        bt, bty = ext(e.value, env)
        if bty == "dict":
            return f"((Art.mapGet {bt} {arg(e.slice, env)}).getD 0)", "Nat"
        return f"({bt})[{ex(e.slice, env)}]!", elem_ty(bty, ast.unparse(e))
    if isinstance(e, ast.ListComp):
        if len(e.generators) != 1 or e.generators[0].ifs or e.generators[0].is_async:
            raise Unsupported("list comprehension shape")
        g = e.generators[0]
        inner = env.copy()
        inner.rec = None          # comprehension variables do not leak
        if isinstance(g.target, ast.Name):
            it, ity = ext(g.iter, env)
            v = inner.bind(g.target.id, elem_ty(ity, "comprehension source"))
            et, ety = ext(e.elt, inner)
            return f"(({it}).map (fun {v} => {et}))", ("list", ety)
        if (isinstance(g.target, ast.Tuple) and len(g.target.elts) == 2 and all(isinstance(t, ast.Name) for t in g.target.elts)
                and isinstance(g.iter, ast.Call) and isinstance(g.iter.func, ast.Name) and g.iter.func.id == "enumerate"
                and len(g.iter.args) == 1 and not g.iter.keywords):
            it, ity = ext(g.iter.args[0], env)
            i = inner.bind(g.target.elts[0].id, "Nat")
            v = inner.bind(g.target.elts[1].id, elem_ty(ity, "enumerate source"))
            et, ety = ext(e.elt, inner)
            return f"((List.zipIdx ({it})).map (fun ({v}, {i}) => {et}))", ("list", ety)
        raise Unsupported("list comprehension target")
    if isinstance(e, ast.Call):
        src = ast.unparse(e)
        sc = self_call(e)
        if sc:
            m, call = sc
            if m in EXTERNAL:
                field, names, writes = EXTERNAL[m]
                if writes:
                    raise Unsupported(f"self.{m} writes {writes} and is used inside an expression")
                if signature_of(env, m) != names:
                    raise Unsupported(f"signature of {m} is {signature_of(env, m)}")
                reads = " ".join(SELF_FIELDS[r_][0] for r_ in READS.get(m, []))
                return "(E." + field + " " + (reads + " " if reads else "") + \
                    " ".join(arg(x, env) for x in order_args(call, names, m)) + ")", EXTERNAL_RET[m]
            if m in PURE_INLINE:
                return pure_inline(m, call, env)
            if m in INLINE:
                f = find_function(env.tree, env.cls, m)
                body = strip_doc(f.body)
                if len(body) == 1 and isinstance(body[0], ast.Return) and not signature_of(env, m) and not call.args and not call.keywords:
                    return ext(body[0].value, env)
                raise Unsupported(f"self.{m} inside an expression")
            raise Unsupported(f"call of self.{m}")
        if isinstance(e.func, ast.Name):
            fn = e.func.id
            if fn in env.callbacks:
                names = CALLBACKS[fn]
                return "(" + env.names[fn] + " " + " ".join(arg(x, env) for x in order_args(e, names, fn)) + ")", "Bool"
            if fn == "len" and len(e.args) == 1:
                return f"({ex(e.args[0], env)}).length", "Nat"
            if fn == "hasattr" and len(e.args) == 2 and ast.unparse(e.args[0]) == "self" and isinstance(e.args[1], ast.Constant) \
                    and e.args[1].value in HAS_FLAGS:
                return SELF_FIELDS[HAS_FLAGS[e.args[1].value]][0], "Bool"
            if fn == "dict" and not e.args and not e.keywords:
                return "[]", "dict"
            if fn == "zip" and len(e.args) == 2 and not e.keywords:
                (a_, aty), (b_, bty) = ext(e.args[0], env), ext(e.args[1], env)
                return f"(List.zip {a_} {b_})", ("list", ("prod", [elem_ty(aty, "zip"), elem_ty(bty, "zip")]))
            if fn == "enumerate" and len(e.args) == 1 and not e.keywords:
                it, ity = ext(e.args[0], env)
                return f"(List.zipIdx ({it}))", ("enum", elem_ty(ity, "enumerate"))
            if fn == "range" and len(e.args) == 1 and not e.keywords:
                return f"(List.range {arg(e.args[0], env)})", ("list", "Nat")
            if fn == "tqdm" and len(e.args) == 1:
                return ext(e.args[0], env)          # a progress bar is the identity on the iterator

            if fn == "deepcopy" and len(e.args) == 1:
                return ext(e.args[0], env)
            if fn == "any" and src.startswith("any(~np.isnan(") and isinstance(e.args[0], ast.UnaryOp):
                inner = e.args[0].operand
                if isinstance(inner, ast.Call) and len(inner.args) == 1:
                    return f"(({ex(inner.args[0], env)}).any Option.isSome)", "Bool"
            if fn == "int" and len(e.args) == 1 and isinstance(e.args[0], ast.Call):
                c2 = e.args[0]
                name2 = ast.unparse(c2.func)
                if name2 == "np.nanargmax" and len(c2.args) == 1:
                    return f"((Art.nanargmax {ex(c2.args[0], env)}).getD 0)", "Nat"
                if name2 == "np.argmax" and len(c2.args) == 1:
                    return f"((Art.argmaxNp {ex(c2.args[0], env)}).getD 0)", "Nat"
            if fn == "int" and len(e.args) == 1:
                it_, ity_ = ext(e.args[0], env)
                if ity_ == "Nat":
                    return it_, "Nat"
        if ast.unparse(e.func) in ("np.array", "np.copy") and len(e.args) == 1 and not e.keywords:
            return ext(e.args[0], env)
        if ast.unparse(e.func) == "np.zeros" and len(e.args) == 1 and isinstance(e.args[0], ast.Tuple) and len(e.args[0].elts) == 1 \
                and [ast.unparse(k_) for k_ in e.keywords] == ["dtype=int"]:
            n_, nty = ext(e.args[0].elts[0], env)
            if nty != "Nat":
                raise Unsupported("np.zeros length")
            return f"(List.replicate {n_} 0)", ("list", "Nat")
        if ast.unparse(e.func) == "np.pad" and len(e.args) == 2 and [ast.unparse(k_) for k_ in e.keywords] == ["mode='constant'"] \
                and isinstance(e.args[1], ast.List) and len(e.args[1].elts) == 1 and isinstance(e.args[1].elts[0], ast.Tuple) \
                and len(e.args[1].elts[0].elts) == 2 and ast.unparse(e.args[1].elts[0].elts[0]) == "0":
            bt, bty = ext(e.args[0], env)
            n_, nty = ext(e.args[1].elts[0].elts[1], env)
            if bty != ("list", "Nat") or nty != "Nat":
                raise Unsupported("np.pad of something that is not a label vector")
            return f"({bt} ++ List.replicate {n_} 0)", ("list", "Nat")
        if ast.unparse(e.func) == "np.concatenate" and len(e.args) == 1 and not e.keywords and isinstance(e.args[0], ast.List) \
                and len(e.args[0].elts) == 2:
            (at, aty), (bt, bty) = ext(e.args[0].elts[0], env), ext(e.args[0].elts[1], env)
            if aty != ("list", "Nat") or bty != ("list", "Nat"):
                raise Unsupported("np.concatenate of something that is not a pair of label vectors")
            return f"({at} ++ {bt})", ("list", "Nat")
        raise Unsupported(f"call {src[:80]}")
    raise Unsupported(f"expression {ast.unparse(e)[:80]}")


def pure_inline(m: str, call: ast.Call, env: Env):
    """a call of a side-effect-free method of the same class, as a (multi-line, parenthesised) expression"""
    f = find_function(env.tree, env.cls, m)
    if attrs_written(env, m):
        raise Unsupported(f"{m} writes {sorted(attrs_written(env, m))}: not side-effect free")
    names = signature_of(env, m)
    given = dict(zip(names, call.args))
    for kw in call.keywords:
        if kw.arg in given or kw.arg not in names:
            raise Unsupported(f"{m}: keyword {kw.arg}")
        given[kw.arg] = kw.value
    inner = env.copy()
    inner.pure, inner.rec = True, None
    inner.prefix = m.strip("_") + "_"
    inner.names = {cb: env.names[cb] for cb in env.callbacks if cb in env.names}
    lines = []
    for n_ in names:
        if n_ not in given:
            continue                      # a default that the body must not read (fails closed when it does)
        a_ = given[n_]
        if isinstance(a_, ast.Dict) and all(isinstance(k_, ast.Constant) for k_ in a_.keys):
            inner.dicts[n_] = {k_.value: ext(v_, env) for k_, v_ in zip(a_.keys, a_.values)}
            continue
        t_, ty_ = ext(a_, env)
        ln = inner.bind(n_, ty_)
        lines.append(f"let {ln} := {t_}")

    def no_fall(e_):
        raise Unsupported(f"{m}: a path ends without return")
    ret_ty = []

    def ret(t_):
        return t_
    lines += tr_block(f.body, inner, K(no_fall, ret))
    return "(\n" + "\n".join("      " + l for l in lines) + ")", "Bool"


def lambda_text(lam: ast.Lambda, names_types: list, env: Env) -> str:
    """a Python lambda as a Lean `fun`; its parameters get the types the receiving method documents"""
    args = [a_.arg for a_ in lam.args.args]
    if len(args) != len(names_types):
        raise Unsupported("lambda arity")
    inner = env.copy()
    inner.rec = None
    bound = [inner.bind(a_, ty_) for a_, (_, ty_) in zip(args, names_types)]
    body = ex(lam.body, inner)
    return "(fun " + " ".join(bound) + " => " + body + ")"


def ex(e: ast.AST, env: Env) -> str:
    return ext(e, env)[0]


def arg(e: ast.AST, env: Env) -> str:
    t = ex(e, env)
    return t if t.replace("_", "a").replace(".", "a").isalnum() else f"({t})"


def tuple_pat(names):
    return names[0] if len(names) == 1 else "(" + ", ".join(names) + ")"


def free_vars(text: str, env: Env, exclude=()) -> list[str]:
    """identifiers of the environment that occur in `text`, in a stable order"""
    import re
    toks = set(re.findall(r"[A-Za-z_][A-Za-z_0-9]*", text))
    out = []
    for ln in list(env.types):
        if ln in toks and ln not in exclude and ln not in out:
            out.append(ln)
    for cb in env.callbacks:
        for ln in (env.names[cb] + "_is_none", env.names[cb]):
            if ln in toks and ln not in out:
                out.append(ln)
    return out


def param_decl(ln: str, env: Env) -> str:
    for cb in env.callbacks:
        if ln == env.names[cb]:
            return f"({ln} : {CALLBACK_TYPE[cb]})"
        if ln == env.names[cb] + "_is_none":
            return f"({ln} : Bool)"
    return f"({ln} : {lean_ty(env.types[ln])})"


HEADER_CLASSES = "{Xt Wt P C α : Type} [LT α] [DecidableRel (α := α) (· < ·)] [Inhabited Wt] [Inhabited C]"


# ----------------------------------------------------------------------------------------------- statements

class K:
    """what follows a block: `fall(env)` gives the lines executed after falling through, `ret(text)` wraps a
    returned value"""

    def __init__(self, fall, ret):
        self.fall, self.ret = fall, ret


def tr_block(stmts, env: Env, k: K) -> list[str]:
    stmts = strip_doc(stmts)
    if not stmts:
        return k.fall(env)
    s, rest = stmts[0], stmts[1:]

    def cont(lines: list[str]) -> list[str]:
        return lines + tr_block(rest, env, k)

    if isinstance(s, (ast.Pass, ast.Assert, ast.ImportFrom, ast.Import)):
        return tr_block(rest, env, k)
    if isinstance(s, ast.Expr) and isinstance(s.value, ast.Call):
        sc0 = self_call(s.value)
        if (sc0 and sc0[0] in GUARDS) or (isinstance(s.value.func, ast.Name) and s.value.func.id in GUARD_FUNCS):
            return tr_block(rest, env, k)
        f0 = s.value.func
        if isinstance(f0, ast.Attribute) and isinstance(f0.value, ast.Name) and f0.value.id == env.cls and f0.attr in GUARDS:
            return tr_block(rest, env, k)          # Class.validate_data(self, …)
        nc0 = nested_call(s.value)
        if nc0:
            body0 = strip_doc(find_function(env.trees[NESTED[nc0[0]]], NESTED[nc0[0]], nc0[1]).body)
            if all(isinstance(b_, ast.Pass) for b_ in body0):
                return tr_block(rest, env, k)      # a hook that does nothing in the nested class
            raise Unsupported(f"call of {NESTED[nc0[0]]}.{nc0[1]} as a statement")
    if isinstance(s, ast.Assign) and len(s.targets) == 1 and isinstance(s.targets[0], ast.Tuple) and isinstance(s.value, ast.Call):
        # X, y = Class.validate_data(self, X, y): the guard hands back the arrays it checked (sklearn's check_X_y returns
        # them converted: same values, y as a 1-d vector) — on valid data the identity; dropped like the bare guard call
        f0 = s.value.func
        if isinstance(f0, ast.Attribute) and isinstance(f0.value, ast.Name) and f0.value.id == env.cls and f0.attr in GUARDS:
            tg = [t_.id if isinstance(t_, ast.Name) else None for t_ in s.targets[0].elts]
            ar = [a_.id if isinstance(a_, ast.Name) else None for a_ in s.value.args]
            if None not in tg and ar[:1] == ["self"] and ar[1:] == tg and not s.value.keywords:
                return tr_block(rest, env, k)
    if isinstance(s, ast.AnnAssign) and s.value is not None:
        s = ast.Assign(targets=[s.target], value=s.value)
    if isinstance(s, ast.Assign) and len(s.targets) == 1 and is_self_attr(s.targets[0]) in WRITE_ONLY:
        return tr_block(rest, env, k)
    if isinstance(s, ast.Assign) and len(s.targets) == 1 and is_self_attr(s.targets[0]) in SELF_FIELDS \
            and isinstance(s.value, ast.List) and not s.value.elts:
        a0 = is_self_attr(s.targets[0])
        v0 = env.bind_self(a0)
        extra = []
        if a0 in HAS_FLAGS:
            extra = [f"let {env.bind_self(HAS_FLAGS[a0])} := true"]
        return cont([f"let {v0} := []"] + extra)
    if isinstance(s, ast.Assign) and len(s.targets) == 1:
        t0 = s.targets[0]
        # self.<nested>.<field> = e      /      self.<nested>.<field>[idx] = e
        tgt = t0.value if isinstance(t0, ast.Subscript) else t0
        if isinstance(tgt, ast.Attribute) and is_self_attr(tgt.value) in NESTED and tgt.attr in NESTED_FIELD:
            obj_attr = is_self_attr(tgt.value)
            obj = SELF_FIELDS[obj_attr][0]
            fld, fty = NESTED_FIELD[tgt.attr]
            if isinstance(t0, ast.Subscript):
                if isinstance(t0.slice, ast.Slice):
                    raise Unsupported("slice store into a nested attribute")
                rhs = f"({obj}.{fld}).set {arg(t0.slice, env)} {arg(s.value, env)}"
            elif isinstance(s.value, ast.List) and not s.value.elts:
                rhs = "[]"
            else:
                rhs = ex(s.value, env)
            extra = ", hasW := true" if tgt.attr == "W" else ""
            v0 = env.bind_self(obj_attr)
            return cont([f"let {v0} := {{ {obj} with {fld} := {rhs}{extra} }}"])
        # self.labels_[j:] = y
        if isinstance(t0, ast.Subscript) and isinstance(t0.slice, ast.Slice) and t0.slice.lower is not None and t0.slice.upper is None \
                and t0.slice.step is None and is_self_attr(t0.value) in SELF_FIELDS:
            a0 = is_self_attr(t0.value)
            old = ex(t0.value, env)
            lo, rhs = arg(t0.slice.lower, env), ex(s.value, env)
            v0 = env.bind_self(a0)
            return cont([f"let {v0} := ({old}.take {lo}) ++ {rhs}"])
    if isinstance(s, ast.Assign) and len(s.targets) == 1 and isinstance(s.targets[0], ast.Name) and isinstance(s.value, ast.Lambda):
        env.lambdas[s.targets[0].id] = s.value
        return tr_block(rest, env, k)
    if isinstance(s, ast.Assign) and len(s.targets) == 1 and isinstance(s.targets[0], ast.Name) and nested_call(s.value):
        return cont(call_nested(s.value, env, s.targets[0].id))
    if isinstance(s, ast.Assign) and len(s.targets) == 1 and isinstance(s.targets[0], ast.Tuple) and self_call(s.value) \
            and self_call(s.value)[0] in TRANSLATED and all(isinstance(t_, ast.Name) for t_ in s.targets[0].elts):
        m, call = self_call(s.value)
        lines = call_translated(m, call, env, "tmp_")
        rty = METHOD_RET[m]
        if not (isinstance(rty, tuple) and rty[0] == "prod" and len(rty[1]) == len(s.targets[0].elts)):
            raise Unsupported(f"tuple assignment from {m}")
        vs = [env.bind(t_.id, ty_) for t_, ty_ in zip(s.targets[0].elts, rty[1])]
        return cont(lines + [f"let ({', '.join(vs)}) := {env.names['tmp_']}"])
    if isinstance(s, ast.Assign) and len(s.targets) == 1 and isinstance(s.targets[0], ast.Subscript) \
            and is_self_attr(s.targets[0].value) in SELF_FIELDS and SELF_TYPES[is_self_attr(s.targets[0].value)] == "dict":
        a0 = is_self_attr(s.targets[0].value)
        old = ex(s.targets[0].value, env)
        key, val = arg(s.targets[0].slice, env), arg(s.value, env)
        v0 = env.bind_self(a0)
        return cont([f"let {v0} := Art.mapPut {old} {key} {val}"])
    if isinstance(s, ast.Assign) and len(s.targets) == 1 and isinstance(s.targets[0], ast.Name) and self_call(s.value) \
            and self_call(s.value)[0] in TRANSLATED:
        m, call = self_call(s.value)
        return cont(call_translated(m, call, env, s.targets[0].id))
    if isinstance(s, ast.Return):
        if rest:
            raise Unsupported("code after return")
        val, vty = ("()", "Unit") if s.value is None else ext(s.value, env)
        if env.pure:
            return [k.ret(val)]
        if vty != env.ret_ty:
            raise Unsupported(f"{env.fn} returns {vty}, expected {env.ret_ty}")
        return [k.ret(f"({self_pack()}, {val})")]
    if isinstance(s, ast.AugAssign):
        if not isinstance(s.op, ast.Add):
            raise Unsupported("augmented assignment other than +=")
        a = is_self_attr(s.target)
        if a is not None:
            old = ex(s.target, env)
            rhs = ex(s.value, env)
            v = env.bind_self(a)
            return cont([f"let {v} := {old} + {rhs}"])
        if isinstance(s.target, ast.Subscript) and is_self_attr(s.target.value) is not None:
            a = is_self_attr(s.target.value)
            old = ex(s.target.value, env)
            idx = arg(s.target.slice, env)
            rhs = ex(s.value, env)
            v = env.bind_self(a)
            return cont([f"let {v} := {old}.set {idx} ({old}[{idx}]! + {rhs})"])
        raise Unsupported(f"augmented assignment to {ast.unparse(s.target)}")
    if isinstance(s, ast.Assign):
        if len(s.targets) != 1:
            raise Unsupported("chained assignment")
        t = s.targets[0]
        # T_values, T_cache = zip(*[...])
        if (isinstance(t, ast.Tuple) and all(isinstance(x, ast.Name) for x in t.elts) and isinstance(s.value, ast.Call)
                and isinstance(s.value.func, ast.Name) and s.value.func.id == "zip" and len(s.value.args) == 1
                and isinstance(s.value.args[0], ast.Starred) and len(t.elts) == 2):
            lst, lty = ext(s.value.args[0].value, env)
            et = elem_ty(lty, "zip(*…)")
            if not (isinstance(et, tuple) and et[0] == "prod" and len(et[1]) == 2):
                raise Unsupported("zip(*…) of something that is not a list of pairs")
            a = env.bind(t.elts[0].id, ("list", et[1][0]))
            b = env.bind(t.elts[1].id, ("list", et[1][1]))
            return cont([f"let zipped_ := {lst}", f"let {a} := zipped_.map Prod.fst", f"let {b} := zipped_.map Prod.snd"])
        sc = self_call(s.value)
        if sc and sc[0] in EXTERNAL and EXTERNAL[sc[0]][2]:
            # a method that returns a value and writes attributes of self
            m, call = sc
            field, names, writes = EXTERNAL[m]
            if signature_of(env, m) != names or attrs_written(env, m) != set(writes):
                raise Unsupported(f"{m}: signature {signature_of(env, m)} writes {sorted(attrs_written(env, m))}")
            args = order_args(call, names, m)
            for n_, a_ in zip(names, args):
                if n_ in writes and is_self_attr(a_) != n_:
                    raise Unsupported(f"{m}: argument {n_} is not self.{n_}")
            rhs = "E." + field + " " + " ".join(arg(x, env) for x in args)
            if not isinstance(t, ast.Name):
                raise Unsupported(f"{m}: result target")
            r = env.bind(t.id, EXTERNAL_RET[m])
            ws = [env.bind_self(w) for w in writes]
            return cont([f"let ({r}, {', '.join(ws)}) := {rhs}"])
        if isinstance(t, ast.Name):
            rhs, rty = ext(s.value, env)
            v = env.bind(t.id, rty)
            return cont([f"let {v} := {rhs}"])
        if isinstance(t, ast.Tuple) and all(isinstance(x, ast.Name) for x in t.elts):
            rhs, rty = ext(s.value, env)
            if not (isinstance(rty, tuple) and rty[0] == "prod" and len(rty[1]) == len(t.elts)):
                raise Unsupported(f"tuple assignment from {rty}")
            vs = [env.bind(x.id, ty_) for x, ty_ in zip(t.elts, rty[1])]
            return cont([f"let ({', '.join(vs)}) := {rhs}"])
        a = is_self_attr(t)
        if a is not None:
            rhs = ex(s.value, env)
            v = env.bind_self(a)
            extra = [f"let {env.bind_self(HAS_FLAGS[a])} := true"] if a in HAS_FLAGS else []
            return cont([f"let {v} := {rhs}"] + extra)
        if isinstance(t, ast.Subscript):
            base = t.value
            a = is_self_attr(base)
            old, oty = ext(base, env)
            rhs = ex(s.value, env)
            if a is not None:
                v = env.bind_self(a)
            elif isinstance(base, ast.Name):
                v = env.bind(base.id, oty)
            else:
                raise Unsupported(f"store into {ast.unparse(base)}")
            if isinstance(t.slice, ast.Slice):
                if t.slice.lower or t.slice.upper or t.slice.step:
                    raise Unsupported("partial slice store")
                return cont([f"let {v} := {old}.map (fun _ => {rhs})"])
            return cont([f"let {v} := {old}.set {arg(t.slice, env)} {arg(s.value, env)}"])
        raise Unsupported(f"assignment target {ast.unparse(t)}")
    if isinstance(s, ast.Expr):
        sc = self_call(s.value)
        if sc and sc[0] in INLINE:
            m, call = sc
            f = find_function(env.tree, env.cls, m)
            names = signature_of(env, m)
            args = order_args(call, names, m)
            body = strip_doc(f.body)
            if contains_return(body):
                raise Unsupported(f"inlined {m} returns a value")
            lines = []
            saved_names, saved_prefix = dict(env.names), env.prefix
            vals = [ext(a_, env) for a_ in args]
            env.prefix = m.strip("_") + "_"
            env.names = {cb: saved_names[cb] for cb in env.callbacks if cb in saved_names}
            for n_, (v_, ty_) in zip(names, vals):
                ln = env.bind(n_, ty_)
                lines.append(f"let {ln} := {v_}")

            def bad_ret(t_):
                raise Unsupported("return in inlined body")
            lines += tr_block(body, env, K(lambda e2: [], bad_ret))
            env.names, env.prefix = saved_names, saved_prefix
            return cont(lines)
        if isinstance(s.value, ast.Call) and isinstance(s.value.func, ast.Attribute) and s.value.func.attr == "append" \
                and len(s.value.args) == 1 and is_self_attr(s.value.func.value) is not None:
            a = is_self_attr(s.value.func.value)
            old = ex(s.value.func.value, env)
            rhs = ex(s.value.args[0], env)
            v = env.bind_self(a)
            return cont([f"let {v} := {old} ++ [{rhs}]"])
        raise Unsupported(f"expression statement {ast.unparse(s)[:80]}")
    if isinstance(s, ast.If):
        c = ex(s.test, env)
        if contains_return([s]):
            e1, e2 = env.copy(), env.copy()
            a = tr_block(s.body if always_returns(s.body) else s.body + rest, e1, k)
            b = tr_block(s.orelse if always_returns(s.orelse) else s.orelse + rest, e2, k)
            return [f"if {c} then"] + ind(a) + ["else"] + ind(b)
        before = env.defined()
        d1, d2 = env.copy(), env.copy()
        d1.rec, d2.rec = [], []
        d1.helpers, d2.helpers = [], []
        nothing = K(lambda e_: [], lambda t_: "")
        tr_block(s.body, d1, nothing)
        tr_block(s.orelse, d2, nothing)
        export = [v for v in d1.rec + [w for w in d2.rec if w not in d1.rec]
                  if v in before or (v in d1.rec and v in d2.rec)]
        if not export:
            return tr_block(rest, env, k)
        tup = tuple_pat(export)
        e1, e2 = env.copy(), env.copy()
        a = tr_block(s.body, e1, K(lambda e_: [tup], None))
        b = tr_block(s.orelse, e2, K(lambda e_: [tup], None))
        # after the join both branches' bindings are visible under the same names
        for e_ in (e1, e2):
            for py, ln in e_.names.items():
                if ln in export:
                    env.names[py] = ln
                    env.types[ln] = e_.types[ln]
        for v in export:
            env._mark(v)
        return cont([f"let {tup} := (", f"  if {c} then"] + ind(a, 4) + ["  else"] + ind(b, 4)[:-1] + [ind(b, 4)[-1] + ")"])
    if isinstance(s, ast.While):
        if s.orelse:
            raise Unsupported("while/else")
        before = env.defined()
        d = env.copy()
        d.rec = []
        d.helpers = []
        tr_block(s.body, d, K(lambda e_: [], lambda t_: ""))
        carried = [v for v in d.rec if v in before]
        if not carried:
            raise Unsupported("while loop that changes nothing")
        tup = tuple_pat(carried)
        state_ty = lean_ty(("prod", [env.types[v] for v in carried])) if len(carried) > 1 else lean_ty(env.types[carried[0]])
        cond = ex(s.test, env.copy())
        be = env.copy()
        be.in_loop = True
        body = tr_block(s.body, be, K(lambda e_: [f".next {tup}"], lambda t_: f".ret {t_}"))
        # condition and body become top-level definitions, parameterised by the variables they read
        env.loopn[0] += 1
        k_ = env.loopn[0]
        cname, bname = f"{env.fn}_loop{k_}_cond", f"{env.fn}_loop{k_}_body"
        cfv = free_vars(cond, env, exclude=carried)
        bfv = free_vars("\n".join(body), env, exclude=carried)
        env.helpers.append("\n".join(
            [f"/-- loop {k_} of `{env.cls}.{env.fn}`: the `while` condition `{ast.unparse(s.test)}` -/",
             f"def {cname} {HEADER_CLASSES}",
             "    (E : Art.Imp.Ext Xt Wt P C α) " + " ".join(param_decl(v, env) for v in cfv) + f" :",
             f"    {state_ty} → Bool :=",
             f"  fun {tup} => {cond}"]) + "\n")
        env.helpers.append("\n".join(
            [f"/-- loop {k_} of `{env.cls}.{env.fn}`: one iteration of the body -/",
             f"def {bname} {HEADER_CLASSES}",
             "    (E : Art.Imp.Ext Xt Wt P C α) " + " ".join(param_decl(v, env) for v in bfv) + " :",
             f"    {state_ty} → Art.Imp.Flow ({ret_type(env)}) ({state_ty}) :=",
             f"  fun {tup} =>"] + ind(body, 4)) + "\n")
        for v in carried:
            env._mark(v)
        after = tr_block(rest, env, k)
        return ([f"match Art.Imp.whileFuel ({cname} E {' '.join(cfv)}) ({bname} E {' '.join(bfv)}) fuel {tup} with",
                 f"| .ret r_ => {k.ret('r_')}", f"| .next {tup} =>"] + ind(after))
    if isinstance(s, ast.For):
        if s.orelse:
            raise Unsupported("for/else")
        it, ity = ext(s.iter, env)
        before = env.defined()

        def bind_target(e_):
            if isinstance(s.target, ast.Name):
                if isinstance(ity, tuple) and ity[0] == "enum":
                    raise Unsupported("enumerate needs two loop variables")
                nm = s.target.id if s.target.id != "_" else "it_"
                return e_.bind(nm, elem_ty(ity, "for"))
            if isinstance(s.target, ast.Tuple) and len(s.target.elts) == 2 and all(isinstance(t_, ast.Name) for t_ in s.target.elts) \
                    and isinstance(ity, tuple) and ity[0] == "enum":
                i_ = e_.bind(s.target.elts[0].id, "Nat")
                v_ = e_.bind(s.target.elts[1].id, ity[1])
                return f"({v_}, {i_})"          # List.zipIdx yields (value, index)
            if isinstance(s.target, ast.Tuple) and len(s.target.elts) == 2 and isinstance(s.target.elts[0], ast.Name) \
                    and isinstance(s.target.elts[1], ast.Tuple) and all(isinstance(t_, ast.Name) for t_ in s.target.elts[1].elts) \
                    and isinstance(ity, tuple) and ity[0] == "enum" and isinstance(ity[1], tuple) and ity[1][0] == "prod" \
                    and len(ity[1][1]) == len(s.target.elts[1].elts):
                i_ = e_.bind(s.target.elts[0].id, "Nat")
                vs_ = [e_.bind(t_.id, ty_) for t_, ty_ in zip(s.target.elts[1].elts, ity[1][1])]
                return f"(({', '.join(vs_)}), {i_})"
            raise Unsupported(f"for target {ast.unparse(s.target)}")
        d = env.copy()
        d.rec = []
        d.helpers = []
        d.loopn = [0]
        bind_target(d)
        d.rec = []
        tr_block(s.body, d, K(lambda e_: [], lambda t_: ""))
        carried = [v for v in d.rec if v in before]
        if not carried:
            raise Unsupported("for loop that changes nothing")
        tup = tuple_pat(carried)
        state_ty = lean_ty(("prod", [env.types[v] for v in carried])) if len(carried) > 1 else lean_ty(env.types[carried[0]])
        elem_lean = (f"({lean_ty(ity[1])}) × Nat" if isinstance(ity[1], tuple) and ity[1][0] == "prod" else
                     lean_ty(("prod", [ity[1], "Nat"]))) if ity[0] == "enum" else lean_ty(elem_ty(ity, "for"))
        be = env.copy()
        be.in_loop = True
        pat = bind_target(be)
        body = tr_block(s.body, be, K(lambda e_: [f".next {tup}"], lambda t_: f".ret {t_}"))
        env.loopn[0] += 1
        k_ = env.loopn[0]
        bname = f"{env.fn}_loop{k_}_body"
        own = set(__import__("re").findall(r"[A-Za-z_][A-Za-z_0-9]*", pat))
        bfv = free_vars("\n".join(body), env, exclude=list(carried) + list(own))
        fuel_p = "(fuel : Nat) " if " fuel" in "\n".join(body) else ""
        env.helpers.append("\n".join(
            [f"/-- loop {k_} of `{env.cls}.{env.fn}`: one iteration of `for {ast.unparse(s.target)} in {ast.unparse(s.iter)}` -/",
             f"def {bname} {HEADER_CLASSES}",
             "    (E : Art.Imp.Ext Xt Wt P C α) " + fuel_p + " ".join(param_decl(v, env) for v in bfv) + " :",
             f"    {state_ty} → {elem_lean} → Art.Imp.Flow ({ret_type(env)}) ({state_ty}) :=",
             f"  fun {tup} {pat} =>"] + ind(body, 4)) + "\n")
        for v in carried:
            env._mark(v)
        after = tr_block(rest, env, k)
        return ([f"match Art.Imp.forEach ({bname} E {'fuel ' if fuel_p else ''}{' '.join(bfv)}) {it} {tup} with",
                 f"| .ret r_ => {k.ret('r_')}", f"| .next {tup} =>"] + ind(after))
    raise Unsupported(f"statement {type(s).__name__}: {ast.unparse(s)[:80]}")


def nested_call(e):
    """self.<nested>.<method>(...) for a nested estimator of the profile"""
    if isinstance(e, ast.Call) and isinstance(e.func, ast.Attribute) and is_self_attr(e.func.value) in NESTED:
        return is_self_attr(e.func.value), e.func.attr, e
    return None


def call_nested(e: ast.Call, env: Env, target: str) -> list[str]:
    attr, m, call = nested_call(e)
    ncls = NESTED[attr]
    prof = PROFILES[ncls]
    if m not in prof["TRANSLATED"]:
        raise Unsupported(f"{ncls}.{m} is not translated")
    tree = env.trees[ncls]
    f = find_function(tree, ncls, m)
    names = [a_.arg for a_ in f.args.args[1:] if a_.arg not in IGNORED_PARAMS]
    given = {n_: a_ for n_, a_ in zip([a_.arg for a_ in f.args.args[1:]], call.args)}
    for kw in call.keywords:
        if kw.arg in given or kw.arg is None:
            raise Unsupported(f"{ncls}.{m}: keyword {kw.arg}")
        given[kw.arg] = kw.value
    lines, args = [], []
    for n_ in names:
        if n_ not in given:
            raise Unsupported(f"{ncls}.{m}: argument {n_} not supplied (defaults are not translated)")
        a_ = given[n_]
        if n_ in CALLBACKS:
            if not (isinstance(a_, ast.Name) and a_.id in env.lambdas):
                raise Unsupported(f"{ncls}.{m}: {n_} must be a lambda bound just before the call")
            sig = [("i", "Xt"), ("w", "Wt"), ("cluster", "Nat"), ("params", "P"), ("cache", "C")]
            lines.append(f"let {a_.id}_fn := {lambda_text(env.lambdas[a_.id], sig, env)}")
            args += ["false", f"{a_.id}_fn"]
        else:
            args.append(arg(a_, env))
    obj = SELF_FIELDS[attr][0]
    has_loop = any(isinstance(n_, ast.While) for n_ in ast.walk(f))
    fuel = f"({obj}.W).length " if has_loop else ""
    lines.append(f"let r_ := {prof['NAMESPACE']}.{m} E {fuel}{obj} " + " ".join(args))
    v = env.bind_self(attr)
    lines.append(f"let {v} := r_.1")
    t = env.bind(target, prof["METHOD_RET"][m])
    lines.append(f"let {t} := r_.2")
    return lines


def call_translated(m: str, call: ast.Call, env: Env, target: str) -> list[str]:
    """`t = self.m(args)` for a method translated on its own: pass the packed self, unpack the returned one"""
    f = find_function(env.tree, env.cls, m)
    names = [a_.arg for a_ in f.args.args[1:] if a_.arg not in IGNORED_PARAMS]
    given = {n_: a_ for n_, a_ in zip([a_.arg for a_ in f.args.args[1:]], call.args)}
    for kw in call.keywords:
        if kw.arg in given or kw.arg is None:
            raise Unsupported(f"{m}: keyword {kw.arg}")
        given[kw.arg] = kw.value
    args = []
    for n_ in names:
        if n_ not in given:
            raise Unsupported(f"{m}: argument {n_} not supplied at the call (defaults are not translated)")
        a_ = given[n_]
        if n_ in CALLBACKS:
            if not (isinstance(a_, ast.Name) and a_.id in env.callbacks):
                raise Unsupported(f"{m}: {n_} must be passed through")
            args += [env.names[a_.id] + "_is_none", env.names[a_.id]]
        else:
            args.append(arg(a_, env))
    extra = set(given) - set(names) - IGNORED_PARAMS
    if extra:
        raise Unsupported(f"{m}: unexpected arguments {sorted(extra)}")
    fuel = "(self_W).length " if method_has_loop(env.tree, env.cls, m) else ""
    lines = [f"let r_ := {m} E {fuel}{self_pack()} " + " ".join(args)]
    lines += self_unpack("r_.1", env)
    v = env.bind(target, METHOD_RET[m])
    lines.append(f"let {v} := r_.2")
    return lines


def translate_method(tree, cls: str, name: str, trees=None) -> str:
    f = find_function(tree, cls, name)
    env = Env(tree, cls)
    env.trees = trees or {}
    env.fn = name
    env.ret_ty = METHOD_RET[name]
    params = []
    a = f.args
    if a.vararg or a.kwarg or a.kwonlyargs or a.posonlyargs:
        raise Unsupported(f"{name}: signature")
    for x in a.args[1:]:
        if x.arg in IGNORED_PARAMS:
            continue
        if x.arg in CALLBACKS:
            env.callbacks.add(x.arg)
            env.names[x.arg] = x.arg
            params += [f"({x.arg}_is_none : Bool)", f"({x.arg} : {CALLBACK_TYPE[x.arg]})"]
        elif x.arg in PARAM_TYPES:
            env.names[x.arg] = x.arg
            env.types[x.arg] = PARAM_TYPES[x.arg]
            params.append(f"({x.arg} : {lean_ty(PARAM_TYPES[x.arg])})")
        else:
            raise Unsupported(f"{name}: parameter {x.arg}")

    def no_fall(e_):
        raise Unsupported(f"{name}: a path ends without return")
    body = tr_block(f.body, env, K(no_fall, lambda t_: t_))
    fuel = "(fuel : Nat) " if method_has_loop(tree, cls, name) else ""
    head = [f"/-- generated from `{cls}.{name}` -/",
            f"def {name} {HEADER_CLASSES}",
            f"    (E : Art.Imp.Ext Xt Wt P C α) {fuel}(self : {SELF_TY}) " + " ".join(params) + " :",
            f"    {ret_type(env)} :="]
    pre = [f"let {v} := self.{fld}" for v, fld in SELF_FIELDS.values()]
    return "\n".join(env.helpers) + ("\n" if env.helpers else "") + "\n".join(head + ind(pre + body)) + "\n"


def generate(repo: Path) -> str:
    trees = {c: ast.parse((repo / PROFILES[c]["FILE"]).read_text()) for c in PROFILES}
    chunks = ["/-",
              "GENERATED by harness/artv/ctrans.py from artlib/common/BaseART.py and artlib/supervised/SimpleARTMAP.py — do not edit.",
              "Regenerated on every run of the checks that name it; `ArtGenProofs/ControlSpec.lean` / `ControlFit.lean` prove the",
              "definitions equal to the model's `stepFit`, `stepPred`, `predict`, `partialFit`, `fitEpochs`, `smapStep`, … for all arguments.",
              "-/",
              "import ArtModel.Imp",
              "import ArtModel.Search",
              "import ArtModel.ARTMAP",
              "",
              "set_option linter.unusedVariables false",
              ""]
    for cls in ("BaseART", "SimpleARTMAP"):
        use_profile(cls)
        chunks += [f"namespace {PROFILES[cls]['NAMESPACE']}", ""]
        for m in PROFILES[cls]["TRANSLATED"]:
            chunks.append(translate_method(trees[cls], cls, m, trees))
        chunks += [f"end {PROFILES[cls]['NAMESPACE']}", ""]
    use_profile("BaseART")
    return "\n".join(chunks)


def write(repo: Path = None) -> tuple[bool, str]:
    repo = Path(repo or os.environ.get("VERIF_REPO", "/repo"))
    out = VERIF / "lean" / "ArtGen" / "Control.lean"
    try:
        text = generate(repo)
        ok, msg = True, "generated"
    except (Unsupported, SyntaxError, OSError) as e:
        use_profile("BaseART")
        text = f"/- GENERATION FAILED: {e} -/\nnamespace Art.Gen.BaseART\nend Art.Gen.BaseART\n"
        ok, msg = False, f"control translator failed closed: {e}"
    if not out.exists() or out.read_text() != text:
        out.write_text(text)
    return ok, msg


if __name__ == "__main__":
    ok, msg = write(Path(sys.argv[1]) if len(sys.argv) > 1 else None)
    print(msg)
    print((VERIF / "lean" / "ArtGen" / "Control.lean").read_text())
    sys.exit(0 if ok else 1)
