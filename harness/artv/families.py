"""Estimator families: a uniform way to build any public estimator with valid
hyper-parameters and matching valid data, and to call fit / partial_fit /
predict on slices of one ordered stream."""
from __future__ import annotations

import random
from copy import deepcopy
from typing import Any, Optional

import numpy as np

from . import gen, specs
from .impl import make, quiet as _quiet, full_snapshot, MODES, time_limit
import contextlib


# generous: the watchdog is there to turn a genuinely non-terminating call into a finding, not to police speed
WATCHDOG_S = 90.0


@contextlib.contextmanager
def quiet():
    """silence prints and bound the run time of every call into the implementation"""
    with _quiet(), time_limit(WATCHDOG_S):
        yield


ELEM = specs.ELEM


class Rows:
    """an ordered stream of samples (possibly several aligned arrays)"""

    def __init__(self, **arrs):
        self.arrs = arrs

    def __len__(self):
        a = next(iter(self.arrs.values()))
        return len(a[0]) if isinstance(a, list) else len(a)

    def sl(self, i, j):
        out = {}
        for k, a in self.arrs.items():
            out[k] = [t[i:j] for t in a] if isinstance(a, list) else a[i:j]
        return Rows(**out)

    def buffers(self, cap):
        """pre-allocated batch buffers (one per array, float64 / the array's own dtype) for `sl_into`"""
        def mk(t):
            return np.empty((cap,) + t.shape[1:], dtype=t.dtype)
        return {k: ([mk(t) for t in a] if isinstance(a, list) else mk(a)) for k, a in self.arrs.items()}

    def sl_into(self, bufs, i, j):
        """rows i:j copied into the caller's reused buffers; returns views of the buffers (what a streaming caller that
        recycles one batch array hands to partial_fit)"""
        out = {}
        for k, a in self.arrs.items():
            if isinstance(a, list):
                for t, b in zip(a, bufs[k]):
                    b[: j - i] = t[i:j]
                out[k] = [b[: j - i] for b in bufs[k]]
            else:
                bufs[k][: j - i] = a[i:j]
                out[k] = bufs[k][: j - i]
        return Rows(**out)

    def take(self, idx):
        out = {}
        for k, a in self.arrs.items():
            out[k] = [t[idx] for t in a] if isinstance(a, list) else a[idx]
        return Rows(**out)

    def concat(self, other):
        out = {}
        for k, a in self.arrs.items():
            b = other.arrs[k]
            out[k] = [np.concatenate([t, u]) for t, u in zip(a, b)] if isinstance(a, list) else np.concatenate([a, b])
        return Rows(**out)

    def copy(self):
        return Rows(**{k: ([t.copy() for t in a] if isinstance(a, list) else a.copy()) for k, a in self.arrs.items()})

    def tolist(self):
        return {k: ([t.tolist() for t in a] if isinstance(a, list) else a.tolist()) for k, a in self.arrs.items()}


class Family:
    name = "?"
    has_fit = True
    has_pfit = True
    has_predict = True
    generic_search = True      # per-category counters are meaningful (C05)
    pruning = False

    def __init__(self, spec: dict, mode: str = "MT+", eps: float = 0.0):
        self.spec, self.mode, self.eps = spec, mode, eps

    def make(self):
        return make(deepcopy(self.spec))

    # training keyword arguments (mode/eps) — compound estimators pass them down
    def kw(self):
        return dict(match_tracking=self.mode, epsilon=self.eps)

    def fit(self, est, rows: Rows):
        with quiet():
            return est.fit(rows.arrs["X"], **self.kw())

    def pfit(self, est, rows: Rows):
        with quiet():
            return est.partial_fit(rows.arrs["X"], **self.kw())

    def predict(self, est, rows: Rows):
        with quiet():
            return est.predict(rows.arrs["X"])

    def snap(self, est, model_only: bool = True) -> dict:
        """observable trained model: weights, labels (all levels), maps, adjacency, bounds.
        `model_only` drops hyper-parameters (C07's business) and sample counters (C05's)."""
        s = full_snapshot(est)
        return strip(s, DROP | (DROP_MODEL if model_only else set()))

    def describe(self):
        return {"family": self.name, "spec": self.spec, "mode": self.mode, "eps": self.eps}

    # objects whose counters follow the generic search: (object, labels getter)
    def counter_objects(self, est) -> list:
        return [est]


DROP = {"classes_", "is_fitted_", "dim_", "rows_", "columns_"}
DROP_MODEL = {"params", "cnt", "n"}


def strip(s, drop=DROP):
    if isinstance(s, dict):
        return {k: strip(v, drop) for k, v in s.items() if k not in drop}
    if isinstance(s, list):
        return [strip(v, drop) for v in s]
    return s


class Elem(Family):
    def __init__(self, cls, spec, mode, eps):
        super().__init__(spec, mode, eps)
        self.name = cls
        self.cls = cls


class Fusion(Family):
    name = "FusionART"

    def counter_objects(self, est):
        return list(est.modules)


class SMap(Family):
    name = "SimpleARTMAP"

    def fit(self, est, rows):
        with quiet():
            return est.fit(rows.arrs["X"], rows.arrs["y"], **self.kw())

    def pfit(self, est, rows):
        with quiet():
            return est.partial_fit(rows.arrs["X"], rows.arrs["y"], **self.kw())

    def counter_objects(self, est):
        return [est.module_a]


class AMap(SMap):
    name = "ARTMAP"

    def counter_objects(self, est):
        return [est.module_a, est.module_b]


class Deep(Family):
    name = "DeepARTMAP"
    generic_search = True

    def __init__(self, spec, mode, eps, supervised):
        super().__init__(spec, mode, eps)
        self.supervised = supervised
        self.name = "DeepARTMAP-sup" if supervised else "DeepARTMAP-unsup"

    def fit(self, est, rows):
        with quiet():
            return est.fit(rows.arrs["Xs"], rows.arrs["y"] if self.supervised else None, **self.kw())

    def pfit(self, est, rows):
        with quiet():
            return est.partial_fit(rows.arrs["Xs"], rows.arrs["y"] if self.supervised else None, **self.kw())

    def predict(self, est, rows):
        with quiet():
            return [np.asarray(p) for p in est.predict(rows.arrs["Xs"])]

    def counter_objects(self, est):
        return list(est.modules)


class Smart(Family):
    name = "SMART"

    def predict(self, est, rows):
        with quiet():
            return [np.asarray(p) for p in est.predict(rows.arrs["X"])]

    def counter_objects(self, est):
        return list(est.modules)


class Falcon(Family):
    name = "FALCON"
    has_predict = False

    def kw(self):
        return {}

    def make(self):
        est = make(deepcopy(self.spec))
        # documented workflow: data goes through prepare_data first, which also fixes the
        # column bounds that get_cluster_centers / restore_data need; bounds [0,1] = identity
        dims = [d // 2 for d in self.spec["channel_dims"]]
        with quiet():
            est.prepare_data(*[np.array([[0.0] * d, [1.0] * d]) for d in dims])
        return est

    def fit(self, est, rows):
        with quiet():
            return est.fit(rows.arrs["S"], rows.arrs["A"], rows.arrs["R"])

    def pfit(self, est, rows):
        with quiet():
            return est.partial_fit(rows.arrs["S"], rows.arrs["A"], rows.arrs["R"])

    def counter_objects(self, est):
        return list(est.fusion_art.modules)


class TDFalcon(Falcon):
    name = "TD_FALCON"
    has_fit = False


class Dual(Family):
    name = "DualVigilanceART"
    generic_search = False


class Topo(Family):
    name = "TopoART"
    generic_search = False
    pruning = True


class Cvi(Family):
    name = "CVIART"
    has_pfit = False

    def counter_objects(self, est):
        return [est.base_module]


class ICvi(Family):
    name = "iCVIFuzzyART"
    has_pfit = False


# ------------------------------------------------------------------ builders


def _elem(r, cls, d):
    return specs.elem_spec(r, cls, specs.width(cls, d) if cls != "FuzzyART" else d)


def build(r: random.Random, name: str, n: int, floats: bool = False, mode: Optional[str] = None,
          eps: Optional[float] = None) -> tuple[Family, Rows]:
    """a family instance with random valid hyper-parameters and a valid stream of n samples; `fam.fresh(r, k)`
    draws k further valid rows of the same layout (queries that were never trained on)"""
    fam, rows = _build(r, name, n, floats, mode, eps)
    groups = fam.groups

    def fresh(r2, k, floats2=False):
        def block(gs):
            return np.hstack([specs.elem_data(r2, c, k, dd, floats=floats2 and c != "ART1") for c, dd in gs])
        out = {}
        for key, a in rows.arrs.items():
            if key == "X":
                out[key] = block(groups)
            elif key == "Xs":
                out[key] = [block([g]) for g in groups]
            else:
                out[key] = a[[r2.randrange(len(a)) for _ in range(k)]] if not isinstance(a, list) else a
        return Rows(**out)
    fam.fresh = fresh if groups and ("X" in rows.arrs or "Xs" in rows.arrs) else None
    return fam, rows


def _build(r, name, n, floats, mode, eps):
    mode = mode or r.choice(MODES)
    eps = r.choice([0.0, 2.0 ** -20, 2.0 ** -10, 1e-10]) if eps is None else eps
    d = r.randint(1, 3)
    if name in ELEM:
        spec = _elem(r, name, d)
        f = Elem(name, spec, mode, eps)
        f.groups = [(name, d)]
        return f, Rows(X=specs.elem_data(r, name, n, d, floats=floats and name != "ART1"))
    if name == "FusionART":
        k = r.randint(1, 3)
        pool = ["FuzzyART", "FuzzyART", "ART2A"] if r.random() < 0.6 else \
            ["FuzzyART", "HypersphereART", "EllipsoidART", "GaussianART", "BayesianART", "QuadraticNeuronART", "ART1"]
        chans = [r.choice(pool) for _ in range(k)]
        ds = [r.randint(1, 2) for _ in range(k)]
        sp = [_elem(r, c, dd) for c, dd in zip(chans, ds)]
        gam = {1: [1.0], 2: r.choice([[0.5, 0.5], [0.25, 0.75]]), 3: r.choice([[0.5, 0.25, 0.25], [0.25, 0.25, 0.5]])}[k]
        dims = [specs.width(c, dd) for c, dd in zip(chans, ds)]
        spec = {"cls": "FusionART", "modules": sp, "gamma_values": gam, "channel_dims": dims}
        X = np.hstack([specs.elem_data(r, c, n, dd, floats=floats and c != "ART1") for c, dd in zip(chans, ds)])
        f = Fusion(spec, mode, eps)
        f.groups = list(zip(chans, ds))
        return f, Rows(X=X)
    if name == "SimpleARTMAP":
        a = r.choice(ELEM)
        spec = {"cls": "SimpleARTMAP", "module_a": _elem(r, a, d)}
        X = specs.elem_data(r, a, n, d, floats=floats and a != "ART1")
        y = gen.labels(r, n, r.randint(1, 4))
        f = SMap(spec, mode, eps)
        f.groups = [(a, d)]
        f.a_cls = a
        return f, Rows(X=X, y=y)
    if name == "ARTMAP":
        a = r.choice(ELEM)
        b = r.choice(["FuzzyART", "HypersphereART", "ART2A", "FuzzyART"])
        db = r.randint(1, 2)
        spec = {"cls": "ARTMAP", "module_a": _elem(r, a, d), "module_b": _elem(r, b, db)}
        X = specs.elem_data(r, a, n, d, floats=floats and a != "ART1")
        y = specs.elem_data(r, b, n, db, style=r.choice(["coarse", "dups"]))
        f = AMap(spec, mode, eps)
        f.groups = [(a, d)]
        f.a_cls, f.b_cls = a, b
        return f, Rows(X=X, y=y)
    if name in ("DeepARTMAP-sup", "DeepARTMAP-unsup"):
        sup = name.endswith("-sup")
        k = r.randint(2, 4) if not sup else r.randint(1, 3)
        cls = [r.choice(["FuzzyART", "FuzzyART", "HypersphereART", "ART2A", "ART1"]) for _ in range(k)]
        ds = [r.randint(1, 3) for _ in range(k)]
        spec = {"cls": "DeepARTMAP", "modules": [_elem(r, c, dd) for c, dd in zip(cls, ds)]}
        Xs = [specs.elem_data(r, c, n, dd) for c, dd in zip(cls, ds)]
        y = gen.labels(r, n, r.randint(1, 3))
        f = Deep(spec, mode, eps, sup)
        f.groups = list(zip(cls, ds))
        return f, Rows(Xs=Xs, y=y)
    if name == "SMART":
        base = r.choice(["FuzzyART", "FuzzyART", "HypersphereART", "ART2A", "EllipsoidART"])
        k = r.randint(2, 4)
        rhos = sorted(r.sample([0.0, 0.125, 0.25, 0.375, 0.5, 0.625, 0.75, 0.875, 1.0], k))
        bp = {kk: v for kk, v in _elem(r, base, d).items() if kk not in ("cls", "rho")}
        if bp.get("alpha") == 0.0:
            bp["alpha"] = 2.0 ** -10
        spec = {"cls": "SMART", "base": base, "rho_values": rhos, "base_params": bp}
        f = Smart(spec, mode, eps)
        f.groups = [(base, d)]
        return f, Rows(X=specs.elem_data(r, base, n, d))
    if name in ("FALCON", "TD_FALCON"):
        ds_, da = r.randint(1, 2), r.randint(1, 2)
        sp = [_elem(r, "FuzzyART", ds_), _elem(r, "FuzzyART", da), _elem(r, "FuzzyART", 1)]
        spec = {"cls": name, "state_art": sp[0], "action_art": sp[1], "reward_art": sp[2],
                "gamma_values": r.choice([[0.25, 0.25, 0.5], [0.5, 0.25, 0.25]]), "channel_dims": [2 * ds_, 2 * da, 2]}
        if name == "TD_FALCON":
            spec["td_alpha"] = r.choice([0.0, 0.25, 0.5, 1.0])
            spec["td_lambda"] = r.choice([0.0, 0.25, 0.5, 1.0])
        S = gen.cc(gen.grid_rows(r, n, ds_))
        A = gen.cc(gen.grid_rows(r, n, da, style="coarse"))
        R = gen.cc(gen.grid_rows(r, n, 1, style="coarse"))
        f = (TDFalcon if name == "TD_FALCON" else Falcon)(spec, mode, eps)
        f.groups = []
        return f, Rows(S=S, A=A, R=R)
    if name == "DualVigilanceART":
        base = r.choice(["FuzzyART", "HypersphereART", "ART2A", "EllipsoidART", "ART1", "QuadraticNeuronART", "GaussianART"])
        bs = _elem(r, base, d)
        if bs["rho"] == 0.0:
            bs["rho"] = 0.5
        lb = r.choice([x for x in [0.0, 0.125, 0.25, 0.375, 0.5, 0.75] if x < bs["rho"]])
        spec = {"cls": "DualVigilanceART", "base_module": bs, "rho_lower_bound": lb}
        f = Dual(spec, mode, eps)
        f.groups = [(base, d)]
        return f, Rows(X=specs.elem_data(r, base, n, d, floats=floats and base != "ART1"))
    if name == "TopoART":
        base = r.choice(specs.HAS_BETA)
        bs = _elem(r, base, d)
        tau = r.randint(2, 8)
        phi = r.randint(1, tau)
        spec = {"cls": "TopoART", "base_module": bs, "beta_lower": r.choice([b for b in [0.0, 0.25, 0.5, 1.0] if b <= bs["beta"]]),
                "tau": tau, "phi": phi}
        f = Topo(spec, mode, eps)
        f.groups = [(base, d)]
        return f, Rows(X=specs.elem_data(r, base, n, d, floats=floats))
    if name == "CVIART":
        n = min(n, 24)      # every candidate evaluates an O(n^2) sklearn index twice
        base = r.choice(["FuzzyART", "HypersphereART", "FuzzyART"])
        spec = {"cls": "CVIART", "base_module": _elem(r, base, max(d, 2)), "validity": r.choice([1, 2, 3])}
        f = Cvi(spec, mode, eps)
        f.groups = [(base, max(d, 2))]
        return f, Rows(X=specs.elem_data(r, base, n, max(d, 2)))
    if name == "iCVIFuzzyART":
        p = gen.fuzzy_params(r)
        spec = {"cls": "iCVIFuzzyART", **p, "validity": 1, "offline": r.random() < 0.5}
        f = ICvi(spec, mode, eps)
        f.groups = [("FuzzyART", max(d, 2))]
        return f, Rows(X=gen.cc(gen.grid_rows(r, n, max(d, 2))))
    raise KeyError(name)


ALL_FAMILIES = ELEM + ["FusionART", "SimpleARTMAP", "ARTMAP", "DeepARTMAP-sup", "DeepARTMAP-unsup", "SMART",
                       "FALCON", "TD_FALCON", "DualVigilanceART", "TopoART", "CVIART", "iCVIFuzzyART"]
