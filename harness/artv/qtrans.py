"""Estimator-protocol translator: the Python AST of `BaseART.__init__ / __getattr__ / __setattr__ / get_params /
set_params` and of the constructors and `validate_params` of the eight elementary classes
->  Lean 4 definitions (`lean/ArtGen/Params.lean`, namespace `Art.Gen.Params`).

Sources (parsed with `ast`, never imported):
  artlib/common/BaseART.py                               class BaseART: the five protocol methods
  artlib/elementary/{ART1,ART2,FuzzyART,HypersphereART,EllipsoidART,GaussianART,BayesianART,QuadraticNeuronART}.py
                                                         __init__ (signature, defaults, params dict) and validate_params
`lean/ArtGenProofs/ParamsSpec.lean` proves the generated definitions equal to the protocol model of
`ArtModel/Params.lean` (`validate` of the class table, `construct`, `getAttr`, `setAttr`, `getParams`, `setParams`)
and transports the C19 theorems to the generated definitions.

Two monads (`lean/ArtModel/ImpParams.lean`):
  * a static `validate_params` writes nothing: a `do` block in `Except Err` (`.error` = the Python code raises);
  * a method is a `do` block in `Q.M = Q.Py Q.World`, which returns the state *as it is when the call ends, normally
    or by raising* — "validate before assign" is a property of the generated term, not an assumption.
    `World.self` is the instance `__dict__`, `World.calls` the log of calls made to nested estimators.
Static types of the translation: str, bool, num (a number literal), val (a dynamically typed Python value, `Val`),
truth (the result of a comparison on a `val`: a bool or a Boolean array), store (`dict[str, val]`, `Store`), nested
(`dict[str, store]`), slot (what a `__dict__` entry holds: the params dict or a val), objdict (`self.__dict__`),
strlist, items (`d.items()`).   `lift a` = `(← a)` in a static function, `(← Q.Py.lift (a))` in a method.

The translation (one fixed rendering per construct; ⟦e⟧ = the rendering of e):
  statements
    "docstring"                              ->  dropped (DROPPED)
    warn("…")                                ->  dropped (DROPPED)
    assert c [, msg]                         ->  Q.assert ⟦c as bool⟧                (message dropped)
        as bool:  bool -> itself;  truth t -> lift (Q.truth t)  [`bool(array)`: ValueError unless one element];
                  store/nested d -> Q.dictTruth d;  str s -> Q.strTruth s
    x = e                                    ->  let x := ⟦e⟧
    a, b, c = e       (e a 3-tuple)          ->  let (a, b, c) := ⟦e⟧
    x = self.get_params(…)                   ->  let _ ← BaseART.get_params …  and x becomes an ALIAS of the dict object
                                                 `self.params` — only when the translated `get_params` body is literally
                                                 `return self.params` (a reference, no copy); otherwise `let x ← …` (a snapshot).
                                                 A load of an alias is `(← Q.selfParams)` (the dict as it is *now*),
                                                 `x[k] = v` through an alias is `Q.paramsSetitem k v`
    x[k] = v          (x a local store)      ->  let x := Q.dset x ⟦k⟧ ⟦v⟧
    x[k1][k2] = v     (x a defaultdict(dict))->  let x := Q.ddset2 x ⟦k1⟧ ⟦k2⟧ ⟦v⟧
    self.params[k] = v                       ->  Q.paramsSetitem ⟦k⟧ ⟦v as val⟧     (a slot as val: lift (Q.asVal v))
    self.a = e  /  self.a: T = e             ->  BaseART.__setattr__ "a" ⟦e as slot⟧ (the class defines __setattr__: every
                                                 attribute store on self is a call of the translated method)
    setattr(self, k, v)                      ->  BaseART.__setattr__ ⟦k⟧ ⟦v as slot⟧   (val v -> Q.Slot.val v; store d -> Q.Slot.dict d)
    super().__setattr__(k, v)   (in BaseART) ->  Q.objectSetattr ⟦k⟧ ⟦v⟧            (BaseART's bases are sklearn's BaseEstimator,
                                                 ClusterMixin: `object.__setattr__`, trusted)
    super().__init__(params)    (in class C) ->  BaseART.__init__ C.validate_params ⟦params⟧     (C's base must be BaseART;
                                                 `self.validate_params` inside is C's: dynamic dispatch made explicit)
    self.validate_params(d)                  ->  Q.Py.lift (validate_params ⟦d⟧)     (a parameter of the generated method)
    ⟨val⟩.set_params(**d)                    ->  ext_set_params ⟦val⟧ ⟦d⟧            (a nested estimator's method: a parameter)
    if c: A [else: B]  where A ends in return/raise, followed by the rest R
                                             ->  if ⟦c as bool⟧ then ⟦A⟧ else ⟦B; R⟧
    if c: A else: B   (last statement)       ->  if ⟦c as bool⟧ then ⟦A⟧; tail  else ⟦B⟧; tail      (tail = what the block yields)
    for a, b in e: B  (e items)              ->  let (vars) ← Q.Py.forEach ⟦e⟧ (vars) (fun (a, b) (vars) => do ⟦B⟧; pure (vars))
                                                 vars = the local variables bound before the loop that B re-binds; names
                                                 first bound inside B go out of scope after the loop
    return self                              ->  pure ()            (the caller already holds the object)
    return e                                 ->  pure ⟦e⟧
    raise ValueError(…) / AttributeError(…)  ->  Q.Py.raise Err.value / Err.attr     (the message is dropped)
    falling off the end                      ->  pure ()
  expressions
    "s", True/False, None                    ->  "s", true/false, Val.non
    1.0, 0, 1e-10 next to a val              ->  (1 : Rat), (0 : Rat), (mkRat n d)   the exact value of the literal (int or double)
    0, [], 1e-10 stored as a value           ->  (Val.int 0), (Val.lst []), (Val.flt (mkRat n d))
    {"k": e, …}                              ->  ([("k", ⟦e⟧), …] : Store)
    dict() / dict(d) / defaultdict(dict)     ->  ([] : Store) / ⟦d⟧ (a copy is the same value) / ([] : List (String × Store))
    d[k]              (d store, k str)       ->  lift (Q.getitem ⟦d⟧ ⟦k⟧)            (KeyError)
    k in d / k not in d   (d store)          ->  Q.dhas ⟦d⟧ ⟦k⟧ / (!Q.dhas ⟦d⟧ ⟦k⟧)
    k in s            (s slot)               ->  lift (Q.slotHas ⟦s⟧ ⟦k⟧)
    not c                                    ->  (!⟦c as bool⟧)
    v op c / c op v   (val, num; op < <= > >=)   ->  lift (Q.cmpVN op ⟦v⟧ c) / lift (Q.cmpNV op c ⟦v⟧)     : truth
    c1 op1 v op2 c2                          ->  let t ← ⟦v⟧ (evaluated once);  lift (Q.chain (Q.cmpNV op1 c1 t) (fun _ => Q.cmpVN op2 t c2))
    isinstance(v, float | np.ndarray)        ->  Q.isinstance ⟦v⟧ Q.PyType.float | .ndarray
    np.all(t)         (t truth)              ->  Q.npAll ⟦t⟧
    s.partition("sep")                       ->  Q.partition ⟦s⟧ "sep"
    d.keys() / list(ks) / d.items()          ->  Q.dkeys ⟦d⟧ / ⟦ks⟧ / Q.items ⟦d⟧
    self.params                              ->  (← Q.selfParams)
    self.__dict__ / D.get(k, {})  (D objdict)->  (← Q.selfDict) / Q.dgetD ⟦D⟧ ⟦k⟧ (Q.Slot.dict [])
    self.get_params(deep=b)                  ->  (← BaseART.get_params b)
  definitions
    C.__init__(self, a: T, b: T = lit)       ->  C.args := ["a", "b"], C.defaults := [("b", lit as value)], C.__init__ (a b : Val)
    @staticmethod validate_params(params)    ->  C.validate_params (params : Store) : Except Err Unit
Anything else raises `Unsupported`: the translator fails closed.
"""
from __future__ import annotations

import ast
import os
from fractions import Fraction
from pathlib import Path

from .ktrans import Unsupported

VERIF = Path(__file__).resolve().parents[2]

ELEM = ["ART1", "ART2A", "FuzzyART", "HypersphereART", "EllipsoidART", "GaussianART", "BayesianART", "QuadraticNeuronART"]
FILES = {
    "BaseART": "artlib/common/BaseART.py",
    "ART1": "artlib/elementary/ART1.py",
    "ART2A": "artlib/elementary/ART2.py",
    "FuzzyART": "artlib/elementary/FuzzyART.py",
    "HypersphereART": "artlib/elementary/HypersphereART.py",
    "EllipsoidART": "artlib/elementary/EllipsoidART.py",
    "GaussianART": "artlib/elementary/GaussianART.py",
    "BayesianART": "artlib/elementary/BayesianART.py",
    "QuadraticNeuronART": "artlib/elementary/QuadraticNeuronART.py",
}

DROPPED = {
    "docstrings": "a string expression statement has no effect",
    "assert messages": "`assert c, msg`: only `c` decides whether AssertionError is raised",
    "exception messages": "`raise ValueError(f\"…{self}…\")`: only the exception type is observable to the protocol; the f-string "
                          "(which calls repr(self), i.e. sklearn's pretty-printer over get_params()) is not evaluated in the model",
    "warn(\"…\")": "ART2A.__init__ emits a Python warning: no effect on the object",
    "type annotations": "`x: T = e` is `x = e`; parameter annotations are only compared with the signature table",
    "return self": "rendered as `pure ()`: the caller already holds the object, identity is not modelled",
    "dict(d)": "a shallow copy of a dict is the same *value*; that the copy is a different object is what makes later "
               "writes to it invisible to `self.params` — which is how a local `Store` variable behaves",
}

BASE_METHODS = ["__getattr__", "__setattr__", "get_params", "__init__", "set_params"]
# parameters after self: (name, type, annotation text or None, default text or None); "**" marks the keyword dict
BASE_SIG = {
    "__getattr__": ([("key", "str", None, None)], "val"),
    "__setattr__": ([("key", "str", None, None), ("value", "slot", None, None)], "unit"),
    "get_params": ([("deep", "bool", "bool", "True")], "store"),
    "__init__": ([("params", "store", "Dict", None)], "unit"),
    "set_params": ([("**params", "store", None, None)], "unit"),
}
# which generated methods need the class's validate_params / the nested estimator's set_params as parameters
BASE_EXT = {"__init__": ["validate_params"], "set_params": ["validate_params", "ext_set_params"]}
EXT_TYPES = {"validate_params": "Store → Except Err Unit", "ext_set_params": "Val → Store → Q.M Unit"}

LTY = {"str": "String", "bool": "Bool", "val": "Val", "store": "Store", "nested": "List (String × Store)",
       "slot": "Q.Slot", "unit": "Unit", "truth": "Q.Truth", "strlist": "List String"}
CMP = {ast.GtE: "ge", ast.Gt: "gt", ast.LtE: "le", ast.Lt: "lt"}
RAISES = {"ValueError": "value", "AttributeError": "attr", "TypeError": "type", "KeyError": "key", "AssertionError": "assert"}


def src(e) -> str:
    return ast.unparse(e)


def lstr(s: str) -> str:
    if not all(c.isalnum() or c in "_ " for c in s):
        raise Unsupported(f"string literal {s!r}")
    return '"' + s + '"'


def rat(fr: Fraction) -> str:
    if fr.denominator == 1:
        return f"({fr.numerator} : Rat)" if fr.numerator >= 0 else f"(-{-fr.numerator} : Rat)"
    if fr.numerator < 0:
        raise Unsupported(f"negative literal {fr}")
    return f"(mkRat {fr.numerator} {fr.denominator})"


def lit_value(v) -> Fraction:
    if isinstance(v, bool) or not isinstance(v, (int, float)):
        raise Unsupported(f"constant {v!r}")
    fr = Fraction(v)             # the exact value of the int / of the double
    return fr


def is_num(t):
    return isinstance(t, tuple) and t[0] == "num"


class Ctx:
    def __init__(self, cls: str, method: str, mode: str, returns_params_ref: bool = False):
        self.cls = cls
        self.method = method
        self.mode = mode                  # "exc" (static function) | "py" (method)
        self.vars: dict[str, object] = {}     # name -> type, or ("alias",) for an alias of self.params
        self.pre: list[str] = []          # statements to emit before the current one (temporaries)
        self.fresh = 0
        self.ext: list[str] = []
        self.ret = None
        self.returns_params_ref = returns_params_ref

    def lift(self, act: str) -> str:
        return f"(← Q.Py.lift ({act}))" if self.mode == "py" else f"(← {act})"

    def tmp(self) -> str:
        self.fresh += 1
        return f"t{self.fresh}__"

    def need(self, e: str):
        if e not in BASE_EXT.get(self.method, []):
            raise Unsupported(f"{self.cls}.{self.method} uses {e}")
        if e not in self.ext:
            self.ext.append(e)


def self_attr(e):
    if isinstance(e, ast.Attribute) and isinstance(e.value, ast.Name) and e.value.id == "self":
        return e.attr
    return None


def is_super_call(e, attr):
    """super().attr(...)"""
    return (isinstance(e, ast.Call) and isinstance(e.func, ast.Attribute) and e.func.attr == attr
            and isinstance(e.func.value, ast.Call) and isinstance(e.func.value.func, ast.Name)
            and e.func.value.func.id == "super" and not e.func.value.args and not e.func.value.keywords)


def as_bool(text, t, cx: Ctx) -> str:
    if t == "bool":
        return text
    if t == "truth":
        return cx.lift(f"Q.truth {text}")
    if t in ("store", "nested"):
        return f"(Q.dictTruth {text})"
    if t == "str":
        return f"(Q.strTruth {text})"
    raise Unsupported(f"truth value of {t}")


def as_val(text, t, cx: Ctx) -> str:
    if t == "val":
        return text
    if t == "slot":
        return cx.lift(f"Q.asVal {text}")
    if is_num(t):
        return f"(Val.int {t[1]})" if t[2] == "int" else f"(Val.flt {rat(t[1])})"
    raise Unsupported(f"{text} : {t} used as a value")


def as_slot(text, t, cx: Ctx) -> str:
    if t == "slot":
        return text
    if t == "store":
        return f"(Q.Slot.dict {text})"
    return f"(Q.Slot.val {as_val(text, t, cx)})"


def ex(e: ast.AST, cx: Ctx):
    """expression -> (Lean text, type); the text may contain nested actions `(← …)`; temporaries go to cx.pre"""
    if isinstance(e, ast.Constant):
        v = e.value
        if isinstance(v, str):
            return lstr(v), "str"
        if isinstance(v, bool):
            return ("true" if v else "false"), "bool"
        if v is None:
            return "Val.non", "val"
        fr = lit_value(v)
        return rat(fr), ("num", fr if isinstance(v, float) else v, "int" if isinstance(v, int) else "float")
    if isinstance(e, ast.Name):
        if e.id not in cx.vars:
            raise Unsupported(f"unknown name {e.id}")
        t = cx.vars[e.id]
        if t == ("alias",):
            return "(← Q.selfParams)", "store"
        return e.id, t
    if isinstance(e, ast.List):
        if e.elts:
            raise Unsupported(f"list literal {src(e)}")
        return "(Val.lst [])", "val"
    if isinstance(e, ast.Dict):
        if not e.keys:
            raise Unsupported("`{}` outside `.get(k, {})`")
        parts = []
        for k, v in zip(e.keys, e.values):
            if not (isinstance(k, ast.Constant) and isinstance(k.value, str)):
                raise Unsupported(f"dict key {src(k) if k else '**'}")
            vt, vty = ex(v, cx)
            parts.append(f"({lstr(k.value)}, {as_val(vt, vty, cx)})")
        return "([" + ", ".join(parts) + "] : Store)", "store"
    a = self_attr(e)
    if a is not None:
        if cx.mode != "py":
            raise Unsupported("self in a static function")
        if a == "params":
            return "(← Q.selfParams)", "store"
        if a == "__dict__":
            return "(← Q.selfDict)", "objdict"
        raise Unsupported(f"load of self.{a}")
    if isinstance(e, ast.Subscript):
        d, dt = ex(e.value, cx)
        k, kt = ex(e.slice, cx)
        if dt == "store" and kt == "str":
            return cx.lift(f"Q.getitem {d} {k}"), "val"
        raise Unsupported(f"subscript {src(e)} ({dt}[{kt}])")
    if isinstance(e, ast.UnaryOp) and isinstance(e.op, ast.Not):
        c, ct = ex(e.operand, cx)
        return f"(!{as_bool(c, ct, cx)})", "bool"
    if isinstance(e, ast.UnaryOp) and isinstance(e.op, ast.USub) and isinstance(e.operand, ast.Constant):
        fr = -lit_value(e.operand.value)
        return rat(fr), ("num", fr if isinstance(e.operand.value, float) else -e.operand.value,
                         "int" if isinstance(e.operand.value, int) else "float")
    if isinstance(e, ast.Compare):
        return compare(e, cx)
    if isinstance(e, ast.Call):
        return call(e, cx)
    raise Unsupported(f"expression {type(e).__name__}: {src(e)}")


def compare(e: ast.Compare, cx: Ctx):
    ops = e.ops
    terms = [e.left] + list(e.comparators)
    if len(ops) == 1 and isinstance(ops[0], (ast.In, ast.NotIn)):
        k, kt = ex(terms[0], cx)
        d, dt = ex(terms[1], cx)
        if kt != "str":
            raise Unsupported(f"membership of a {kt}")
        if dt == "store":
            r = f"Q.dhas {d} {k}"
        elif dt == "slot":
            r = cx.lift(f"Q.slotHas {d} {k}")
        else:
            raise Unsupported(f"`in` on {dt}")
        return (f"(!{r})" if isinstance(ops[0], ast.NotIn) else f"({r})" if not r.startswith("(") else r), "bool"
    if not all(type(o) in CMP for o in ops):
        raise Unsupported(f"comparison {src(e)}")
    if len(ops) == 1:
        (l, lt), (r, rt) = ex(terms[0], cx), ex(terms[1], cx)
        op = "Q.Cmp." + CMP[type(ops[0])]
        if lt == "val" and is_num(rt):
            return cx.lift(f"Q.cmpVN {op} {l} {r}"), "truth"
        if is_num(lt) and rt == "val":
            return cx.lift(f"Q.cmpNV {op} {l} {r}"), "truth"
        raise Unsupported(f"comparison of {lt} with {rt}: {src(e)}")
    if len(ops) == 2:
        (a, at) = ex(terms[0], cx)
        (m, mt) = ex(terms[1], cx)
        (c, ct) = ex(terms[2], cx)
        if not (is_num(at) and mt == "val" and is_num(ct)):
            raise Unsupported(f"chained comparison {src(e)}: only literal op value op literal")
        t = cx.tmp()
        cx.pre.append(f"let {t} ← {strip_arrow(m)}" if m.startswith("(← ") else f"let {t} := {m}")
        o1, o2 = "Q.Cmp." + CMP[type(ops[0])], "Q.Cmp." + CMP[type(ops[1])]
        return cx.lift(f"Q.chain (Q.cmpNV {o1} {a} {t}) (fun _ => Q.cmpVN {o2} {t} {c})"), "truth"
    raise Unsupported(f"comparison chain of length {len(ops)}")


def strip_arrow(t: str) -> str:
    assert t.startswith("(← ") and t.endswith(")")
    return t[len("(← "):-1]


def call(e: ast.Call, cx: Ctx):
    f = e.func
    if any(isinstance(a, ast.Starred) for a in e.args):
        raise Unsupported(f"call {src(e)}")
    if isinstance(f, ast.Name):
        if f.id == "isinstance" and len(e.args) == 2 and not e.keywords:
            v, vt = ex(e.args[0], cx)
            ty = src(e.args[1])
            if vt != "val" or ty not in ("float", "np.ndarray"):
                raise Unsupported(src(e))
            return f"(Q.isinstance {v} Q.PyType.{'float' if ty == 'float' else 'ndarray'})", "bool"
        if f.id == "dict" and not e.keywords:
            if not e.args:
                return "([] : Store)", "store"
            if len(e.args) == 1:
                d, dt = ex(e.args[0], cx)
                if dt == "store":
                    return d, "store"                 # DROPPED: dict(d) is the same value
            raise Unsupported(src(e))
        if f.id == "defaultdict" and len(e.args) == 1 and not e.keywords and isinstance(e.args[0], ast.Name) \
                and e.args[0].id == "dict":
            return "([] : List (String × Store))", "nested"
        if f.id == "list" and len(e.args) == 1 and not e.keywords:
            x, xt = ex(e.args[0], cx)
            if xt == "strlist":
                return x, "strlist"
            raise Unsupported(src(e))
        raise Unsupported(f"function {f.id}")
    if isinstance(f, ast.Attribute):
        # np.all(t)
        if isinstance(f.value, ast.Name) and f.value.id == "np":
            if f.attr == "all" and len(e.args) == 1 and not e.keywords:
                t, tt = ex(e.args[0], cx)
                if tt != "truth":
                    raise Unsupported(f"np.all of {tt}")
                return f"(Q.npAll {t})", "bool"
            raise Unsupported(f"np.{f.attr}")
        if self_attr(f) == "get_params":
            if cx.mode != "py" or e.args or len(e.keywords) != 1 or e.keywords[0].arg != "deep":
                raise Unsupported(src(e))
            b, bt = ex(e.keywords[0].value, cx)
            if bt != "bool":
                raise Unsupported(src(e))
            return f"(← BaseART.get_params {b})", "store"
        recv, rt = ex(f.value, cx)
        if f.attr == "partition" and rt == "str" and len(e.args) == 1 and not e.keywords \
                and isinstance(e.args[0], ast.Constant) and isinstance(e.args[0].value, str) and e.args[0].value:
            return f"(Q.partition {recv} {lstr(e.args[0].value)})", ("tuple", ["str", "str", "str"])
        if f.attr == "keys" and rt == "store" and not e.args and not e.keywords:
            return f"(Q.dkeys {recv})", "strlist"
        if f.attr == "items" and rt in ("store", "nested") and not e.args and not e.keywords:
            return f"(Q.items {recv})", ("items", "val" if rt == "store" else "store")
        if f.attr == "get" and rt == "objdict" and len(e.args) == 2 and not e.keywords \
                and isinstance(e.args[1], ast.Dict) and not e.args[1].keys:
            k, kt = ex(e.args[0], cx)
            if kt != "str":
                raise Unsupported(src(e))
            return f"(Q.dgetD {recv} {k} (Q.Slot.dict []))", "slot"
    raise Unsupported(f"call {src(e)}")


# ------------------------------------------------------------------------------------------- statements


def is_doc(s):
    return isinstance(s, ast.Expr) and isinstance(s.value, ast.Constant) and isinstance(s.value.value, str)


def is_warn(s):
    return (isinstance(s, ast.Expr) and isinstance(s.value, ast.Call) and isinstance(s.value.func, ast.Name)
            and s.value.func.id == "warn" and len(s.value.args) == 1 and not s.value.keywords
            and isinstance(s.value.args[0], ast.Constant) and isinstance(s.value.args[0].value, str))


def assigned(stmts) -> list[str]:
    """names (re-)bound by the statements, in order of first occurrence"""
    out = []

    def add(n):
        if n not in out:
            out.append(n)

    def target(t):
        if isinstance(t, ast.Name):
            add(t.id)
        elif isinstance(t, ast.Tuple):
            for x in t.elts:
                target(x)
        elif isinstance(t, ast.Subscript):
            b = t.value
            while isinstance(b, ast.Subscript):
                b = b.value
            if isinstance(b, ast.Name):
                add(b.id)

    for s in stmts:
        for n in ast.walk(s):
            if isinstance(n, ast.Assign):
                for t in n.targets:
                    target(t)
            elif isinstance(n, (ast.AnnAssign, ast.AugAssign)):
                target(n.target)
            elif isinstance(n, ast.For):
                target(n.target)
    return out


def flush(cx: Ctx, out: list[str], I: str):
    for p in cx.pre:
        out.append(I + p)
    cx.pre = []


def block(stmts, cx: Ctx, I: str, tail: list[str]) -> list[str]:
    """`tail` = the lines a block that falls off its end finishes with"""
    out: list[str] = []
    stmts = [s for s in stmts if not is_doc(s) and not is_warn(s)]          # DROPPED
    for idx, s in enumerate(stmts):
        rest = stmts[idx + 1:]
        if isinstance(s, ast.Return):
            if rest:
                raise Unsupported("statements after return")
            if s.value is None:
                raise Unsupported("bare return")
            if isinstance(s.value, ast.Name) and s.value.id == "self":
                out.append(I + "pure ()")                                   # DROPPED: return self
                return out
            v, vt = ex(s.value, cx)
            flush(cx, out, I)
            want = cx.ret
            if vt != want:
                raise Unsupported(f"returns {vt}, the signature table says {want}")
            out.append(I + f"pure {v}")
            return out
        if isinstance(s, ast.Raise):
            if rest:
                raise Unsupported("statements after raise")
            x = s.exc
            if not (isinstance(x, ast.Call) and isinstance(x.func, ast.Name) and x.func.id in RAISES) or s.cause:
                raise Unsupported(f"raise {src(s)[:60]}")
            if cx.mode != "py":
                raise Unsupported("raise in a static function")
            out.append(I + f"Q.Py.raise Err.{RAISES[x.func.id]}")          # DROPPED: the message
            return out
        if isinstance(s, ast.Assert):
            c, ct = ex(s.test, cx)
            b = as_bool(c, ct, cx)
            flush(cx, out, I)
            out.append(I + (f"Q.assert {b}" if cx.mode == "exc" else f"Q.Py.lift (Q.assert {b})"))
            continue
        if isinstance(s, (ast.Assign, ast.AnnAssign)):
            if isinstance(s, ast.Assign):
                if len(s.targets) != 1:
                    raise Unsupported("multiple assignment")
                t = s.targets[0]
            else:
                t = s.target                                               # DROPPED: the annotation
                if s.value is None:
                    raise Unsupported("annotation without value")
            out += assign(t, s.value, cx, I)
            continue
        if isinstance(s, ast.If):
            c, ct = ex(s.test, cx)
            cond = as_bool(c, ct, cx)
            flush(cx, out, I)
            before = dict(cx.vars)
            body_term = terminates(s.body)
            if body_term and not s.orelse:
                b1 = block(s.body, cx, I + "  ", [])
                cx.vars = dict(before)
                b2 = block(rest, cx, I + "  ", tail)
                out += [I + f"if {cond} then"] + b1 + [I + "else"] + b2
                return out
            if body_term and s.orelse:
                b1 = block(s.body, cx, I + "  ", [])
                cx.vars = dict(before)
                b2 = block(list(s.orelse) + rest, cx, I + "  ", tail)
                out += [I + f"if {cond} then"] + b1 + [I + "else"] + b2
                return out
            if s.orelse and not rest:
                b1 = block(s.body, cx, I + "  ", tail)
                cx.vars = dict(before)
                b2 = block(s.orelse, cx, I + "  ", tail)
                cx.vars = dict(before)
                out += [I + f"if {cond} then"] + b1 + [I + "else"] + b2
                return out
            raise Unsupported("`if` that neither ends its branch nor is the last statement of its block")
        if isinstance(s, ast.For):
            out += for_loop(s, cx, I)
            continue
        if isinstance(s, ast.Expr) and isinstance(s.value, ast.Call):
            out += call_stmt(s.value, cx, I)
            continue
        raise Unsupported(f"statement {type(s).__name__}: {src(s)[:80]}")
    if tail is None:
        raise Unsupported("block falls off its end")
    out += [I + t for t in tail]
    if not out:
        raise Unsupported("empty block")
    return out


def terminates(stmts) -> bool:
    stmts = [s for s in stmts if not is_doc(s)]
    return bool(stmts) and isinstance(stmts[-1], (ast.Return, ast.Raise))


def assign(t, value, cx: Ctx, I: str) -> list[str]:
    out: list[str] = []
    # x = self.get_params(...)
    if isinstance(t, ast.Name) and isinstance(value, ast.Call) and self_attr(value.func) == "get_params":
        v, vt = ex(value, cx)
        flush(cx, out, I)
        if cx.returns_params_ref:
            out.append(I + f"let _ ← {strip_arrow(v)}")
            cx.vars[t.id] = ("alias",)
        else:
            out.append(I + f"let {t.id} ← {strip_arrow(v)}")
            cx.vars[t.id] = vt
        return out
    if isinstance(t, ast.Name):
        if cx.vars.get(t.id) == ("alias",):
            raise Unsupported(f"re-binding of the alias {t.id}")
        v, vt = ex(value, cx)
        flush(cx, out, I)
        if is_num(vt) or vt in ("objdict",) or isinstance(vt, tuple):
            raise Unsupported(f"{t.id} = value of type {vt}")
        out.append(I + f"let {t.id} := {v}")
        cx.vars[t.id] = vt
        return out
    if isinstance(t, ast.Tuple):
        v, vt = ex(value, cx)
        flush(cx, out, I)
        if not (isinstance(vt, tuple) and vt[0] == "tuple" and len(vt[1]) == len(t.elts)
                and all(isinstance(x, ast.Name) for x in t.elts)):
            raise Unsupported(f"unpacking {src(t)} = {vt}")
        names = [x.id for x in t.elts]
        if any(cx.vars.get(n) == ("alias",) for n in names):
            raise Unsupported("re-binding of an alias")
        out.append(I + f"let ({', '.join(names)}) := {v}")
        for n, ty in zip(names, vt[1]):
            cx.vars[n] = ty
        return out
    a = self_attr(t)
    if a is not None:                                                       # self.a = e
        if cx.mode != "py":
            raise Unsupported("store to self in a static function")
        v, vt = ex(value, cx)
        sl = as_slot(v, vt, cx)
        flush(cx, out, I)
        out.append(I + f"BaseART.__setattr__ {lstr(a)} {sl}")
        return out
    if isinstance(t, ast.Subscript):
        # self.params[k] = v
        if self_attr(t.value) == "params":
            k, kt = ex(t.slice, cx)
            v, vt = ex(value, cx)
            if kt != "str":
                raise Unsupported(src(t))
            vv = as_val(v, vt, cx)
            flush(cx, out, I)
            out.append(I + f"Q.paramsSetitem {k} {vv}")
            return out
        # x[k] = v
        if isinstance(t.value, ast.Name):
            x = t.value.id
            xt = cx.vars.get(x)
            k, kt = ex(t.slice, cx)
            v, vt = ex(value, cx)
            if kt != "str":
                raise Unsupported(src(t))
            vv = as_val(v, vt, cx)
            flush(cx, out, I)
            if xt == ("alias",):
                out.append(I + f"Q.paramsSetitem {k} {vv}")
            elif xt == "store":
                out.append(I + f"let {x} := Q.dset {x} {k} {vv}")
            else:
                raise Unsupported(f"{src(t)} on {xt}")
            return out
        # x[k1][k2] = v
        if isinstance(t.value, ast.Subscript) and isinstance(t.value.value, ast.Name):
            x = t.value.value.id
            if cx.vars.get(x) != "nested":
                raise Unsupported(f"{src(t)}: {x} is not a defaultdict(dict)")
            k1, k1t = ex(t.value.slice, cx)
            k2, k2t = ex(t.slice, cx)
            v, vt = ex(value, cx)
            if k1t != "str" or k2t != "str":
                raise Unsupported(src(t))
            vv = as_val(v, vt, cx)
            flush(cx, out, I)
            out.append(I + f"let {x} := Q.ddset2 {x} {k1} {k2} {vv}")
            return out
    raise Unsupported(f"assignment target {src(t)}")


def tuple_pat(names) -> str:
    return "(" + ", ".join(names) + ")" if names else "()"


def for_loop(s: ast.For, cx: Ctx, I: str) -> list[str]:
    if s.orelse or cx.mode != "py":
        raise Unsupported("for/else, or a loop in a static function")
    it, itt = ex(s.iter, cx)
    out: list[str] = []
    flush(cx, out, I)
    if not (isinstance(itt, tuple) and itt[0] == "items" and isinstance(s.target, ast.Tuple) and len(s.target.elts) == 2
            and all(isinstance(x, ast.Name) for x in s.target.elts)):
        raise Unsupported(f"for {src(s.target)} in {src(s.iter)}")
    if any(isinstance(n, (ast.Return, ast.Break, ast.Continue)) for b in s.body for n in ast.walk(b)):
        raise Unsupported("return / break / continue inside a loop")
    k, v = (x.id for x in s.target.elts)
    before = dict(cx.vars)
    re_bound = assigned(s.body)
    car = [n for n in before if n in re_bound and before[n] != ("alias",)]
    if any(before.get(n) == ("alias",) for n in (k, v)):
        raise Unsupported("loop variable shadows an alias")
    cx.vars[k] = "str"
    cx.vars[v] = itt[1]
    body = block(s.body, cx, I + "  ", [f"pure {tuple_pat(car)}"])
    for n in car:
        if cx.vars.get(n) != before[n]:
            raise Unsupported(f"the loop changes the type of {n}")
    cx.vars = before                       # names first bound in the body (and the loop variables) go out of scope
    body[-1] += ")"
    if car:
        out.append(I + f"let {tuple_pat(car)} ← Q.Py.forEach {it} {tuple_pat(car)} (fun ({k}, {v}) {tuple_pat(car)} => do")
    else:
        out.append(I + f"Q.Py.forEach {it} () (fun ({k}, {v}) _ => do")
    return out + body


def call_stmt(e: ast.Call, cx: Ctx, I: str) -> list[str]:
    out: list[str] = []
    f = e.func
    if cx.mode != "py":
        raise Unsupported(f"call statement {src(e)} in a static function")
    # setattr(self, k, v)
    if isinstance(f, ast.Name) and f.id == "setattr" and len(e.args) == 3 and not e.keywords \
            and isinstance(e.args[0], ast.Name) and e.args[0].id == "self":
        k, kt = ex(e.args[1], cx)
        v, vt = ex(e.args[2], cx)
        if kt != "str":
            raise Unsupported(src(e))
        sl = as_slot(v, vt, cx)
        flush(cx, out, I)
        out.append(I + f"BaseART.__setattr__ {k} {sl}")
        return out
    # super().__setattr__(k, v)   (BaseART only)
    if is_super_call(e, "__setattr__"):
        if cx.cls != "BaseART" or len(e.args) != 2 or e.keywords:
            raise Unsupported(src(e))
        k, kt = ex(e.args[0], cx)
        v, vt = ex(e.args[1], cx)
        if kt != "str" or vt != "slot":
            raise Unsupported(src(e))
        flush(cx, out, I)
        out.append(I + f"Q.objectSetattr {k} {v}")
        return out
    # super().__init__(params)   (a subclass of BaseART)
    if is_super_call(e, "__init__"):
        if cx.cls == "BaseART" or cx.method != "__init__" or len(e.args) != 1 or e.keywords:
            raise Unsupported(src(e))
        p, pt = ex(e.args[0], cx)
        if pt != "store":
            raise Unsupported(src(e))
        flush(cx, out, I)
        out.append(I + f"BaseART.__init__ {cx.cls}.validate_params {p}")
        return out
    # self.validate_params(d)
    if self_attr(f) == "validate_params" and len(e.args) == 1 and not e.keywords:
        d, dt = ex(e.args[0], cx)
        if dt != "store":
            raise Unsupported(src(e))
        cx.need("validate_params")
        flush(cx, out, I)
        out.append(I + f"Q.Py.lift (validate_params {d})")
        return out
    # <val>.set_params(**d)
    if isinstance(f, ast.Attribute) and f.attr == "set_params" and not e.args and len(e.keywords) == 1 \
            and e.keywords[0].arg is None:
        r, rt = ex(f.value, cx)
        d, dt = ex(e.keywords[0].value, cx)
        if rt != "val" or dt != "store":
            raise Unsupported(src(e))
        cx.need("ext_set_params")
        flush(cx, out, I)
        out.append(I + f"ext_set_params {r} {d}")
        return out
    raise Unsupported(f"call statement {src(e)}")


# ------------------------------------------------------------------------------------------ definitions


def class_def(repo: Path, cls: str) -> ast.ClassDef:
    tree = ast.parse((Path(repo) / FILES[cls]).read_text())
    cd = [n for n in tree.body if isinstance(n, ast.ClassDef) and n.name == cls]
    if len(cd) != 1:
        raise Unsupported(f"class {cls} not found in {FILES[cls]}")
    return cd[0]


def method(cd: ast.ClassDef, name: str) -> ast.FunctionDef:
    fs = [n for n in cd.body if isinstance(n, ast.FunctionDef) and n.name == name]
    if len(fs) != 1:
        raise Unsupported(f"{cd.name}.{name}: {len(fs)} definitions")
    return fs[0]


def check_base_sig(f: ast.FunctionDef, name: str):
    params, _ = BASE_SIG[name]
    a = f.args
    if f.decorator_list or a.vararg or a.kwonlyargs or a.posonlyargs or not a.args or a.args[0].arg != "self":
        raise Unsupported(f"BaseART.{name}: unusual signature")
    args = a.args[1:]
    defaults = [None] * (len(args) - len(a.defaults)) + [src(d) for d in a.defaults]
    got = [(x.arg, src(x.annotation) if x.annotation else None, d) for x, d in zip(args, defaults)]
    if a.kwarg:
        got.append(("**" + a.kwarg.arg, src(a.kwarg.annotation) if a.kwarg.annotation else None, None))
    want = [(p[0], p[2], p[3]) for p in params]
    if got != want:
        raise Unsupported(f"BaseART.{name} has parameters {got}, the translator knows {want}")


def translate_base(cd: ast.ClassDef, name: str, returns_params_ref: bool) -> str:
    f = method(cd, name)
    check_base_sig(f, name)
    params, rty = BASE_SIG[name]
    cx = Ctx("BaseART", name, "py", returns_params_ref)
    cx.ret = rty
    for p in params:
        cx.vars[p[0].lstrip("*")] = p[1]
    body = block(f.body, cx, "  ", ["pure ()"] if rty == "unit" else None)
    if sorted(cx.ext) != sorted(BASE_EXT.get(name, [])):
        raise Unsupported(f"BaseART.{name} uses {cx.ext}, expected {BASE_EXT.get(name, [])}")
    decl = "".join(f"({e} : {EXT_TYPES[e]}) " for e in BASE_EXT.get(name, []))
    decl += " ".join(f"({p[0].lstrip('*')} : {LTY[p[1]]})" for p in params)
    return (f"/-- `BaseART.{name}` -/\n"
            f"def BaseART.{name} {decl} :\n    Q.M {LTY[rty] if ' ' not in LTY[rty] else '(' + LTY[rty] + ')'} := do\n"
            + "\n".join(body) + "\n")


def get_params_returns_ref(cd: ast.ClassDef) -> bool:
    """is the body of get_params literally `return self.params` (a reference to the dict object, no copy)?"""
    f = method(cd, "get_params")
    stmts = [s for s in f.body if not is_doc(s)]
    return len(stmts) == 1 and isinstance(stmts[0], ast.Return) and self_attr(stmts[0].value) == "params"


def translate_elem(repo: Path, cls: str) -> str:
    cd = class_def(repo, cls)
    if [src(b) for b in cd.bases] != ["BaseART"]:
        raise Unsupported(f"{cls} bases {[src(b) for b in cd.bases]}")
    for n in cd.body:
        if isinstance(n, ast.FunctionDef) and n.name in ("__getattr__", "__setattr__", "get_params", "set_params",
                                                          "__getattribute__", "__delattr__"):
            raise Unsupported(f"{cls} overrides {n.name}")
    out = []
    # --- __init__: signature, defaults
    f = method(cd, "__init__")
    a = f.args
    if f.decorator_list or a.vararg or a.kwarg or a.kwonlyargs or a.posonlyargs or not a.args or a.args[0].arg != "self":
        raise Unsupported(f"{cls}.__init__: unusual signature")
    args = [x.arg for x in a.args[1:]]
    defaults = []
    for x, d in zip(a.args[1 + len(args) - len(a.defaults):], a.defaults):
        cx0 = Ctx(cls, "__init__", "py")
        v, vt = ex(d, cx0)
        defaults.append(f"({lstr(x.arg)}, {as_val(v, vt, cx0)})")
    out.append(f"/-- `inspect.signature({cls}.__init__)` without `self` -/\n"
               f"def {cls}.args : List String := [" + ", ".join(lstr(x) for x in args) + "]\n")
    out.append(f"/-- the default values of `{cls}.__init__` -/\n"
               f"def {cls}.defaults : Store := [" + ", ".join(defaults) + "]\n")
    # --- validate_params
    g = method(cd, "validate_params")
    if [src(d) for d in g.decorator_list] != ["staticmethod"]:
        raise Unsupported(f"{cls}.validate_params is not a staticmethod")
    ga = g.args
    if ga.vararg or ga.kwarg or ga.kwonlyargs or ga.posonlyargs or ga.defaults or [x.arg for x in ga.args] != ["params"]:
        raise Unsupported(f"{cls}.validate_params: unusual signature")
    cx = Ctx(cls, "validate_params", "exc")
    cx.ret = "unit"
    cx.vars["params"] = "store"
    body = block(g.body, cx, "  ", ["pure ()"])
    out.append(f"/-- `{cls}.validate_params` (static) -/\n"
               f"def {cls}.validate_params (params : Store) : Except Err Unit := do\n" + "\n".join(body) + "\n")
    # --- __init__ body
    cx = Ctx(cls, "__init__", "py")
    cx.ret = "unit"
    for x in args:
        cx.vars[x] = "val"
    body = block(f.body, cx, "  ", ["pure ()"])
    decl = " ".join(f"({x} : Val)" for x in args)
    out.append(f"/-- `{cls}.__init__` -/\n"
               f"def {cls}.__init__ {decl} : Q.M Unit := do\n" + "\n".join(body) + "\n")
    return "\n".join(out)


PRELUDE = '''/-
GENERATED by harness/artv/qtrans.py from {files} — do not edit.
Regenerated on every run of the checks that name it; ArtGenProofs/ParamsSpec.lean proves these definitions equal to the
estimator-protocol model of ArtModel/Params.lean (C19).
-/
import ArtModel.ImpParams

set_option linter.unusedVariables false

namespace Art.Gen.Params
open Art
open Art.Params (Val Err Store)

'''


def generate(repo: Path) -> str:
    repo = Path(repo)
    parts = [PRELUDE.replace("{files}", ", ".join(FILES.values()))]
    base = class_def(repo, "BaseART")
    if [src(b) for b in base.bases] != ["BaseEstimator", "ClusterMixin"]:
        raise Unsupported(f"BaseART bases {[src(b) for b in base.bases]}")
    for n in base.body:
        if isinstance(n, ast.FunctionDef) and n.name in ("__getattribute__", "__delattr__", "__setstate__", "__getstate__"):
            raise Unsupported(f"BaseART defines {n.name}")
    ref = get_params_returns_ref(base)
    for name in BASE_METHODS:
        parts.append(translate_base(base, name, ref))
    for cls in ELEM:
        parts.append(translate_elem(repo, cls))
    parts.append("end Art.Gen.Params\n")
    return "\n".join(parts)


def write(repo: Path = None) -> tuple[bool, str]:
    repo = Path(repo or os.environ.get("VERIF_REPO", "/repo"))
    out = VERIF / "lean" / "ArtGen" / "Params.lean"
    try:
        text = generate(repo)
    except (Unsupported, SyntaxError, KeyError, AttributeError, TypeError, IndexError, ValueError, OSError) as e:
        return False, f"{type(e).__name__}: {e}"
    if not out.exists() or out.read_text() != text:
        tmp = out.with_suffix(".lean.tmp")
        tmp.write_text(text)
        os.replace(tmp, out)
    return True, "generated"


# proof obligations of lean/ArtGenProofs/ParamsSpec.lean, relative to namespace Art.GenSpec
THEOREMS: list[str] = ["Params." + t for t in [
    # validate_params of the eight classes, constructor signatures: generated = class table
    "validate_ART1", "validate_ART2A", "validate_FuzzyART", "validate_HypersphereART", "validate_EllipsoidART",
    "validate_BayesianART", "validate_QuadraticNeuronART", "validate_table", "validate_GaussianART",
    "validate_GaussianART_of_positive", "signatures",
    # BaseART.__getattr__ / getattr / get_params / __setattr__ / __init__: generated = getAttr / getParams / setAttr / construct
    "getattr_spec", "pyGetattr_spec", "get_params_spec", "setattr_spec", "init_spec",
    "init_ART1", "init_ART2A", "init_FuzzyART", "init_HypersphereART", "init_EllipsoidART", "init_BayesianART",
    "init_QuadraticNeuronART", "init_GaussianART",
    # BaseART.set_params: generated = setParams
    "partition_eq", "partitionKey_injective", "ddset2_group", "set_params_spec", "set_params_eq", "set_params_GaussianART",
    # C19 transported to the generated definitions
    "gen_set_get_noop", "gen_rejected_unchanged", "gen_unknown_rejected", "gen_set_params_eq_construct",
    "gen_FuzzyART_set_eq_init", "gen_attr_mirrors", "gen_attr_write_mirrors",
]]
COVERS = ("BaseART.__init__ / __getattr__ / __setattr__ / get_params / set_params and, for the eight elementary classes "
          "(ART1, ART2A, FuzzyART, HypersphereART, EllipsoidART, GaussianART, BayesianART, QuadraticNeuronART), the "
          "constructor (signature, defaults, params dict, super().__init__) and validate_params are translated statement by "
          "statement through generic Python helpers (ArtModel/ImpParams.lean: dicts as association lists, str.partition, "
          "dynamically typed comparisons, a state+exception monad over the instance __dict__) and proved equal to validate of "
          "the class table (classTable: args, defaults, checks), construct, getAttr, getParams, setAttr and setParams of "
          "ArtModel/Params.lean for all stores, estimators and keyword lists with distinct names; GaussianART's extra assert "
          "np.all(sigma_init > 0) is proved to be the model's check list followed by that entry check.  Parameters, not "
          "translated: a nested estimator's set_params (ext_set_params; instantiated with a call log in the theorems), the "
          "dynamic dispatch of self.validate_params (validate_params); trusted: Python's keyword-argument binding "
          "(bindArgs), object.__setattr__ of the sklearn bases, the exception messages.")

if __name__ == "__main__":
    import sys
    ok, msg = write(sys.argv[1] if len(sys.argv) > 1 else None)
    print(msg)
    sys.exit(0 if ok else 1)
